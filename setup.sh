#!/bin/bash
# Offline setup: nothing to build.  pyvc runs under python3-vt (z3-solver, cvc5 wheels pre-installed),
# the harnesses run under /venv/bin/python against /repo's working tree (editable install).
set -e
cd "$(dirname "$0")"
python3-vt -c "import z3; print('z3', z3.get_version_string())"
/venv/bin/python -c "import yamlpath, ruamel.yaml; print('yamlpath from', yamlpath.__file__)"
mkdir -p out evidence
