"""z3 value universe and the Python-semantics rules pyvc assumes (DESIGN.md §3.3).

Every Python scalar / reference is a term of the algebraic datatype `Val`.
Each rule of CPython semantics used by the engine is one named function here
so that it can be differential-tested against CPython (`pyvc.selftest`).
"""
import z3

# ---------------------------------------------------------------------------
# sorts
# ---------------------------------------------------------------------------
Val = z3.Datatype("Val")
Val.declare("VNone")
Val.declare("VBool", ("b", z3.BoolSort()))
Val.declare("VInt", ("i", z3.IntSort()))
Val.declare("VFloat", ("r", z3.RealSort()))
Val.declare("VStr", ("s", z3.StringSort()))
Val.declare("VEnum", ("ecls", z3.IntSort()), ("eord", z3.IntSort()))
Val.declare("VType", ("tag", z3.IntSort()))
Val.declare("VRef", ("rid", z3.IntSort()))
Val.declare("VOther", ("oid", z3.IntSort()))
Val = Val.create()

S = z3.StringSort()
I = z3.IntSort()
B = z3.BoolSort()
R = z3.RealSort()
SeqVal = z3.SeqSort(Val)
SeqStr = z3.SeqSort(S)

VNone = Val.VNone
VBool, VInt, VFloat, VStr = Val.VBool, Val.VInt, Val.VFloat, Val.VStr
VEnum, VType, VRef, VOther = Val.VEnum, Val.VType, Val.VRef, Val.VOther
is_None, is_Bool, is_Int, is_Float = Val.is_VNone, Val.is_VBool, Val.is_VInt, Val.is_VFloat
is_Str, is_Enum, is_Type, is_Ref, is_Other = Val.is_VStr, Val.is_VEnum, Val.is_VType, Val.is_VRef, Val.is_VOther
get_b, get_i, get_r, get_s = Val.b, Val.i, Val.r, Val.s
get_ecls, get_eord, get_tag, get_rid, get_oid = Val.ecls, Val.eord, Val.tag, Val.rid, Val.oid

# type tags (VType) -----------------------------------------------------------
TYPE_TAGS = {}
_TAG_NAMES = ["NoneType", "bool", "int", "float", "str", "list", "dict", "set", "tuple",
              "complex", "bytes", "type", "enum", "object"]
for _n in _TAG_NAMES:
    TYPE_TAGS[_n] = len(TYPE_TAGS)
SUBCLASS_TAG_BASE = 1000          # type(v) of an instance of a *subclass* of a builtin


def type_tag(name):
    if name not in TYPE_TAGS:
        TYPE_TAGS[name] = len(TYPE_TAGS)
    return TYPE_TAGS[name]


# object kinds (heap) ---------------------------------------------------------
KINDS = {}


def kind_id(name):
    if name not in KINDS:
        KINDS[name] = len(KINDS) + 1
    return KINDS[name]


K_LIST, K_DICT, K_SET, K_TUPLE = kind_id("list"), kind_id("dict"), kind_id("set"), kind_id("tuple")

# uninterpreted symbols ---------------------------------------------------------
kind_of = z3.Function("kind_of", I, I)                 # heap object kind
exact = z3.Function("exact", Val, B)                   # type(v) is exactly the builtin class (not a subclass)
subtag = z3.Function("subtag", Val, I)                 # type tag of a subclass instance
other_str = z3.Function("other_str", Val, S)           # str() of floats, refs, opaque values
other_truthy = z3.Function("other_truthy", Val, B)
other_eq = z3.Function("other_eq", Val, Val, B)        # == between opaque/reference values
same_obj = z3.Function("same_obj", Val, Val, B)        # object identity of scalars (non-deterministic)
str_lower = z3.Function("str_lower", S, S)
str_upper = z3.Function("str_upper", S, S)
str_title = z3.Function("str_title", S, S)
int_ok = z3.Function("int_ok", S, B)                   # int(s) succeeds
int_of = z3.Function("int_of", S, I)
re_valid = z3.Function("re_valid", S, B)               # re.compile(p) succeeds
re_search = z3.Function("re_search", S, S, B)          # re.compile(p).search(t) is not None
lit_eval = z3.Function("lit_eval", Val, Val)             # ast.literal_eval(s) when it succeeds
typed_fn = z3.Function("typed", Val, Val)                # Nodes.typed_value as a function (determinism)
lit_status = z3.Function("lit_status", Val, I)          # 0 ok, 1 ValueError, 2 SyntaxError, 3 TypeError, 4 MemoryError, 5 RecursionError
seq_len = z3.Function("seq_len", I, I)                 # heap sequences (read-only view)
seq_item = z3.Function("seq_item", I, I, Val)
map_has = z3.Function("map_has", I, Val, B)
coll_has = z3.Function("coll_has", I, Val, B)            # membership in a heap list / set / tuple (by content state)
map_get = z3.Function("map_get", I, Val, Val)
map_len = z3.Function("map_len", I, I)
map_key_at = z3.Function("map_key_at", I, I, Val)
has_attr = z3.Function("has_attr", Val, S, B)            # hasattr(v, name) for attributes of library objects
lib_attr = z3.Function("lib_attr", Val, S, Val)          # the value of such an attribute
dict_has = z3.Function("dict_has", I, Val, B)             # local dicts: membership / lookup per (object, version)
dict_get = z3.Function("dict_get", I, Val, Val)
seg_count = z3.Function("seg_count", I, I)               # number of segments of a YAMLPath object (same for both parses)
seg_type = z3.Function("seg_type", I, I, Val)            # type of the i-th segment of a YAMLPath (same in both parses)
fld = {}                                               # attribute functions of heap objects, by name


def field_fn(name):
    if name not in fld:
        fld[name] = z3.Function("fld_" + name, I, Val)
    return fld[name]


_fresh = [0]


def fresh(prefix, sort=None):
    _fresh[0] += 1
    return z3.Const("%s!%d" % (prefix, _fresh[0]), sort if sort is not None else Val)


def sv(s):
    return z3.StringVal(s)


def mk(pyval):
    """Concrete Python scalar -> Val term."""
    if pyval is None:
        return VNone
    if pyval is True or pyval is False:
        return VBool(z3.BoolVal(pyval))
    if isinstance(pyval, int):
        return VInt(z3.IntVal(pyval))
    if isinstance(pyval, float):
        return VFloat(z3.RealVal(repr(pyval)))
    if isinstance(pyval, str):
        return VStr(z3.StringVal(pyval))
    raise TypeError(pyval)


# ---------------------------------------------------------------------------
# semantics rules
# ---------------------------------------------------------------------------
def is_num(v):
    return z3.Or(is_Bool(v), is_Int(v), is_Float(v))


def to_real(v):
    return z3.If(is_Bool(v), z3.If(get_b(v), z3.RealVal(1), z3.RealVal(0)),
                 z3.If(is_Int(v), z3.ToReal(get_i(v)), get_r(v)))


def to_int(v):
    """bool/int -> Int."""
    return z3.If(is_Bool(v), z3.If(get_b(v), z3.IntVal(1), z3.IntVal(0)), get_i(v))


def is_intlike(v):
    return z3.Or(is_Bool(v), is_Int(v))


def truthy(v):
    return z3.If(is_None(v), z3.BoolVal(False),
           z3.If(is_Bool(v), get_b(v),
           z3.If(is_Int(v), get_i(v) != 0,
           z3.If(is_Float(v), get_r(v) != 0,
           z3.If(is_Str(v), z3.Length(get_s(v)) > 0,
           z3.If(z3.Or(is_Enum(v), is_Type(v)), z3.BoolVal(True),
                 other_truthy(v)))))))


def int_str(i):
    return z3.If(i >= 0, z3.IntToStr(i), z3.Concat(z3.StringVal("-"), z3.IntToStr(-i)))


def py_str(v):
    """str(v).  Exact for None/bool/int/str; uninterpreted otherwise (floats: A-FLT)."""
    return z3.If(is_Str(v), get_s(v),
           z3.If(is_Int(v), int_str(get_i(v)),
           z3.If(is_Bool(v), z3.If(get_b(v), z3.StringVal("True"), z3.StringVal("False")),
           z3.If(is_None(v), z3.StringVal("None"),
                 other_str(v)))))


def py_eq(a, b):
    """Python `a == b` for scalars (numeric cross-type equality; str structural)."""
    return z3.If(z3.And(is_num(a), is_num(b)), to_real(a) == to_real(b),
           z3.If(z3.And(is_Str(a), is_Str(b)), get_s(a) == get_s(b),
           z3.If(z3.And(is_None(a), is_None(b)), z3.BoolVal(True),
           z3.If(z3.Or(is_None(a), is_None(b)), z3.BoolVal(False),
           z3.If(z3.And(is_Enum(a), is_Enum(b)), a == b,
           z3.If(z3.And(is_Type(a), is_Type(b)), a == b,
           z3.If(z3.And(z3.Or(is_Ref(a), is_Other(a)), z3.Or(is_Ref(b), is_Other(b))),
                 z3.Or(a == b, other_eq(a, b)),
           z3.If(z3.Or(is_Ref(a), is_Other(a), is_Ref(b), is_Other(b)),
                 other_eq(a, b),          # e.g. a date against a string: defined by the object
                 z3.BoolVal(False)))))))))


def order_ok(a, b):
    """`a < b` (and friends) does not raise TypeError."""
    return z3.Or(z3.And(is_num(a), is_num(b)), z3.And(is_Str(a), is_Str(b)))


def py_lt(a, b):
    return z3.If(z3.And(is_Str(a), is_Str(b)), get_s(a) < get_s(b), to_real(a) < to_real(b))


def py_le(a, b):
    return z3.If(z3.And(is_Str(a), is_Str(b)), get_s(a) <= get_s(b), to_real(a) <= to_real(b))


def type_of(v):
    """type(v) as a VType term."""
    def tt(n):
        return z3.IntVal(TYPE_TAGS[n])
    tag = z3.If(is_None(v), tt("NoneType"),
          z3.If(is_Type(v), tt("type"),
          z3.If(is_Enum(v), z3.IntVal(SUBCLASS_TAG_BASE) + 500 + get_ecls(v),
          z3.If(z3.Or(is_Ref(v), is_Other(v)), z3.IntVal(SUBCLASS_TAG_BASE) + 5000 + subtag(v),
          z3.If(z3.Not(exact(v)), z3.IntVal(SUBCLASS_TAG_BASE) + subtag(v),
          z3.If(is_Bool(v), tt("bool"),
          z3.If(is_Int(v), tt("int"),
          z3.If(is_Float(v), tt("float"), tt("str")))))))))
    return VType(tag)


def isinstance_of(v, tname):
    """isinstance(v, <builtin or heap class named tname>) as a z3 Bool."""
    if tname == "bool":
        return is_Bool(v)
    if tname == "int":
        return z3.Or(is_Int(v), is_Bool(v))
    if tname == "float":
        return is_Float(v)
    if tname == "str":
        return is_Str(v)
    if tname == "NoneType":
        return is_None(v)
    if tname == "object":
        return z3.BoolVal(True)
    if tname in ("list", "dict", "set", "tuple"):
        return z3.And(is_Ref(v), kind_of(get_rid(v)) == KINDS[tname])
    # repo / library classes: heap objects of that kind
    return z3.And(is_Ref(v), kind_of(get_rid(v)) == kind_id(tname))
