"""Command line of the prover:  python3-vt -m pyvc.run --prop C12 [--json FILE] [--jobs N] [--only qualname]

Exit status of this module: 0 every obligation discharged; 1 some obligation has a counter-model (sat);
2 some obligation undecided / function partly outside the subset; 3 engine error.  The property-level
verdict (VIOLATION lines, known findings, replay) is the job of vf/driver.py, not of this module.
"""
import argparse
import json
import multiprocessing as mp
import os
import sys
import time
import traceback

HERE = os.path.dirname(os.path.abspath(__file__))
VERIF = os.path.dirname(HERE)


def _verify_one(args):
    target, idx, timeout_ms = args
    try:
        from pyvc import dsl
        from pyvc.source import Program
        from pyvc.engine import SolverFront
        from pyvc.full import Engine
        reg = dsl.load_all(os.path.join(VERIF, "contracts"))
        P = Program()
        SP = Program(root=VERIF, pkg="spec")
        c = reg[target][idx]
        fi = P.func(target)
        if fi is None:
            return {"function": target, "contract": c.name, "props": c.props, "error": None,
                    "unsupported": [(target, 0, "cannot attach: function not found in /repo")],
                    "obligations": [], "paths": 0, "assumptions": [], "notes": [], "time_s": 0,
                    "solver_queries": 0, "solver_time_s": 0, "file": "", "line": 0}
        eng = Engine(P, SP, reg, SolverFront(timeout_ms=timeout_ms), c, fi)
        res = eng.verify()
        res["mode"] = "merged"
        und = [o for o in res["obligations"] if o.status not in ("unsat", "sat")]
        if und:
            # undecided VCs: redo the function path by path (no state merging) -- smaller formulas per VC
            eng2 = Engine(P, SP, reg, SolverFront(timeout_ms=timeout_ms), c, fi, opts={"merge": False})
            res2 = eng2.verify()
            und2 = [o for o in res2["obligations"] if o.status not in ("unsat", "sat")]
            if len(und2) < len(und) or any(o.status == "sat" for o in res2["obligations"]):
                res2["mode"] = "split (merged run left %d VCs undecided)" % len(und)
                res2["time_s"] += res["time_s"]
                res = res2
        res["obligations"] = [o.to_json() for o in res["obligations"]]
        res["error"] = None
        return res
    except BaseException:
        return {"function": target, "error": traceback.format_exc(), "obligations": [], "unsupported": [],
                "assumptions": [], "notes": [], "paths": 0, "time_s": 0, "solver_queries": 0, "solver_time_s": 0,
                "contract": "?", "props": [], "file": "", "line": 0}


def run(prop=None, only=None, jobs=None, timeout_ms=10000):
    sys.path.insert(0, VERIF)
    from pyvc import dsl
    reg = dsl.load_all(os.path.join(VERIF, "contracts"))
    tasks = []
    assumed = []
    for target, cs in sorted(reg.items()):
        for idx, c in enumerate(cs):
            if prop and prop not in c.props:
                continue
            if only and only not in target:
                continue
            if c.assumed:
                assumed.append({"function": target, "contract": c.name, "notes": c.notes})
                continue
            tasks.append((target, idx, timeout_ms))
    t0 = time.time()
    jobs = jobs or int(os.environ.get("VERIF_JOBS", "0")) or os.cpu_count() or 4
    if len(tasks) <= 1 or jobs <= 1:
        results = [_verify_one(t) for t in tasks]
    else:
        with mp.get_context("fork").Pool(min(jobs, len(tasks))) as pool:
            results = pool.map(_verify_one, tasks, chunksize=1)
    return {"results": results, "assumed_contracts": assumed, "wall_s": round(time.time() - t0, 2)}


def summarize(report):
    tot = dis = sat = und = 0
    for r in report["results"]:
        for o in r["obligations"]:
            tot += 1
            if o["status"] == "unsat":
                dis += 1
            elif o["status"] == "sat":
                sat += 1
            else:
                und += 1
    return tot, dis, sat, und


def main():
    ap = argparse.ArgumentParser()
    ap.add_argument("--prop")
    ap.add_argument("--only")
    ap.add_argument("--json")
    ap.add_argument("--jobs", type=int)
    ap.add_argument("--timeout-ms", type=int, default=10000)
    ap.add_argument("-v", action="store_true")
    a = ap.parse_args()
    rep = run(a.prop, a.only, a.jobs, a.timeout_ms)
    tot, dis, sat, und = summarize(rep)
    errors = [r for r in rep["results"] if r.get("error")]
    for r in rep["results"]:
        n = len(r["obligations"])
        d = sum(1 for o in r["obligations"] if o["status"] == "unsat")
        print("%-70s paths=%-4d obligations=%-4d discharged=%-4d unsupported=%d  %.2fs" % (
            r["function"], r["paths"], n, d, len(r["unsupported"]), r["time_s"]))
        if r.get("error"):
            print(r["error"])
        for u in r["unsupported"]:
            print("    outside subset:", u)
        for o in r["obligations"]:
            if o["status"] != "unsat" or a.v:
                print("    [%s] %s line %s: %s | %s | %s %s" % (o["status"], o["kind"], o["line"], o["text"][:60], o["desc"][:90], o.get("clause") or "", (o.get("model") or "") if o["status"] == "sat" else ""))
    print("TOTAL obligations=%d discharged=%d sat=%d undecided=%d wall=%.2fs" % (tot, dis, sat, und, rep["wall_s"]))
    if a.json:
        with open(a.json, "w") as fh:
            json.dump(rep, fh, indent=1, default=str)
    if errors:
        sys.exit(3)
    if sat:
        sys.exit(1)
    if und or any(r["unsupported"] for r in rep["results"]):
        sys.exit(2)
    if tot == 0:
        sys.exit(3)
    sys.exit(0)


if __name__ == "__main__":
    main()
