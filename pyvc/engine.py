"""pyvc engine: symbolic execution of real function ASTs into verification conditions.

One path at a time (no joins); loops by invariant (havoc + assume + re-establish);
calls by contract or by inlining; every operation that can raise produces a safety
obligation; every return/yield path produces post-condition obligations.
See DESIGN.md §3.  The engine never imports anything from /repo.
"""
import ast
import copy
import time
import z3

from . import vals as V
from .vals import Val

# ---------------------------------------------------------------------------
# symbolic values (Python side)
# ---------------------------------------------------------------------------


class Z:
    """A z3 term of sort Val, with an optional static hint ('str', 'int', 'bool', ('enum', cls))."""
    __slots__ = ("t", "hint")

    def __init__(self, t, hint=None):
        self.t = t
        self.hint = hint

    def __repr__(self):
        return "Z(%s)" % (self.t,)


class PyTuple:
    __slots__ = ("items",)

    def __init__(self, items):
        self.items = list(items)

    def __repr__(self):
        return "PyTuple(%r)" % (self.items,)


class RefV:
    """Reference to a path-local mutable object in State.store."""
    __slots__ = ("ref",)

    def __init__(self, ref):
        self.ref = ref

    def __repr__(self):
        return "RefV(%d)" % self.ref


class ListBox:          # concrete-length local list / deque
    def __init__(self, items, elem="val", kind="list"):
        self.items = list(items)
        self.elem = elem
        self.kind = kind

    def clone(self):
        return ListBox(self.items, self.elem, self.kind)


class SeqBox:           # symbolic-length local list (after a loop havoc, or a list parameter owned by the function)
    def __init__(self, term, elem, kind="list", elem_ann=None):
        self.term = term
        self.elem = elem          # 'str' (Seq(String)) or 'val' (Seq(Val))
        self.kind = kind
        self.elem_ann = elem_ann  # annotation of the elements of a 'val' list (assumed at each read)

    def clone(self):
        return SeqBox(self.term, self.elem, self.kind, self.elem_ann)


class AbsBox:           # abstract collection: symbolic length, elements of an annotated shape (or opaque)
    def __init__(self, kind="list", length=None, elem_ann=None, reads=None):
        self.kind = kind
        self.length = length          # z3 Int (>= 0) or None when unknown
        self.elem_ann = elem_ann      # ast annotation of the elements, or None (reads unsupported)
        self.reads = dict(reads or {})   # index term id -> element already read (reads are deterministic)

    def clone(self):
        b = AbsBox(self.kind, self.length, self.elem_ann, self.reads)
        b.version = getattr(self, "version", 0)
        if hasattr(self, "seq_id"):
            b.seq_id = self.seq_id
        if hasattr(self, "elem_inv"):
            b.elem_inv = self.elem_inv
            b.owner = getattr(self, "owner", None)
        if hasattr(self, "items"):
            b.items = list(self.items)
        if hasattr(self, "prov"):
            b.prov = self.prov
        return b


class GenV:
    """The (lazy) result of calling a generator function that has a contract."""
    def __init__(self, contract, fi, env, node):
        self.contract = contract
        self.fi = fi
        self.env = env
        self.node = node


class LambdaV:
    def __init__(self, node, env, fi):
        self.node = node
        self.env = env
        self.fi = fi


class ObjBox:           # instance of a repo class (or exception) with symbolic fields
    def __init__(self, cls, fields=None, symbolic=False, ident=None, name="self"):
        self.cls = cls                # class short name
        self.fields = dict(fields or {})
        self.symbolic = symbolic      # fields not present are created lazily (pre-existing object)
        self.ident = ident            # z3 Int id when the object pre-exists in the heap
        self.name = name              # parameter name it came from (key prefix in assume_fields)
        self.facts = {}               # attr -> assumed type constraint of a lazily created field (re-asserted at each read)

    def clone(self):
        b = ObjBox(self.cls, self.fields, self.symbolic, self.ident, self.name)
        b.facts = dict(self.facts)
        return b


class FuncV:
    def __init__(self, fi, bound=None):
        self.fi = fi
        self.bound = bound


class ClassV:
    def __init__(self, name, ci=None):
        self.name = name
        self.ci = ci


class BuiltinV:
    def __init__(self, name, bound=None):
        self.name = name
        self.bound = bound

    def __repr__(self):
        return "Builtin(%s)" % self.name


class ModuleV:
    def __init__(self, name):
        self.name = name


class SpecFuncV:
    def __init__(self, fi):
        self.fi = fi


class Exc:
    """A raised exception travelling up."""

    def __init__(self, cls, origin, why="", obj=None):
        self.cls = cls                # class short name
        self.origin = origin          # (file, lineno, source text)
        self.why = why
        self.obj = obj

    def __repr__(self):
        return "Exc(%s @%s)" % (self.cls, self.origin[1] if self.origin else "?")


class Unsupported(Exception):
    def __init__(self, reason, node=None):
        Exception.__init__(self, reason)
        self.reason = reason
        self.lineno = getattr(node, "lineno", None)


BUILTIN_EXC_PARENT = {
    "BaseException": None, "Exception": "BaseException", "SystemExit": "BaseException",
    "KeyboardInterrupt": "BaseException", "GeneratorExit": "BaseException",
    "ArithmeticError": "Exception", "ZeroDivisionError": "ArithmeticError", "OverflowError": "ArithmeticError",
    "LookupError": "Exception", "IndexError": "LookupError", "KeyError": "LookupError",
    "ValueError": "Exception", "UnicodeError": "ValueError", "TypeError": "Exception",
    "AttributeError": "Exception", "NameError": "Exception", "RuntimeError": "Exception",
    "NotImplementedError": "RuntimeError", "RecursionError": "RuntimeError", "SyntaxError": "Exception",
    "MemoryError": "Exception", "OSError": "Exception", "IOError": "OSError", "FileNotFoundError": "OSError",
    "PermissionError": "OSError", "StopIteration": "Exception", "AssertionError": "Exception",
    "re.error": "Exception", "error": "Exception", "EOFError": "Exception",
    "CalledProcessError": "Exception", "JSONDecodeError": "ValueError",
}


_HEAPN = 0


class State:
    def __init__(self):
        self.env = {}
        self.pc = []
        self.store = {}
        self.out = []          # yielded values (generators)
        self.ghost = {}
        self.trace = []        # branch decisions (line numbers) for reporting
        self.nref = 0
        self.flags = {}
        self.subst = []        # (uninterpreted constant, value) pairs learnt from assumed equalities
        self.known = {}        # z3 ast id -> True/False for conditions already decided on this path
        # container contents of pre-existing heap objects are read through a content-state id (sid):
        # heap_epoch is None (sid == object id) or an uninterpreted Int->Int function chosen after a
        # whole-heap havoc; heap_writes lists (object id, sid) pairs for objects written since, latest last
        self.heap_epoch = None
        self.heap_writes = []

    def fork(self):
        s = State.__new__(State)
        s.env = dict(self.env)
        s.pc = list(self.pc)
        s.store = {k: v.clone() for k, v in self.store.items()}
        s.out = list(self.out)
        s.ghost = dict(self.ghost)
        s.trace = list(self.trace)
        s.nref = self.nref
        s.flags = dict(self.flags)
        s.subst = list(self.subst)
        s.known = dict(self.known)
        s.heap_epoch = self.heap_epoch
        s.heap_writes = list(self.heap_writes)
        return s

    def sid(self, rid):
        """Content-state id of the heap object `rid` in this state."""
        base = self.heap_epoch(rid) if self.heap_epoch is not None else rid
        for (r, n) in self.heap_writes:
            base = n if r.get_id() == rid.get_id() else z3.If(rid == r, n, base)
        return base

    def heap_write(self, rid, tag="w"):
        """The object `rid` is about to change: returns (old sid, new sid); every other object keeps its contents."""
        global _HEAPN
        old = self.sid(rid)
        _HEAPN += 1
        new = z3.Int("sid!%s!%d" % (tag, _HEAPN))
        self.heap_writes.append((rid, new))
        self.flags = dict(self.flags)
        self.flags.pop("elem_facts", None)
        return old, new

    def heap_havoc(self, tag="h"):
        """Contents of every pre-existing container may have changed (callee frame `*`, loop head)."""
        global _HEAPN
        _HEAPN += 1
        self.heap_epoch = z3.Function("epoch!%s!%d" % (tag, _HEAPN), z3.IntSort(), z3.IntSort())
        self.heap_writes = []
        self.flags = dict(self.flags)
        self.flags.pop("elem_facts", None)

    def heap_sig(self):
        return (id(self.heap_epoch), tuple((a.get_id(), b.get_id()) for a, b in self.heap_writes))

    def same_heap(self, other):
        return self.heap_epoch is other.heap_epoch and len(self.heap_writes) == len(other.heap_writes) and all(
            a[0].get_id() == b[0].get_id() and a[1].get_id() == b[1].get_id() for a, b in zip(self.heap_writes, other.heap_writes))

    def alloc(self, box):
        self.nref += 1
        self.store[self.nref] = box
        return RefV(self.nref)

    def assume(self, f):
        self.pc.append(f)
        self.learn(f)
        try:
            if z3.is_not(f):
                self.known[f.arg(0).get_id()] = False
            else:
                self.known[f.get_id()] = True
        except z3.Z3Exception:
            pass

    def decided(self, cond):
        """True / False when `cond` (already simplified) was assumed or refuted on this path, else None."""
        k = self.known.get(cond.get_id())
        if k is not None:
            return k
        if z3.is_not(cond):
            k = self.known.get(cond.arg(0).get_id())
            if k is not None:
                return not k
        return None

    def learn(self, f):
        """Record `x == value` facts so later tests on x are decided without a solver call."""
        try:
            if z3.is_and(f):
                for c in f.children():
                    self.learn(c)
                return
            if z3.is_eq(f):
                a, b = f.arg(0), f.arg(1)
                for x, v in ((a, b), (b, a)):
                    if z3.is_const(x) and x.decl().kind() == z3.Z3_OP_UNINTERPRETED and _is_value(v):
                        self.subst.append((x, v))
                        return
            elif z3.is_const(f) and f.decl().kind() == z3.Z3_OP_UNINTERPRETED and f.sort() == z3.BoolSort():
                self.subst.append((f, z3.BoolVal(True)))
            elif z3.is_not(f):
                g = f.arg(0)
                if z3.is_const(g) and g.decl().kind() == z3.Z3_OP_UNINTERPRETED:
                    self.subst.append((g, z3.BoolVal(False)))
        except z3.Z3Exception:
            pass

    def simp(self, f):
        if self.subst:
            f = z3.substitute(f, *self.subst)
        return z3.simplify(f)


class Obligation:
    def __init__(self, kind, func, lineno, text, desc, formulas, status=None, model=None, clause=None):
        self.kind = kind            # K1..K7
        self.func = func
        self.lineno = lineno
        self.text = text
        self.desc = desc
        self.formulas = formulas    # list of z3 Bool; obligation holds iff their conjunction is unsat
        self.status = status        # 'unsat' | 'sat' | 'unknown'
        self.model = model
        self.clause = clause
        self.solver = None
        self.time = 0.0

    def key(self):
        return "%s|%s|%s|%s" % (self.func, self.kind, self.text, self.clause or self.desc)

    def to_json(self):
        return {"kind": self.kind, "func": self.func, "line": self.lineno, "text": self.text,
                "desc": self.desc, "clause": self.clause, "status": self.status,
                "solver": self.solver, "time_s": round(self.time, 4),
                "model": self.model}


def _is_value(t, depth=0):
    """t is a ground value: numeral / string / bool literal or a constructor applied to values."""
    if z3.is_int_value(t) or z3.is_rational_value(t) or z3.is_string_value(t) or z3.is_true(t) or z3.is_false(t):
        return True
    if z3.is_app(t) and t.decl().kind() == z3.Z3_OP_DT_CONSTRUCTOR and depth < 4:
        return all(_is_value(c, depth + 1) for c in t.children())
    return False


# ---------------------------------------------------------------------------
# solver front
# ---------------------------------------------------------------------------
class SolverFront:
    """z3 first; cvc5 (--strings-exp) takes z3's unknowns for obligations (never for path pruning)."""

    def __init__(self, timeout_ms=10000, feas_timeout_ms=3000, cvc5_timeout_ms=15000):
        self.timeout_ms = timeout_ms
        self.feas_timeout_ms = feas_timeout_ms
        self.cvc5_timeout_ms = cvc5_timeout_ms
        self.nqueries = 0
        self.time = 0.0
        self.unknowns = 0
        self.cvc5_calls = 0
        self.cvc5_decided = 0
        self.last_solver = "z3"

    def check(self, formulas, timeout_ms=None, want_model=False, use_cvc5=False):
        """-> ('sat'|'unsat'|'unknown', model-or-None)"""
        self.last_solver = "z3"
        fs = []
        for f in formulas:
            f = z3.simplify(f)
            if z3.is_false(f):
                return "unsat", None
            if z3.is_true(f):
                continue
            fs.append(f)
        if not fs:
            return "sat", None
        t0 = time.time()
        s = z3.Solver()
        s.set("timeout", int(timeout_ms or self.timeout_ms))
        s.add(*fs)
        r = s.check()
        self.nqueries += 1
        self.time += time.time() - t0
        if r == z3.unsat:
            return "unsat", None
        if r == z3.sat:
            return "sat", (s.model() if want_model else None)
        self.unknowns += 1
        if use_cvc5:
            r2, txt = self.cvc5(s)
            if r2 in ("sat", "unsat"):
                self.last_solver = "cvc5"
                self.cvc5_decided += 1
                return r2, ({"cvc5_model": txt} if r2 == "sat" else None)
        return "unknown", None

    def cvc5(self, solver):
        import os
        import subprocess
        import tempfile
        self.cvc5_calls += 1
        t0 = time.time()
        text = "(set-logic ALL)\n" + solver.to_smt2().replace("seq.nth_i", "seq.nth").replace("seq.nth_u", "seq.nth")
        text += "\n(get-model)\n"
        fd, path = tempfile.mkstemp(suffix=".smt2", prefix="pyvc-")
        try:
            with os.fdopen(fd, "w") as fh:
                fh.write(text)
            p = subprocess.run(["/usr/bin/cvc5", "--strings-exp", "--produce-models", "--tlimit=%d" % self.cvc5_timeout_ms, path],
                               capture_output=True, text=True, timeout=self.cvc5_timeout_ms / 1000.0 + 10)
            out = p.stdout.strip()
            first = out.splitlines()[0].strip() if out else ""
            self.time += time.time() - t0
            if first in ("sat", "unsat"):
                return first, out[len(first):].strip()[:4000]
            return "unknown", (out + p.stderr)[:300]
        except (OSError, subprocess.TimeoutExpired) as ex:
            return "unknown", str(ex)
        finally:
            try:
                os.remove(path)
            except OSError:
                pass

    def feasible(self, formulas):
        r, _ = self.check(formulas, timeout_ms=self.feas_timeout_ms)
        return r != "unsat"


# ---------------------------------------------------------------------------
# helpers
# ---------------------------------------------------------------------------
def is_exc(v):
    return isinstance(v, Exc)


MUTATING_METHODS = {"append", "pop", "extend", "insert", "clear", "remove", "add", "discard",
                    "appendleft", "popleft", "update", "sort", "reverse", "move_to_end", "setdefault"}


def assigned_names(stmts):
    """Names (and attribute chains on self) assigned or mutated anywhere in stmts."""
    names, attrs = set(), set()

    class Vis(ast.NodeVisitor):
        def visit_Name(self, n):
            if isinstance(n.ctx, (ast.Store, ast.Del)):
                names.add(n.id)

        def visit_Attribute(self, n):
            if isinstance(n.ctx, (ast.Store, ast.Del)) and isinstance(n.value, ast.Name):
                attrs.add((n.value.id, n.attr))
            self.generic_visit(n)

        def visit_Call(self, n):
            f = n.func
            if isinstance(f, ast.Attribute) and f.attr in MUTATING_METHODS:
                if isinstance(f.value, ast.Name):
                    names.add(f.value.id)
                elif isinstance(f.value, ast.Attribute) and isinstance(f.value.value, ast.Name):
                    attrs.add((f.value.value.id, f.value.attr))
            self.generic_visit(n)

        def visit_Subscript(self, n):
            if isinstance(n.ctx, (ast.Store, ast.Del)) and isinstance(n.value, ast.Name):
                names.add(n.value.id)
            self.generic_visit(n)

        def visit_FunctionDef(self, n):
            return

        def visit_Lambda(self, n):
            return
    v = Vis()
    for s in stmts:
        v.visit(s)
    return names, attrs
