"""Sidecar contract DSL (DESIGN.md §2.1).  Contracts are plain classes registered by qualified name.

    @contract("yamlpath.common.searches.Searches.search_matches", props=["C12"])
    class SearchMatches:
        params   = {"needle": "str"}             # type pre-conditions, by parameter (annotation syntax)
        requires = ["..."]                         # Python expressions over the parameters
        ensures  = ["..."]                         # ... over parameters, `result` (return value) or `out` (yield list)
        raises   = ["YAMLPathException"]           # exception classes that may escape (subclasses included)
        modifies = []                              # objects the function may store into (K3); None = unchecked
        loops    = {"for char_idx, char in enumerate(yaml_path)": {"invariant": ["..."]}}
        inline   = ["yamlpath.enums.pathseparators.PathSeparators.__str__"]   # callees executed, not abstracted
        assume_fields = {"self._original": "str"}  # class-invariant assumptions about `self` (listed in evidence)

Nothing here touches /repo.
"""
REGISTRY = {}


class Contract:
    def __init__(self, target, cls, props):
        self.target = target
        self.name = cls.__name__
        self.props = list(props)
        g = lambda n, d: getattr(cls, n, d)
        self.params = dict(g("params", {}))
        self.requires = list(g("requires", []))
        self.ensures = list(g("ensures", []))
        self.raises = list(g("raises", []))
        self.modifies = g("modifies", None)
        self.loops = dict(g("loops", {}))
        self.inline = list(g("inline", []))
        self.assume_fields = dict(g("assume_fields", {}))
        self.assumed = bool(g("assumed", False))          # contract is NOT verified against the body (external / trusted)
        self.pure_fn = g("pure_fn", None)                 # name of an uninterpreted function modelling the result (for callers)
        self.notes = g("notes", "")
        self.covers = list(g("covers", []))               # expressions that must be reachable (vacuity guard)
        self.ghost = dict(g("ghost", {}))
        self.opts = dict(g("opts", {}))
        self.doc = (cls.__doc__ or "").strip()


def contract(target, props=()):
    def deco(cls):
        c = Contract(target, cls, props)
        REGISTRY.setdefault(target, []).append(c)
        return cls
    return deco


def load_all(pkgdir):
    """Import every module under /verif/contracts (they only register classes)."""
    import importlib.util
    import os
    REGISTRY.clear()
    for f in sorted(os.listdir(pkgdir)):
        if f.endswith(".py") and not f.startswith("_"):
            spec = importlib.util.spec_from_file_location("contracts_" + f[:-3], os.path.join(pkgdir, f))
            mod = importlib.util.module_from_spec(spec)
            spec.loader.exec_module(mod)
    # an ASSUMED contract is what call sites use; two of them for one target would silently shadow each other
    for target, cs in REGISTRY.items():
        plain = [c for c in cs if c.assumed and not c.opts.get("callsite")]
        if len(plain) > 1:
            raise RuntimeError("two assumed contracts for %s: %s" % (target, [c.name for c in plain]))
    return REGISTRY
