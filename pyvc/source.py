"""Reads /repo's current source text with `ast` on every run (never a copy).

Builds an index:  modules, classes (bases, methods, enum members), functions,
nested functions, and the import map of each module, so that the engine can
resolve the names that occur in a function body.
"""
import ast
import os

REPO = os.environ.get("PYVC_REPO", "/repo")


class FuncInfo:
    def __init__(self, qualname, node, module, cls=None, parent=None):
        self.qualname = qualname          # e.g. yamlpath.common.searches.Searches.search_matches
        self.node = node
        self.module = module
        self.cls = cls                    # ClassInfo or None
        self.parent = parent              # enclosing FuncInfo for nested defs
        self.kind = "function"            # function | staticmethod | classmethod | method | property | setter
        for d in node.decorator_list:
            src = ast.unparse(d)
            if src == "staticmethod":
                self.kind = "staticmethod"
            elif src == "classmethod":
                self.kind = "classmethod"
            elif src == "property":
                self.kind = "property"
            elif src.endswith(".setter"):
                self.kind = "setter"
        if cls is not None and self.kind == "function":
            self.kind = "method"
        self.is_generator = any(isinstance(n, (ast.Yield, ast.YieldFrom)) for n in _walk_own(node))

    @property
    def name(self):
        return self.node.name

    @property
    def file(self):
        return self.module.path

    def __repr__(self):
        return "<Func %s>" % self.qualname


def _walk_own(fn):
    """Walk a function body without descending into nested defs/lambdas/classes."""
    stack = list(fn.body)
    while stack:
        n = stack.pop()
        yield n
        for c in ast.iter_child_nodes(n):
            if isinstance(c, (ast.FunctionDef, ast.AsyncFunctionDef, ast.Lambda, ast.ClassDef)):
                continue
            stack.append(c)


class ClassInfo:
    def __init__(self, qualname, node, module):
        self.qualname = qualname
        self.name = node.name
        self.node = node
        self.module = module
        self.bases = [ast.unparse(b) for b in node.bases]
        self.methods = {}         # name -> FuncInfo (getter for properties)
        self.setters = {}         # name -> FuncInfo
        self.enum_members = []    # ordered names if this is an Enum
        self.is_enum = any(b.split(".")[-1] == "Enum" for b in self.bases)
        self.class_attrs = {}     # name -> ast expr

    def __repr__(self):
        return "<Class %s>" % self.qualname


class ModuleInfo:
    def __init__(self, name, path, tree, text):
        self.name = name
        self.path = path
        self.tree = tree
        self.text = text
        self.lines = text.splitlines()
        self.imports = {}         # local name -> dotted origin ("yamlpath.enums.PathSearchMethods", "re", ...)
        self.functions = {}
        self.classes = {}
        self.globals = {}         # simple module-level constants: name -> ast expr


class Program:
    def __init__(self, root=None, pkg="yamlpath"):
        self.root = root or REPO
        self.pkg = pkg
        self.modules = {}
        self.classes_by_name = {}     # short name -> [ClassInfo]
        self.funcs = {}               # qualname -> FuncInfo
        self._load()

    def _load(self):
        pkg = os.path.join(self.root, self.pkg)
        for dirpath, _dirs, files in os.walk(pkg):
            for f in sorted(files):
                if not f.endswith(".py"):
                    continue
                path = os.path.join(dirpath, f)
                rel = os.path.relpath(path, self.root)[:-3].replace(os.sep, ".")
                if rel.endswith(".__init__"):
                    rel = rel[: -len(".__init__")]
                with open(path, encoding="utf-8") as fh:
                    text = fh.read()
                tree = ast.parse(text, filename=path)
                mod = ModuleInfo(rel, path, tree, text)
                self.modules[rel] = mod
                self._index_module(mod)

    def _index_module(self, mod):
        for node in mod.tree.body:
            if isinstance(node, ast.Import):
                for a in node.names:
                    mod.imports[a.asname or a.name.split(".")[0]] = a.name
            elif isinstance(node, ast.ImportFrom):
                base = node.module or ""
                for a in node.names:
                    mod.imports[a.asname or a.name] = base + "." + a.name
            elif isinstance(node, ast.FunctionDef):
                fi = FuncInfo(mod.name + "." + node.name, node, mod)
                mod.functions[node.name] = fi
                self._register_func(fi)
            elif isinstance(node, ast.ClassDef):
                ci = ClassInfo(mod.name + "." + node.name, node, mod)
                mod.classes[node.name] = ci
                self.classes_by_name.setdefault(node.name, []).append(ci)
                for item in node.body:
                    if isinstance(item, ast.FunctionDef):
                        fi = FuncInfo(ci.qualname + "." + item.name, item, mod, cls=ci)
                        if fi.kind == "setter":
                            ci.setters[item.name] = fi
                            fi.qualname += ".setter"
                        else:
                            ci.methods[item.name] = fi
                        self._register_func(fi)
                    elif isinstance(item, ast.Assign) and len(item.targets) == 1 and isinstance(item.targets[0], ast.Name):
                        nm = item.targets[0].id
                        ci.class_attrs[nm] = item.value
                        if ci.is_enum:
                            ci.enum_members.append(nm)
            elif isinstance(node, ast.Assign) and len(node.targets) == 1 and isinstance(node.targets[0], ast.Name):
                mod.globals[node.targets[0].id] = node.value

    def _register_func(self, fi):
        self.funcs[fi.qualname] = fi
        for n in ast.walk(fi.node):
            if n is fi.node:
                continue
            if isinstance(n, ast.FunctionDef):
                # nested def (one level is all the repo uses)
                q = fi.qualname + "." + n.name
                if q not in self.funcs:
                    self.funcs[q] = FuncInfo(q, n, fi.module, cls=None, parent=fi)

    # -- lookups -----------------------------------------------------------
    def func(self, qualname):
        return self.funcs.get(qualname)

    def find_class(self, short):
        cs = self.classes_by_name.get(short)
        if cs and len(cs) == 1:
            return cs[0]
        return None

    def class_mro(self, ci):
        """Names of ci and its (repo-known or builtin) ancestors."""
        out, todo = [], [ci.name]
        seen = set()
        while todo:
            n = todo.pop(0)
            if n in seen:
                continue
            seen.add(n)
            out.append(n)
            c = self.find_class(n)
            if c is not None:
                todo.extend(b.split(".")[-1] for b in c.bases)
        return out

    def src_line(self, fi, lineno):
        try:
            return fi.module.lines[lineno - 1].strip()
        except IndexError:
            return ""
