"""Statement / expression semantics of the pyvc engine (see engine.py for the data types)."""
import ast
import os
import z3

from . import vals as V
from .vals import Val
from .engine import (Z, PyTuple, RefV, ListBox, SeqBox, AbsBox, ObjBox, LambdaV, GenV, FuncV, ClassV, BuiltinV,
                     ModuleV, SpecFuncV, Exc, Unsupported, State, Obligation, BUILTIN_EXC_PARENT,
                     is_exc, assigned_names, MUTATING_METHODS)

LOG_METHODS = {"debug", "verbose", "info", "warning", "error"}      # dropped calls (A-LOG); `critical` is NOT dropped
BUILTIN_TYPES = {"bool", "int", "float", "str", "list", "dict", "set", "tuple", "object", "type", "bytes", "complex"}
# library classes -> the builtin kind isinstance() sees (assumption about ruamel.yaml 0.17.21 class hierarchy)
# attributes of library classes the engine may rely on (assumption about ruamel.yaml 0.17.21)
LIB_CLASS_ATTRS = {"TaggedScalar": ("value", "tag", "style"), "CommentedMap": ("merge", "anchor", "ca", "fa"),
                   "CommentedSeq": ("anchor", "ca", "fa"), "CommentedSet": ("anchor",)}
LIB_KIND = {"CommentedSeq": "list", "CommentedMap": "dict", "OrderedDict": "dict", "ordereddict": "dict",
            "CommentedSet": "CommentedSet", "TaggedScalar": "TaggedScalar", "deque": "deque"}


def T(b):
    return z3.BoolVal(bool(b))


class Executor:
    def __init__(self, program, specprog, registry, solver, contract, fi, opts=None):
        self.P = program
        self.SP = specprog
        self.registry = registry
        self.solver = solver
        self.contract = contract
        self.fi = fi
        self.opts = opts or {}
        self.obligations = []
        self.pending = []           # (Obligation, Exc) whose fate is not yet known
        self.unsupported = []       # (lineno, reason)
        self.literals = set()
        self.assumptions = set()
        self.depth = 0
        self.paths = 0
        self.covers_hit = set()
        self.enum_ids = {}
        self.cur_fi = fi
        self.max_inline_depth = 6
        self.case_facts_done = set()
        self._cwa = {}
        self.pure = 0          # >0: evaluating a contract clause: no forking on and/or/if-else, no safety obligations
        self.in_spec = 0       # >0: inside contract/spec text: failing safety there is a spec defect, not an obligation

    # ------------------------------------------------------------------ misc
    def origin(self, node):
        ln = getattr(node, "lineno", 0) or 0
        lines = getattr(self.cur_fi.module, "lines", [])
        text = lines[ln - 1].strip() if 0 < ln <= len(lines) else ""
        return (self.cur_fi.file, ln, text)

    def enum_cls_id(self, name):
        if name not in self.enum_ids:
            self.enum_ids[name] = len(self.enum_ids) + 1
        return self.enum_ids[name]

    def enum_member(self, ci, member):
        return Z(V.VEnum(z3.IntVal(self.enum_cls_id(ci.name)), z3.IntVal(ci.enum_members.index(member))), ("enum", ci.name))

    def exc_parent(self, name):
        ci = self.P.find_class(name)
        if ci is not None:
            return ci.bases[0].split(".")[-1] if ci.bases else None
        return BUILTIN_EXC_PARENT.get(name)

    def exc_isa(self, name, target):
        seen = 0
        while name is not None and seen < 20:
            if name == target:
                return True
            name = self.exc_parent(name)
            seen += 1
        return False

    def allowed_raise(self, contract, cls):
        return any(self.exc_isa(cls, a) for a in contract.raises)

    # ------------------------------------------------------------- obligations
    def add_obl(self, kind, node, desc, formulas, clause=None, st=None):
        o = self.origin(node) if node is not None else (self.cur_fi.file, 0, "")
        ob = Obligation(kind, self.fi.qualname, o[1], o[2], desc, list(formulas), clause=clause)
        self.obligations.append(ob)
        return ob

    def discharge(self, ob, want_model=True):
        import time
        t0 = time.time()
        r, m = self.solver.check(ob.formulas, want_model=want_model, use_cvc5=True)
        ob.time = time.time() - t0
        ob.status = r
        ob.solver = self.solver.last_solver
        if isinstance(m, dict):
            ob.model = m
        elif m is not None:
            ob.model = self.render_model(m)
        return r

    def render_model(self, m, limit=40):
        out = {}
        try:
            for d in m.decls():
                n = d.name()
                if d.arity() == 0 and "!" not in n or n.startswith("in_") or n.startswith("loop_"):
                    out[n] = str(m[d])
                if len(out) >= limit:
                    break
        except Exception as ex:   # rendering must never affect a verdict
            out["_render_error"] = str(ex)
        return out

    def prove(self, st, goal, kind, node, desc, clause=None):
        """Obligation: pc => goal."""
        ob = self.add_obl(kind, node, desc, st.pc + [z3.Not(goal)], clause=clause)
        self.discharge(ob)
        return ob

    def need(self, st, cond, exc_cls, node, why):
        """Safety (K1): the operation at `node` raises `exc_cls` unless `cond`.

        Returns a list of (state, None | Exc)."""
        if self.pure:
            return [(st, None)]
        cond = st.simp(cond)
        if self.in_spec:
            if z3.is_true(cond) or self.solver.check(st.pc + [z3.Not(cond)])[0] == "unsat":
                return [(st, None)]
            raise Unsupported("spec text may raise %s here (%s)" % (exc_cls, why), node)
        if z3.is_true(cond):
            ob = self.add_obl("K1", node, why, [T(False)])
            ob.status, ob.solver = "unsat", "simplify"
            return [(st, None)]
        ob = self.add_obl("K1", node, why, st.pc + [z3.Not(cond)], clause=exc_cls)
        r, _ = self.solver.check(ob.formulas)
        if r == "unsat":
            ob.status, ob.solver = "unsat", "z3"
            return [(st, None)]
        res = []
        bad = st.fork()
        bad.assume(z3.Not(cond))
        exc = Exc(exc_cls, self.origin(node), why)
        ob.status = "pending"
        self.pending.append((ob, exc, bad))
        if z3.is_false(cond):
            return [(bad, exc)]
        if self.solver.feasible(st.pc + [cond]):
            st.assume(cond)
            res.append((st, None))
        res.append((bad, exc))
        return res

    def settle(self, exc, fate):
        """fate: 'caught' | 'allowed' | 'escaped'."""
        for (ob, e, bad) in self.pending:
            if e is exc and ob.status == "pending":
                if fate in ("caught", "allowed"):
                    ob.status, ob.solver = "unsat", fate      # handled: not a violation of K1
                    ob.desc += " [%s]" % fate
                else:
                    ob.formulas = list(bad.pc)
                    self.discharge(ob)
                return ob
        return None

    # ------------------------------------------------------------------ names
    def lookup(self, name, st, node=None):
        if name in st.env:
            return st.env[name]
        return self.lookup_global(name, node)

    def lookup_global(self, name, node=None):
        fi = self.cur_fi
        mod = fi.module
        if name in ("True", "False", "None"):
            return Z(V.mk({"True": True, "False": False, "None": None}[name]))
        if name in mod.functions:
            return FuncV(mod.functions[name])
        if name in mod.classes:
            return ClassV(name, mod.classes[name])
        if name in mod.imports:
            origin = mod.imports[name]
            short = origin.split(".")[-1]
            if origin.startswith("spec.prims."):
                return BuiltinV(short)
            ci = self.P.find_class(short)
            if ci is not None:
                return ClassV(short, ci)
            if self.SP is not None and origin.split(".")[0] == "spec":
                sm = self.SP.modules.get(origin)
                if sm is not None:
                    return ModuleV(origin)
            # a module of the repo or the library
            if origin in self.P.modules:
                return ModuleV(origin)
            # function imported from a repo module
            modname = ".".join(origin.split(".")[:-1])
            m = self.P.modules.get(modname)
            if m is not None and short in m.functions:
                return FuncV(m.functions[short])
            if short in BUILTIN_EXC_PARENT or origin in ("re.error",):
                return ClassV(short)
            if short in LIB_KIND or short[:1].isupper():
                return ClassV(short)
            if origin in ("re", "os", "sys", "json", "shutil", "ast", "tempfile", "os.path"):
                return ModuleV(origin)
            return BuiltinV(origin)
        if name in mod.globals:
            return ("global_expr", mod.globals[name])
        ci = self.P.find_class(name)
        if ci is not None and fi.module.name.startswith("spec"):
            return ClassV(name, ci)
        if name in BUILTIN_EXC_PARENT:
            return ClassV(name)
        if name in BUILTIN_TYPES:
            return ClassV(name)
        if name in LIB_KIND or name in LIB_CLASS_ATTRS or name in ("ScalarBoolean", "ScalarInt", "ScalarFloat", "ScalarString"):
            return ClassV(name)           # library classes named in contract / spec text
        return BuiltinV(name)

    # ---------------------------------------------------------------- truthiness
    def truth(self, v, st, node=None):
        """-> z3 Bool for `bool(v)`."""
        if isinstance(v, Z):
            return z3.simplify(V.truthy(v.t))
        if isinstance(v, PyTuple):
            return T(len(v.items) > 0)
        if isinstance(v, RefV):
            box = st.store[v.ref]
            if isinstance(box, ListBox):
                return T(len(box.items) > 0)
            if isinstance(box, SeqBox):
                return z3.Length(box.term) > 0
            if isinstance(box, ObjBox):
                ci = self.P.find_class(box.cls)
                if ci is not None and ("__len__" in ci.methods or "__bool__" in ci.methods):
                    raise Unsupported("truthiness of %s via __len__/__bool__" % box.cls, node)
                return T(True)
            if isinstance(box, AbsBox) and box.length is not None:
                return box.length > 0
            raise Unsupported("truthiness of opaque collection", node)
        if isinstance(v, (FuncV, ClassV, BuiltinV, ModuleV)):
            return T(True)
        raise Unsupported("truthiness of %r" % (v,), node)

    def branch(self, st, cond, node=None):
        """Split st on z3 Bool cond -> (st_true | None, st_false | None)."""
        cond = st.simp(cond)
        if z3.is_true(cond):
            return st, None
        if z3.is_false(cond):
            return None, st
        k = st.decided(cond)
        if k is True:
            return st, None
        if k is False:
            return None, st
        t_ok = self.solver.feasible(st.pc + [cond])
        if not t_ok:
            st.assume(z3.Not(cond))
            return None, st
        f_ok = self.solver.feasible(st.pc + [z3.Not(cond)])
        if not f_ok:
            st.assume(cond)
            return st, None
        sf = st.fork()
        st.assume(cond)
        sf.assume(z3.Not(cond))
        ln = getattr(node, "lineno", 0)
        st.trace.append(ln)
        sf.trace.append(-ln)
        return st, sf

    # ----------------------------------------------------------------- boxing
    def to_z(self, v, st, node=None):
        """Convert an SV to a Z (boxing local objects as opaque refs where needed)."""
        if isinstance(v, Z):
            return v
        if isinstance(v, PyTuple):
            key = ("tupleref", id(v))
            t = V.fresh("tuple")
            st.assume(V.is_Ref(t))
            st.assume(V.kind_of(V.get_rid(t)) == V.K_TUPLE)
            st.flags[("boxed", str(t))] = v
            return Z(t)
        if isinstance(v, RefV):
            box = st.store[v.ref]
            tag = ("boxref", v.ref)
            if tag in st.flags:
                return Z(st.flags[tag])
            t = V.fresh("obj")
            st.assume(V.is_Ref(t))
            kind = box.cls if isinstance(box, ObjBox) else getattr(box, "kind", "list")
            st.assume(V.kind_of(V.get_rid(t)) == V.kind_id(LIB_KIND.get(kind, kind)))
            st.flags[tag] = t
            st.flags[("unbox", str(t))] = v
            return Z(t)
        raise Unsupported("cannot box %r" % (v,), node)

    def def_str(self, v, s):
        """v is certainly a str in state s (static hint, syntactic, or entailed by the path condition)."""
        if not isinstance(v, Z):
            return False
        if v.hint == "str":
            return True
        c = s.simp(V.is_Str(v.t))
        if z3.is_true(c):
            return True
        if z3.is_false(c):
            return False
        if s.decided(c) is not None:
            return s.decided(c)
        r, _ = self.solver.check(s.pc + [z3.Not(c)], timeout_ms=self.solver.feas_timeout_ms)
        if r == "unsat":
            # remembered for this path only: the value object is shared with sibling paths where it may be anything
            s.known[c.get_id()] = True
            return True
        return False

    def isk(self, v, kind):
        """z3 Bool "v is of builtin kind": literally True when the static hint already says so."""
        if kind == "str":
            return T(True) if v.hint == "str" else V.is_Str(v.t)
        if kind == "intlike":
            return T(True) if v.hint in ("int", "bool") else V.is_intlike(v.t)
        if kind == "num":
            return T(True) if v.hint in ("int", "bool", "float") else V.is_num(v.t)
        raise KeyError(kind)

    def concrete_str(self, v):
        if isinstance(v, Z):
            t = z3.simplify(v.t)
            if z3.is_app(t) and t.decl().name() == "VStr" and z3.is_string_value(t.arg(0)):
                return t.arg(0).as_string()
        return None

    def concrete_int(self, v):
        if isinstance(v, Z):
            t = z3.simplify(v.t)
            if z3.is_app(t) and t.decl().name() == "VInt" and z3.is_int_value(t.arg(0)):
                return t.arg(0).as_long()
        return None

    def note_literal(self, s):
        if isinstance(s, str) and len(s) <= 24 and s.isascii():
            self.literals.add(s)

    def case_fn(self, which, sterm, st):
        """str.lower/upper/title on a symbolic string: uninterpreted, with ground facts for the
        ASCII literals seen so far (A-CASE) instantiated on this term."""
        fn = {"lower": V.str_lower, "upper": V.str_upper, "title": V.str_title}[which]
        s = z3.simplify(sterm)
        if z3.is_string_value(s):
            py = s.as_string()
            if py.isascii():
                return z3.StringVal(getattr(py, which)())
        res = fn(sterm)
        for lit in sorted(self.literals):
            conv = getattr(lit, which)()
            st.assume(z3.Implies(sterm == z3.StringVal(lit), res == z3.StringVal(conv)))
            # a cased result equal to a cased literal comes only from strings that case to it
        if which == "lower":
            # ASCII fact used by typed_value: lower(s) in {"true","false"} => title(s) in {"True","False"} resp.
            st.assume(z3.Implies(res == z3.StringVal("true"), V.str_title(sterm) == z3.StringVal("True")))
            st.assume(z3.Implies(res == z3.StringVal("false"), V.str_title(sterm) == z3.StringVal("False")))
            self.assumptions.add("A-CASE: s.lower()=='true' => s.title()=='True' (and 'false'/'False'); validated natively over all code points by pyvc.native_facts")
        return res

    # ------------------------------------------------------------- expressions
    def ev(self, e, st):
        """Evaluate expression e in state st -> list of (state, value | Exc)."""
        m = getattr(self, "ev_" + type(e).__name__, None)
        if m is None:
            raise Unsupported("expression %s" % type(e).__name__, e)
        return m(e, st)

    def ev_list(self, exprs, st):
        """Evaluate expressions left to right -> list of (state, [values] | Exc)."""
        results = [(st, [])]
        for e in exprs:
            nxt = []
            for (s, vals) in results:
                if is_exc(vals):
                    nxt.append((s, vals))
                    continue
                for (s2, v) in self.ev(e, s):
                    if is_exc(v):
                        nxt.append((s2, v))
                    else:
                        nxt.append((s2, vals + [v]))
            results = nxt
        return results

    def ev_Constant(self, e, st):
        v = e.value
        if isinstance(v, str):
            self.note_literal(v)
        if v is None or isinstance(v, (bool, int, float, str)):
            return [(st, Z(V.mk(v), type(v).__name__ if v is not None else None))]
        if v is Ellipsis:
            raise Unsupported("Ellipsis", e)
        raise Unsupported("constant %r" % (v,), e)

    def ev_Lambda(self, e, st):
        return [(st, LambdaV(e, dict(st.env), self.cur_fi))]

    def ev_Name(self, e, st):
        v = self.lookup(e.id, st, e)
        if isinstance(v, tuple) and v and v[0] == "global_expr":
            return self.ev(v[1], st)
        return [(st, v)]

    def ev_JoinedStr(self, e, st):
        """f-strings: exact text for literal pieces and str/int/bool values without a format spec."""
        exprs = [p.value for p in e.values if isinstance(p, ast.FormattedValue)]
        out = []
        for (s, vals) in self.ev_list(exprs, st):
            if is_exc(vals):
                out.append((s, vals))
                continue
            it = iter(vals)
            r = z3.StringVal("")
            for p in e.values:
                if isinstance(p, ast.Constant):
                    r = z3.Concat(r, z3.StringVal(str(p.value)))
                else:
                    v = next(it)
                    if isinstance(v, Z) and p.format_spec is None and p.conversion == -1 and \
                            (v.hint in ("str", "int", "bool") or self.def_str(v, s)):
                        r = z3.Concat(r, V.py_str(v.t))
                    else:
                        r = z3.Concat(r, V.fresh("fstr", V.S))
            out.append((s, Z(V.VStr(z3.simplify(r)), "str")))
        return out

    def ev_Tuple(self, e, st):
        if any(isinstance(x, ast.Starred) for x in e.elts):
            raise Unsupported("starred in tuple", e)
        return [(s, v if is_exc(v) else PyTuple(v)) for (s, v) in self.ev_list(e.elts, st)]

    def ev_List(self, e, st):
        out = []
        for (s, v) in self.ev_list(e.elts, st):
            out.append((s, v if is_exc(v) else s.alloc(ListBox(v))))
        return out

    def ev_Dict(self, e, st):
        if any(k is None for k in e.keys):
            raise Unsupported("dict unpacking in a display", e)
        out = []
        for (s, vals) in self.ev_list(list(e.keys) + list(e.values), st):
            if is_exc(vals):
                out.append((s, vals))
            else:
                n = len(e.keys)
                box = AbsBox("dict", z3.IntVal(n), None)
                box.items = list(zip(vals[:n], vals[n:]))
                out.append((s, s.alloc(box)))
        return out

    def ev_Set(self, e, st):
        raise Unsupported("set display", e)

    def ev_IfExp(self, e, st):
        out = []
        if self.pure:
            for (s, vals) in self.ev_list([e.test, e.body, e.orelse], st):
                if is_exc(vals):
                    out.append((s, vals))
                elif all(isinstance(v, Z) for v in vals[1:]):
                    out.append((s, Z(z3.If(self.truth(vals[0], s, e), vals[1].t, vals[2].t))))
                else:
                    raise Unsupported("conditional expression over non-scalars in a contract clause", e)
            return out
        for (s, c) in self.ev(e.test, st):
            if is_exc(c):
                out.append((s, c))
                continue
            t, f = self.branch(s, self.truth(c, s, e), e)
            if t is not None:
                out.extend(self.ev(e.body, t))
            if f is not None:
                out.extend(self.ev(e.orelse, f))
        return out

    def ev_BoolOp(self, e, st):
        # short-circuit value semantics
        is_and = isinstance(e.op, ast.And)
        if self.pure:
            out = []
            for (s, vals) in self.ev_list(e.values, st):
                if is_exc(vals):
                    out.append((s, vals))
                else:
                    ts = [self.truth(v, s, e) for v in vals]
                    out.append((s, Z(V.VBool(z3.And(ts) if is_and else z3.Or(ts)), "bool")))
            return out
        merged = self.boolop_merged(e, st, is_and)
        if merged is not None:
            return merged
        results = []
        work = [(st, 0, None)]
        while work:
            s, i, _ = work.pop()
            for (s2, v) in self.ev(e.values[i], s):
                if is_exc(v):
                    results.append((s2, v))
                    continue
                if i == len(e.values) - 1:
                    results.append((s2, v))
                    continue
                c = self.truth(v, s2, e)
                t, f = self.branch(s2, c, e)
                if is_and:
                    if f is not None:
                        results.append((f, v))
                    if t is not None:
                        work.append((t, i + 1, None))
                else:
                    if t is not None:
                        results.append((t, v))
                    if f is not None:
                        work.append((f, i + 1, None))
        return results

    # -- non-forking evaluation of `and`/`or`, `x if c else y` and small if-statements ------------
    def store_sig(self, s):
        sig = []
        for k in sorted(s.store):
            b = s.store[k]
            if isinstance(b, ListBox):
                sig.append((k, "L", tuple(id(x) if not isinstance(x, Z) else x.t.get_id() for x in b.items)))
            elif isinstance(b, SeqBox):
                sig.append((k, "S", b.term.get_id()))
            elif isinstance(b, ObjBox):
                sig.append((k, "O", tuple(sorted((n, (v.t.get_id() if isinstance(v, Z) else id(v))) for n, v in b.fields.items()))))
            else:
                sig.append((k, "A", b.kind, b.length.get_id() if b.length is not None else None))
        return tuple(sig)

    def boolop_merged(self, e, st, is_and):
        """Evaluate `a and b ...` / `a or b ...` without forking: the right operand is evaluated under
        the left operand's truth (its safety obligations are guarded by it); value semantics kept by ite.
        Returns None (and rolls back) when an operand forks, may raise, is not a scalar, or has effects."""
        if not self.opts.get("merge", True):
            return None
        mark_o, mark_p, mark_u = len(self.obligations), len(self.pending), len(self.unsupported)
        base_pc, base_sig, base_known, base_subst = len(st.pc), None, dict(st.known), list(st.subst)

        def rollback():
            del self.obligations[mark_o:]
            del self.pending[mark_p:]
            del self.unsupported[mark_u:]
            del st.pc[base_pc:]
            st.known, st.subst = base_known, base_subst
            return None
        try:
            first = self.ev(e.values[0], st)
        except Unsupported:
            return rollback()
        if len(first) != 1 or is_exc(first[0][1]) or not isinstance(first[0][1], Z) or first[0][0] is not st:
            return rollback()
        acc = first[0][1]
        guards = []
        base_sig = self.store_sig(st)
        for operand in e.values[1:]:
            g = self.truth(acc, st, e)
            guards.append(g if is_and else z3.Not(g))
            guard = z3.And(guards) if len(guards) > 1 else guards[0]
            gs = st.simp(guard)
            if z3.is_false(gs):
                break                      # the remaining operands are never evaluated
            sub = st.fork()
            sub.assume(guard)
            n0 = len(sub.pc)
            try:
                r = self.ev(operand, sub)
            except Unsupported:
                return rollback()
            if len(r) != 1 or is_exc(r[0][1]) or not isinstance(r[0][1], Z) or r[0][0] is not sub:
                return rollback()
            if self.store_sig(sub) != base_sig or sub.nref != st.nref or len(sub.out) != len(st.out):
                return rollback()
            for f in sub.pc[n0:]:
                st.pc.append(z3.Implies(guard, f))
            b = r[0][1]
            t_acc = self.truth(acc, st, e)
            val = z3.If(t_acc, b.t, acc.t) if is_and else z3.If(t_acc, acc.t, b.t)
            hint = b.hint if b.hint == acc.hint else None
            acc = Z(val, hint)
        return [(st, acc)]

    def ev_UnaryOp(self, e, st):
        if isinstance(e.op, ast.USub) and isinstance(e.operand, ast.Constant) and type(e.operand.value) in (int, float):
            return [(st, Z(V.mk(-e.operand.value), type(e.operand.value).__name__))]
        out = []
        for (s, v) in self.ev(e.operand, st):
            if is_exc(v):
                out.append((s, v))
            elif isinstance(e.op, ast.Not):
                out.append((s, Z(V.VBool(z3.Not(self.truth(v, s, e))), "bool")))
            elif isinstance(e.op, ast.USub) and isinstance(v, Z):
                for (s2, x) in self.need(s, V.is_num(v.t), "TypeError", e, "unary minus on a number"):
                    if x is not None:
                        out.append((s2, x))
                    else:
                        out.append((s2, Z(z3.If(V.is_Float(v.t), V.VFloat(-V.get_r(v.t)), V.VInt(-V.to_int(v.t))))))
            else:
                raise Unsupported("unary op", e)
        return out

    def ev_BinOp(self, e, st):
        out = []
        for (s, vals) in self.ev_list([e.left, e.right], st):
            if is_exc(vals):
                out.append((s, vals))
                continue
            a, b = vals
            out.extend(self.binop(e.op, a, b, s, e))
        return out

    def binop(self, op, a, b, s, e):
        if isinstance(a, Z) and isinstance(b, Z):
            if isinstance(op, ast.Add):
                both_str = z3.And(self.isk(a, "str"), self.isk(b, "str"))
                both_int = z3.And(self.isk(a, "intlike"), self.isk(b, "intlike"))
                both_num = z3.And(self.isk(a, "num"), self.isk(b, "num"))
                res = []
                for (s2, x) in self.need(s, z3.Or(both_str, both_num), "TypeError", e, "operands of + are both str or both numbers"):
                    if x is not None:
                        res.append((s2, x))
                        continue
                    val = z3.If(both_str, V.VStr(z3.Concat(V.get_s(a.t), V.get_s(b.t))),
                                z3.If(both_int, V.VInt(V.to_int(a.t) + V.to_int(b.t)),
                                      V.VFloat(V.to_real(a.t) + V.to_real(b.t))))
                    hint = "str" if a.hint == "str" and b.hint == "str" else ("int" if a.hint == "int" and b.hint == "int" else None)
                    res.append((s2, Z(z3.simplify(val), hint)))
                return res
            if isinstance(op, (ast.Sub, ast.Mult)):
                both_int = z3.And(self.isk(a, "intlike"), self.isk(b, "intlike"))
                both_num = z3.And(self.isk(a, "num"), self.isk(b, "num"))
                res = []
                for (s2, x) in self.need(s, both_num, "TypeError", e, "operands of -/* are numbers"):
                    if x is not None:
                        res.append((s2, x))
                        continue
                    if isinstance(op, ast.Sub):
                        val = z3.If(both_int, V.VInt(V.to_int(a.t) - V.to_int(b.t)), V.VFloat(V.to_real(a.t) - V.to_real(b.t)))
                    else:
                        val = z3.If(both_int, V.VInt(V.to_int(a.t) * V.to_int(b.t)), V.VFloat(V.to_real(a.t) * V.to_real(b.t)))
                    res.append((s2, Z(z3.simplify(val), "int" if a.hint == "int" and b.hint == "int" else None)))
                return res
        if isinstance(op, ast.Add) and isinstance(a, RefV) and isinstance(b, RefV):
            ba, bb = s.store[a.ref], s.store[b.ref]
            if isinstance(ba, ListBox) and isinstance(bb, ListBox):
                return [(s, s.alloc(ListBox(ba.items + bb.items, ba.elem, ba.kind)))]
        if isinstance(op, ast.Add) and isinstance(a, PyTuple) and isinstance(b, PyTuple):
            return [(s, PyTuple(a.items + b.items))]
        if isinstance(op, ast.Add) and isinstance(a, RefV) and isinstance(b, RefV):
            ba, bb = s.store[a.ref], s.store[b.ref]
            if isinstance(ba, AbsBox) and isinstance(bb, (ListBox, AbsBox)) and ba.length is not None:
                extra = z3.IntVal(len(bb.items)) if isinstance(bb, ListBox) else bb.length
                if extra is not None:
                    nb = AbsBox("list", ba.length + extra, ba.elem_ann)
                    if isinstance(bb, ListBox):
                        nb.prov = (a.ref, list(bb.items))       # built as <a> + [items]: provenance for wf clauses
                    return [(s, s.alloc(nb))]
        if isinstance(op, ast.Add) and isinstance(a, Z) and isinstance(b, RefV) and isinstance(s.store[b.ref], (ListBox, AbsBox)):
            # <heap list> + <local list>: a new list (neither operand is modified)
            res = []
            for (s2, x) in self.need(s, V.isinstance_of(a.t, "list"), "TypeError", e, "left operand of list concatenation is a list"):
                if x is not None:
                    res.append((s2, x))
                    continue
                bb = s2.store[b.ref]
                extra = z3.IntVal(len(bb.items)) if isinstance(bb, ListBox) else bb.length
                n0 = V.seq_len(s2.sid(V.get_rid(a.t)))
                s2.assume(n0 >= 0)
                nb = AbsBox("list", (n0 + extra) if extra is not None else None, None)
                if isinstance(bb, ListBox):
                    nb.prov = (a, list(bb.items))
                res.append((s2, s2.alloc(nb)))
            return res
        if isinstance(a, RefV) and isinstance(s.store[a.ref], ObjBox):
            dunder = {ast.Add: "__add__", ast.Sub: "__sub__"}.get(type(op))
            ci = self.P.find_class(s.store[a.ref].cls)
            if dunder and ci is not None and dunder in ci.methods:
                return self.call_function(ci.methods[dunder], [a, b], {}, s, e)
        raise Unsupported("binary op %s on %s,%s" % (type(op).__name__, type(a).__name__, type(b).__name__), e)

    # -- comparisons -------------------------------------------------------
    def ev_Compare(self, e, st):
        # chained comparisons: a op1 b op2 c  ==  (a op1 b) and (b op2 c), each operand evaluated once
        results = []
        for (s, first) in self.ev(e.left, st):
            if is_exc(first):
                results.append((s, first))
                continue
            results.extend(self._cmp_chain(e, 0, first, s))
        return results

    def _cmp_chain(self, e, i, left, st):
        out = []
        for (s, right) in self.ev(e.comparators[i], st):
            if is_exc(right):
                out.append((s, right))
                continue
            for (s2, r) in self.compare(e.ops[i], left, right, s, e):
                if is_exc(r):
                    out.append((s2, r))
                    continue
                if i == len(e.ops) - 1:
                    out.append((s2, Z(V.VBool(r), "bool")))
                else:
                    t, f = self.branch(s2, r, e)
                    if f is not None:
                        out.append((f, Z(V.mk(False), "bool")))
                    if t is not None:
                        out.extend(self._cmp_chain(e, i + 1, right, t))
        return out

    def compare(self, op, a, b, s, node):
        """-> list of (state, z3 Bool | Exc)."""
        if isinstance(op, (ast.Is, ast.IsNot)):
            r = self.identical(a, b, s, node)
            return [(s, z3.Not(r) if isinstance(op, ast.IsNot) else r)]
        if isinstance(op, (ast.Eq, ast.NotEq)):
            r = self.equal(a, b, s, node)
            return [(s, z3.Not(r) if isinstance(op, ast.NotEq) else r)]
        if isinstance(op, (ast.In, ast.NotIn)):
            out = []
            for (s2, r) in self.contains(b, a, s, node):
                if is_exc(r):
                    out.append((s2, r))
                else:
                    out.append((s2, z3.Not(r) if isinstance(op, ast.NotIn) else r))
            return out
        if isinstance(op, (ast.Lt, ast.LtE, ast.Gt, ast.GtE)):
            if not (isinstance(a, Z) and isinstance(b, Z)):
                raise Unsupported("ordering of non-scalars", node)
            out = []
            okc = z3.Or(z3.And(self.isk(a, "num"), self.isk(b, "num")), z3.And(self.isk(a, "str"), self.isk(b, "str")))
            for (s2, x) in self.need(s, okc, "TypeError", node, "ordering operands are both numbers or both str"):
                if x is not None:
                    out.append((s2, x))
                    continue
                if isinstance(op, ast.Lt):
                    r = V.py_lt(a.t, b.t)
                elif isinstance(op, ast.LtE):
                    r = V.py_le(a.t, b.t)
                elif isinstance(op, ast.Gt):
                    r = V.py_lt(b.t, a.t)
                else:
                    r = V.py_le(b.t, a.t)
                out.append((s2, r))
            return out
        raise Unsupported("comparison op", node)

    def identical(self, a, b, s, node):
        if isinstance(a, Z) and isinstance(b, Z):
            ta, tb = z3.simplify(a.t), z3.simplify(b.t)
            # identity is decided by the term for None / bool / enum members / types / references
            singleton = lambda t: z3.Or(V.is_None(t), V.is_Bool(t), V.is_Enum(t), V.is_Type(t), V.is_Ref(t))
            sa, sb = z3.simplify(singleton(ta)), z3.simplify(singleton(tb))
            if z3.is_true(sa) or z3.is_true(sb) or ta.get_id() == tb.get_id():
                return ta == tb
            if (isinstance(a.hint, tuple) and a.hint[0] in ("obj", "enum")) or (isinstance(b.hint, tuple) and b.hint[0] in ("obj", "enum")):
                return ta == tb
            # scalars: identity is non-deterministic but implies equality of terms
            self.assumptions.add("identity (`is`) between int/float/str scalars is an uninterpreted relation implying equality")
            return z3.If(z3.Or(singleton(ta), singleton(tb)), ta == tb, z3.And(ta == tb, V.same_obj(ta, tb)))
        if isinstance(a, (ClassV,)) and isinstance(b, ClassV):
            return T(a.name == b.name)
        if isinstance(a, RefV) and isinstance(b, RefV):
            return T(a.ref == b.ref)
        if isinstance(a, Z) and isinstance(b, ClassV):
            return self.identical(a, self.class_as_z(b, node), s, node)
        if isinstance(a, ClassV) and isinstance(b, Z):
            return self.identical(self.class_as_z(a, node), b, s, node)
        if isinstance(a, RefV) and isinstance(b, Z) or isinstance(a, Z) and isinstance(b, RefV):
            z = a if isinstance(a, Z) else b
            r = b if isinstance(a, Z) else a
            tag = ("boxref", r.ref)
            if tag in s.flags:
                return z.t == s.flags[tag]
            # a fresh local object is never identical to a pre-existing value
            return z3.BoolVal(False) if z3.is_true(z3.simplify(z3.Not(V.is_Ref(z.t)))) else self.to_z(r, s, node).t == z.t
        raise Unsupported("`is` between %s and %s" % (type(a).__name__, type(b).__name__), node)

    def class_as_z(self, c, node):
        if c.name in V.TYPE_TAGS or c.name in BUILTIN_TYPES:
            return Z(V.VType(z3.IntVal(V.type_tag(c.name))))
        raise Unsupported("class %s as a value" % c.name, node)

    def equal(self, a, b, s, node):
        if isinstance(a, Z) and isinstance(b, Z):
            return z3.simplify(V.py_eq(a.t, b.t))
        if isinstance(a, PyTuple) and isinstance(b, PyTuple):
            if len(a.items) != len(b.items):
                return T(False)
            return z3.And([self.equal(x, y, s, node) for x, y in zip(a.items, b.items)] or [T(True)])
        if isinstance(a, ClassV) and isinstance(b, ClassV):
            return T(a.name == b.name)
        if isinstance(a, RefV) and isinstance(b, RefV):
            ba, bb = s.store[a.ref], s.store[b.ref]
            if a.ref == b.ref:
                return T(True)
            if isinstance(ba, ListBox) and isinstance(bb, ListBox):
                if len(ba.items) != len(bb.items):
                    return T(False)
                return z3.And([self.equal(x, y, s, node) for x, y in zip(ba.items, bb.items)] or [T(True)])
        if isinstance(a, Z) and isinstance(b, (PyTuple, RefV)) or isinstance(b, Z) and isinstance(a, (PyTuple, RefV)):
            z = a if isinstance(a, Z) else b
            if z3.is_true(z3.simplify(z3.Not(z3.Or(V.is_Ref(z.t), V.is_Other(z.t))))):
                return T(False)
        raise Unsupported("== between %s and %s" % (type(a).__name__, type(b).__name__), node)

    def contains(self, container, item, s, node):
        """`item in container` -> list of (state, z3 Bool | Exc)."""
        if isinstance(container, PyTuple):
            return [(s, z3.Or([self.equal(item, x, s, node) for x in container.items] or [T(False)]))]
        if isinstance(container, RefV):
            box = s.store[container.ref]
            if isinstance(box, ListBox):
                return [(s, z3.Or([self.equal(item, x, s, node) for x in box.items] or [T(False)]))]
            if isinstance(box, SeqBox) and isinstance(item, Z):
                if box.elem == "str":
                    return [(s, z3.And(V.is_Str(item.t), z3.Contains(box.term, z3.Unit(V.get_s(item.t)))))]
                self.assumptions.add("`x in list` on a symbolic list uses term equality (exact for str/None/enum elements)")
                return [(s, z3.Contains(box.term, z3.Unit(item.t)))]
            if isinstance(box, AbsBox) and box.kind == "dict" and isinstance(item, Z):
                return [(s, V.dict_has(z3.IntVal(container.ref * 1000 + getattr(box, "version", 0)), item.t))]
            raise Unsupported("`in` on opaque collection", node)
        if isinstance(container, Z) and isinstance(item, Z):
            c, i = container.t, item.t
            # str in str (the only scalar container); other kinds: heap lookups
            if self.def_str(container, s):
                out = []
                for (s2, x) in self.need(s, self.isk(item, "str"), "TypeError", node, "left operand of `in <str>` is a str"):
                    out.append((s2, x if x is not None else z3.Contains(V.get_s(c), V.get_s(i))))
                return out
            out = []
            ok = z3.Or(V.is_Str(c), z3.And(V.is_Ref(c), z3.Or(
                V.kind_of(V.get_rid(c)) == V.K_LIST, V.kind_of(V.get_rid(c)) == V.K_DICT,
                V.kind_of(V.get_rid(c)) == V.K_SET, V.kind_of(V.get_rid(c)) == V.K_TUPLE,
                V.kind_of(V.get_rid(c)) == V.kind_id("CommentedSet"))))
            for (s2, x) in self.need(s, ok, "TypeError", node, "right operand of `in` is a container (not None / number)"):
                if x is not None:
                    out.append((s2, x))
                    continue
                for (s3, y) in self.need(s2, z3.Implies(V.is_Str(c), V.is_Str(i)), "TypeError", node, "left operand of `in <str>` is a str"):
                    if y is not None:
                        out.append((s3, y))
                        continue
                    r = z3.If(V.is_Str(c), z3.Contains(V.get_s(c), V.get_s(i)),
                              z3.If(V.kind_of(V.get_rid(c)) == V.K_DICT, V.map_has(s3.sid(V.get_rid(c)), i),
                                    V.coll_has(s3.sid(V.get_rid(c)), i)))      # deterministic: two tests of one value agree
                    out.append((s3, r))
            return out
        raise Unsupported("`in` with %s" % type(container).__name__, node)

    # -- attribute access -----------------------------------------------------
    def ev_Attribute(self, e, st, for_call=False):
        out = []
        for (s, base) in self.ev(e.value, st):
            if is_exc(base):
                out.append((s, base))
            else:
                out.extend(self.getattr(base, e.attr, s, e, for_call=for_call))
        return out

    def classes_with_attr(self, attr):
        """Repo classes whose instances have attribute `attr` (method, property, or assigned as self.attr)."""
        if attr in self._cwa:
            return self._cwa[attr]
        found = []
        for mod in self.P.modules.values():
            for ci in mod.classes.values():
                has = attr in ci.methods or attr in ci.class_attrs
                if not has:
                    for fi in ci.methods.values():
                        for n in ast.walk(fi.node):
                            if isinstance(n, ast.Attribute) and n.attr == attr and isinstance(n.ctx, ast.Store) \
                                    and isinstance(n.value, ast.Name) and n.value.id == "self":
                                has = True
                                break
                        if has:
                            break
                if has:
                    found.append(ci.name)
        self._cwa[attr] = found
        return found

    def field_hint(self, clsname, attr):
        """Annotation of `self.<attr>` found in the class's __init__ (a hint, see assume_fields)."""
        ci = self.P.find_class(clsname)
        if ci is None or "__init__" not in ci.methods:
            return None
        for n in ast.walk(ci.methods["__init__"].node):
            if isinstance(n, ast.AnnAssign) and isinstance(n.target, ast.Attribute) and n.target.attr == attr:
                return n.annotation
        return None

    def getattr(self, base, attr, s, node, for_call=False):
        if isinstance(base, ModuleV):
            if base.name == "spec":
                if "spec." + attr in self.SP.modules:
                    return [(s, ModuleV("spec." + attr))]
                raise Unsupported("spec module %s" % attr, node)
            if base.name.startswith("spec"):
                sm = self.SP.modules[base.name]
                if attr in sm.functions:
                    return [(s, SpecFuncV(sm.functions[attr]))]
                raise Unsupported("spec attribute %s" % attr, node)
            if base.name in self.P.modules:
                m = self.P.modules[base.name]
                if attr in m.functions:
                    return [(s, FuncV(m.functions[attr]))]
                if attr in m.classes:
                    return [(s, ClassV(attr, m.classes[attr]))]
            if base.name == "os" and attr == "path":
                return [(s, ModuleV("os.path"))]
            if base.name == "re" and attr == "error":
                return [(s, ClassV("re.error"))]
            return [(s, BuiltinV(base.name + "." + attr))]
        if isinstance(base, ClassV):
            ci = base.ci
            if ci is not None:
                if ci.is_enum and attr in ci.enum_members:
                    return [(s, self.enum_member(ci, attr))]
                if attr in ci.methods:
                    return [(s, FuncV(ci.methods[attr]))]
                if attr in ci.class_attrs:
                    return self.ev(ci.class_attrs[attr], s)
            return [(s, BuiltinV(base.name + "." + attr))]
        if isinstance(base, RefV):
            box = s.store[base.ref]
            if isinstance(box, ObjBox):
                if attr in box.fields:
                    fact = box.facts.get(attr)
                    if fact is not None and not any(f.get_id() == fact.get_id() for f in s.pc[-40:]):
                        s.assume(fact)       # the assumed field type holds in every state that reads the field
                    return [(s, box.fields[attr])]
                ci = self.P.find_class(box.cls)
                if ci is not None and attr in ci.methods:
                    fi = ci.methods[attr]
                    if fi.kind == "property":
                        return self.call_function(fi, [base], {}, s, node)
                    if fi.kind == "staticmethod":
                        return [(s, FuncV(fi))]
                    return [(s, FuncV(fi, bound=base))]
                if for_call and ci is None:
                    return [(s, BuiltinV("method." + attr, bound=base))]
                if box.symbolic:
                    ann = None
                    key = "%s.%s" % (box.name, attr)
                    if key in self.contract.assume_fields:
                        ann = ast.parse(self.contract.assume_fields[key], mode="eval").body
                    v = self.fresh_of_annotation(ann, "fld_%s_%s" % (box.cls, attr), s, node)
                    if isinstance(v, Z) and ann is not None:
                        cst, _h = self.constraint_of_annotation(ann, v.t)
                        if cst is not None:
                            box.facts[attr] = cst
                    einv = self.contract.opts.get("elem_inv", {}).get(key)
                    if isinstance(v, RefV) and isinstance(s.store[v.ref], AbsBox):
                        s.store[v.ref].seq_id = "%s.%s" % (box.name, attr)
                    if einv and isinstance(v, RefV) and isinstance(s.store[v.ref], AbsBox):
                        s.store[v.ref].elem_inv = einv
                        s.store[v.ref].owner = base.ref
                    box.fields[attr] = v
                    return [(s, v)]
                return [(s, Exc("AttributeError", self.origin(node), "no attribute %s on %s" % (attr, box.cls)))]
            return [(s, BuiltinV("method." + attr, bound=base))]
        if isinstance(base, Z):
            # enum instances: .name / .value ; str methods etc. are resolved at the call
            if attr in ("name", "value") and isinstance(base.hint, tuple) and base.hint[0] == "enum":
                raise Unsupported("enum .%s" % attr, node)
            if for_call:
                return [(s, BuiltinV("method." + attr, bound=base))]
            # field read of a heap object: safe iff the object is an instance of a class that has the attribute
            owners = self.classes_with_attr(attr)
            t = base.t
            if base.hint == ("lib", "Anchor") and attr == "value":
                self.assumptions.add("ruamel.yaml: an object's .anchor is an Anchor whose .value is a str or None")
                r = V.lib_attr(t, z3.StringVal(attr))
                s.assume(z3.Or(V.is_None(r), V.is_Str(r)))
                return [(s, Z(r))]
            libowners = [c for c, attrs in LIB_CLASS_ATTRS.items() if attr in attrs and c == "TaggedScalar"]
            ok = z3.Or(z3.And(V.is_Ref(t), z3.Or([V.kind_of(V.get_rid(t)) == V.kind_id(LIB_KIND.get(c, c)) for c in owners + libowners] or [T(False)])),
                       V.has_attr(t, z3.StringVal(attr)))
            out = []
            for (s2, x) in self.need(s, ok, "AttributeError", node, "object has attribute .%s" % attr):
                if x is not None:
                    out.append((s2, x))
                    continue
                is_owner = z3.And(V.is_Ref(t), z3.Or([V.kind_of(V.get_rid(t)) == V.kind_id(LIB_KIND.get(c, c)) for c in owners + libowners] or [T(False)]))
                val = z3.If(is_owner, V.field_fn(attr)(V.get_rid(t)), V.lib_attr(t, z3.StringVal(attr)))
                hint = None
                # class invariant of heap objects: a field holds a value of the type its class annotates for it
                for cname in owners:
                    ann = self.field_hint(cname, attr)
                    over = self.contract.opts.get("heap_fields", {}).get("%s.%s" % (cname, attr))
                    if over:
                        ann = ast.parse(over, mode="eval").body
                    if ann is not None:
                        cst, _h = self.constraint_of_annotation(ann, V.field_fn(attr)(V.get_rid(t)))
                        if cst is not None:
                            s2.assume(z3.Implies(V.kind_of(V.get_rid(t)) == V.kind_id(cname), cst))
                            self.assumptions.add("class invariant: %s.%s holds a value of its annotated type %s" % (cname, attr, ast.unparse(ann)))
                if attr == "anchor":
                    hint = ("lib", "Anchor")
                elif attr == "merge":
                    self.assumptions.add("ruamel.yaml: CommentedMap.merge is a list of (position, mapping) 2-tuples")
                    s2.assume(z3.And(V.is_Ref(val), V.kind_of(V.get_rid(val)) == V.K_LIST))
                    hint = ("lib", "mergelist")
                out.append((s2, Z(val, hint)))
            return out
        if isinstance(base, PyTuple):
            return [(s, BuiltinV("method." + attr, bound=base))]
        if isinstance(base, tuple) and base and base[0] == "kwargs":
            return [(s, BuiltinV("method." + attr, bound=base))]
        if isinstance(base, BuiltinV) and not base.name.startswith("method.") and getattr(base, "bound", None) is None \
                and any(k_ == "ext:%s.%s" % (base.name, attr) or k_.startswith("ext:%s.%s." % (base.name, attr)) for k_ in self.registry):
            # a member of a library object that has an assumed external contract (sys.stdin.isatty)
            return [(s, BuiltinV("%s.%s" % (base.name, attr)))]
        raise Unsupported("attribute %s of %s" % (attr, type(base).__name__), node)

    # -- annotations -> values / constraints ------------------------------------
    def constraint_of_annotation(self, ann, t):
        """z3 Bool stating that Val term t has the annotated type (None if unconstrained), plus hint."""
        if ann is None:
            return None, None
        if isinstance(ann, ast.Constant) and isinstance(ann.value, str):
            ann = ast.parse(ann.value, mode="eval").body
        if isinstance(ann, ast.Constant) and ann.value is None:
            return V.is_None(t), None
        if isinstance(ann, ast.Name):
            n = ann.id
            if n == "str":
                return V.is_Str(t), "str"
            if n == "int":
                return V.is_Int(t), "int"
            if n == "bool":
                return V.is_Bool(t), "bool"
            if n == "float":
                return V.is_Float(t), "float"
            if n == "Any" or n == "object":
                return None, None
            if n == "scalar":
                return z3.Or(V.is_None(t), V.is_Bool(t), V.is_Int(t), V.is_Float(t), V.is_Str(t), V.is_Other(t)), None
            ci = self.P.find_class(n)
            if ci is not None and ci.is_enum:
                cid = self.enum_cls_id(ci.name)
                return z3.And(V.is_Enum(t), V.get_ecls(t) == cid, V.get_eord(t) >= 0,
                              V.get_eord(t) < len(ci.enum_members)), ("enum", ci.name)
            if ci is not None or n[:1].isupper():
                return V.isinstance_of(t, LIB_KIND.get(n, n)), ("obj", n)
            if n in ("list", "dict", "set", "tuple"):
                return V.isinstance_of(t, n), None
            return None, None
        if isinstance(ann, ast.Subscript):
            head = ast.unparse(ann.value).split(".")[-1]
            if head == "Optional":
                c, h = self.constraint_of_annotation(ann.slice, t)
                return (z3.Or(V.is_None(t), c) if c is not None else None), h
            if head == "Union":
                elts = ann.slice.elts if isinstance(ann.slice, ast.Tuple) else [ann.slice]
                cs = [self.constraint_of_annotation(x, t)[0] for x in elts]
                if any(c is None for c in cs):
                    return None, None
                return z3.Or(cs), None
            if head in ("List", "Deque", "list"):
                return V.isinstance_of(t, "list"), None
            if head in ("Dict", "dict"):
                if isinstance(ann.slice, ast.Tuple) and len(ann.slice.elts) == 2:
                    # the key / value types ride along as a hint: assumed for the entries an iteration reads
                    return V.isinstance_of(t, "dict"), ("dict", ast.unparse(ann.slice.elts[0]), ast.unparse(ann.slice.elts[1]))
                return V.isinstance_of(t, "dict"), None
            return None, None
        return None, None

    def fresh_of_annotation(self, ann, name, s, node=None):
        """A fresh symbolic value of the annotated type (the type is ASSUMED; used for parameters and fields)."""
        if isinstance(ann, str):
            ann = ast.parse(ann, mode="eval").body
        if ann is not None:
            src = ast.unparse(ann)
            head = src.split("[")[0].split(".")[-1]
            if head in ("List", "Deque") and src.endswith("[str]"):
                return s.alloc(SeqBox(z3.Const(name, V.SeqStr), "str", "deque" if head == "Deque" else "list"))
            if head == "List" and isinstance(ann, ast.Subscript) and isinstance(ann.slice, ast.Name) \
                    and self.P.find_class(ann.slice.id) is not None and not self.P.find_class(ann.slice.id).is_enum:
                return s.alloc(SeqBox(z3.Const(name, V.SeqVal), "val", "list", ann.slice))
            if head in ("List", "Deque", "Tuple", "deque", "list") and not (head == "Tuple" and not src.endswith(", ...]")):
                n = z3.Int(name + "_len")
                s.assume(n >= 0)
                elem = None
                if isinstance(ann, ast.Subscript):
                    elem = ann.slice.elts[0] if (head == "Tuple" and isinstance(ann.slice, ast.Tuple)) else ann.slice
                return s.alloc(AbsBox({"Deque": "deque", "deque": "deque", "Tuple": "tuple"}.get(head, "list"), n, elem))
            if head == "Tuple" and isinstance(ann, ast.Subscript):
                elts = ann.slice.elts if isinstance(ann.slice, ast.Tuple) else [ann.slice]
                return PyTuple([self.fresh_of_annotation(x, "%s_%d" % (name, i), s, node) for i, x in enumerate(elts)])
            if isinstance(ann, ast.Name):
                ci = self.P.find_class(ann.id)
                if ci is not None and not ci.is_enum:
                    pname = name[3:] if name.startswith("in_") else name
                    return s.alloc(ObjBox(ci.name, {}, symbolic=True, ident=z3.Int(name + "_id"), name=pname.replace("kw_", "")))
        t = z3.Const(name, Val)
        c, hint = self.constraint_of_annotation(ann, t)
        if c is not None:
            s.assume(c)
        if hint == "str" or hint == "int" or hint == "bool" or hint == "float":
            s.assume(V.exact(t)) if False else None
        return Z(t, hint)

    # -- subscripts -------------------------------------------------------------
    def ev_Subscript(self, e, st):
        out = []
        for (s, base) in self.ev(e.value, st):
            if is_exc(base):
                out.append((s, base))
                continue
            if isinstance(e.slice, ast.Slice):
                parts = [p for p in (e.slice.lower, e.slice.upper, e.slice.step)]
                if e.slice.step is not None:
                    raise Unsupported("slice step", e)
                exprs = [p for p in parts[:2] if p is not None]
                for (s2, vals) in self.ev_list(exprs, s):
                    if is_exc(vals):
                        out.append((s2, vals))
                        continue
                    it = iter(vals)
                    lo = next(it) if e.slice.lower is not None else None
                    hi = next(it) if e.slice.upper is not None else None
                    out.extend(self.slice(base, lo, hi, s2, e))
            else:
                for (s2, idx) in self.ev(e.slice, s):
                    if is_exc(idx):
                        out.append((s2, idx))
                    else:
                        out.extend(self.index(base, idx, s2, e))
        return out

    def norm_index(self, i, n):
        return z3.If(i < 0, i + n, i)

    def index(self, base, idx, s, node):
        if isinstance(base, ClassV) and base.ci is not None and base.ci.is_enum:
            # Enum["NAME"]
            if not isinstance(idx, Z):
                raise Unsupported("enum lookup by non-scalar", node)
            names = base.ci.enum_members
            ok = z3.And(V.is_Str(idx.t), z3.Or([V.get_s(idx.t) == z3.StringVal(n) for n in names]))
            out = []
            for (s2, x) in self.need(s, ok, "KeyError", node, "%s[name]: name is a member name" % base.name):
                if x is not None:
                    out.append((s2, x))
                    continue
                val = None
                for k, n in reversed(list(enumerate(names))):
                    m = self.enum_member(base.ci, n).t
                    val = m if val is None else z3.If(V.get_s(idx.t) == z3.StringVal(n), m, val)
                out.append((s2, Z(val, ("enum", base.ci.name))))
            return out
        if isinstance(base, PyTuple) or (isinstance(base, RefV) and isinstance(s.store[base.ref], ListBox)):
            items = base.items if isinstance(base, PyTuple) else s.store[base.ref].items
            ci = self.concrete_int(idx)
            if ci is None:
                if isinstance(idx, Z) and len(items) <= 8:
                    # symbolic index into a short concrete sequence: case split
                    out = []
                    n = len(items)
                    ok = z3.And(V.is_intlike(idx.t), V.to_int(idx.t) >= -n, V.to_int(idx.t) < n)
                    for (s2, x) in self.need(s, ok, "IndexError", node, "index within the sequence"):
                        if x is not None:
                            out.append((s2, x))
                            continue
                        for k in range(n):
                            sk = s2.fork()
                            cond = z3.Or(V.to_int(idx.t) == k, V.to_int(idx.t) == k - n)
                            if self.solver.feasible(sk.pc + [cond]):
                                sk.assume(cond)
                                out.append((sk, items[k]))
                    return out
                raise Unsupported("symbolic index into a local sequence", node)
            if -len(items) <= ci < len(items):
                ob = self.add_obl("K1", node, "index within the sequence", [T(False)])
                ob.status, ob.solver = "unsat", "concrete"
                return [(s, items[ci])]
            if self.pure:
                return [(s, Z(V.fresh("oob")))]      # inside a contract clause: guarded by the clause itself
            ob = self.add_obl("K1", node, "index within the sequence", list(s.pc), clause="IndexError")
            exc = Exc("IndexError", self.origin(node), "index %d out of range for length %d" % (ci, len(items)))
            ob.status = "pending"
            self.pending.append((ob, exc, s))
            return [(s, exc)]
        if isinstance(base, RefV) and isinstance(s.store[base.ref], AbsBox) and s.store[base.ref].kind == "dict" and isinstance(idx, Z):
            box = s.store[base.ref]
            did = z3.IntVal(base.ref * 1000 + getattr(box, "version", 0))
            out = []
            for (s2, x) in self.need(s, V.dict_has(did, idx.t), "KeyError", node, "key present in the dict"):
                out.append((s2, x if x is not None else Z(V.dict_get(did, idx.t))))
            return out
        if isinstance(base, RefV) and isinstance(s.store[base.ref], AbsBox):
            box = s.store[base.ref]
            if not isinstance(idx, Z) or box.length is None:
                raise Unsupported("index into an opaque collection", node)
            n = box.length
            i = V.to_int(idx.t)
            ok = z3.And(self.isk(idx, "intlike"), i >= -n, i < n)
            out = []
            for (s2, x) in self.need(s, ok, "IndexError", node, "index within the sequence"):
                if x is not None:
                    out.append((s2, x))
                    continue
                b2 = s2.store[base.ref]
                key = z3.simplify(self.norm_index(i, n)).sexpr()
                if key not in b2.reads:
                    # element constants are named by (logical sequence, index term): a copy of the sequence, or the
                    # same sequence read on another path, denotes the same elements
                    import hashlib
                    sid = getattr(b2, "seq_id", None) or ("box%d" % base.ref)
                    nm = "item_%s_%s" % (sid, hashlib.sha1(key.encode()).hexdigest()[:8])
                    b2.reads[key] = self.fresh_of_annotation(b2.elem_ann, nm, s2, node)
                    self.assume_elem_inv(b2, b2.reads[key], s2, node, self.norm_index(i, n))
                out.append((s2, b2.reads[key]))
            return out
        if isinstance(base, RefV) and isinstance(s.store[base.ref], SeqBox):
            box = s.store[base.ref]
            if not isinstance(idx, Z):
                raise Unsupported("non-scalar index", node)
            n = z3.Length(box.term)
            i = V.to_int(idx.t)
            ok = z3.And(self.isk(idx, "intlike"), i >= -n, i < n)
            out = []
            for (s2, x) in self.need(s, ok, "IndexError", node, "index within the list"):
                if x is not None:
                    out.append((s2, x))
                    continue
                el = box.term[self.norm_index(i, n)]
                if box.elem == "str":
                    out.append((s2, Z(V.VStr(el), "str")))
                else:
                    z = Z(el)
                    if box.elem_ann is not None:
                        c, h = self.constraint_of_annotation(box.elem_ann, el)
                        if c is not None:
                            s2.assume(c)
                        z.hint = h
                    out.append((s2, z))
            return out
        if isinstance(base, Z) and isinstance(idx, Z):
            b = base.t
            if self.def_str(base, s):
                n = z3.Length(V.get_s(b))
                i = V.to_int(idx.t)
                out = []
                for (s2, x) in self.need(s, self.isk(idx, "intlike"), "TypeError", node, "string index is an int"):
                    if x is not None:
                        out.append((s2, x))
                        continue
                    for (s3, y) in self.need(s2, z3.And(i >= -n, i < n), "IndexError", node, "string index within range"):
                        if y is not None:
                            out.append((s3, y))
                        else:
                            out.append((s3, Z(V.VStr(z3.SubString(V.get_s(b), self.norm_index(i, n), 1)), "str")))
                return out
            return self.heap_index(base, idx, s, node)
        raise Unsupported("subscript of %s" % type(base).__name__, node)

    def assume_elem_facts(self, container_t, elem, s, node):
        """Lemmas exported by callee contracts about the elements of a heap sequence (e.g. node_is_aoh):
        instantiated at each element read of that very sequence."""
        for (rid, clause, env) in s.flags.get("elem_facts", ()):
            e2 = dict(env)
            e2["elem"] = elem
            for (s2, b) in self.eval_clause(clause, s, e2, node):
                s2.assume(z3.Implies(V.get_rid(container_t) == rid, b))

    def assume_elem_inv(self, box, elem, s, node, index=None):
        """Class invariants about the elements of an abstract sequence are assumed at every (first) read."""
        invs = getattr(box, "elem_inv", None)
        if not invs:
            return
        env = {}
        env["elem"] = elem
        owner = getattr(box, "owner", None)
        if owner is not None:
            env["path"] = RefV(owner)
        if index is not None:
            env["index"] = Z(V.VInt(index), "int")
        for inv in ([invs] if isinstance(invs, str) else invs):
            for (s2, b) in self.eval_clause(inv, s, env, node):
                s2.assume(b)
            self.assumptions.add("element invariant (established by the parser) assumed on path segments: %s" % inv)

    def heap_index(self, base, idx, s, node):
        """data[idx] on a pre-existing heap value (list / tuple / dict / str); read-only heap functions."""
        t, i = base.t, idx.t
        rid = V.get_rid(t)
        is_seq = z3.And(V.is_Ref(t), z3.Or(V.kind_of(rid) == V.K_LIST, V.kind_of(rid) == V.K_TUPLE))
        is_map = z3.And(V.is_Ref(t), V.kind_of(rid) == V.K_DICT)
        cid = s.sid(rid)
        n = V.seq_len(cid)
        ii = V.to_int(i)
        sn = z3.Length(V.get_s(t))
        val = z3.If(is_map, V.map_get(cid, i),
                    z3.If(V.is_Str(t), V.VStr(z3.SubString(V.get_s(t), self.norm_index(ii, sn), 1)),
                          V.seq_item(cid, self.norm_index(ii, n))))
        if self.pure:
            return [(s, Z(val))]
        s.assume(n >= 0)
        if base.hint == ("lib", "mergetuple"):
            s.assume(z3.And(V.is_Ref(t), V.kind_of(rid) == V.K_TUPLE, n == 2))
        out = []
        for (s2, x) in self.need(s, z3.Or(is_seq, is_map, V.is_Str(t)), "TypeError", node, "subscripted value is a list, tuple, dict or str"):
            if x is not None:
                out.append((s2, x))
                continue
            for (s3, y) in self.need(s2, z3.Implies(z3.Not(is_map), V.is_intlike(i)), "TypeError", node, "sequence index is an int"):
                if y is not None:
                    out.append((s3, y))
                    continue
                for (s4, z) in self.need(s3, z3.Implies(is_map, V.map_has(cid, i)), "KeyError", node, "key present in the dict"):
                    if z is not None:
                        out.append((s4, z))
                        continue
                    rng = z3.If(V.is_Str(t), z3.And(ii >= -sn, ii < sn), z3.And(ii >= -n, ii < n))
                    for (s5, w) in self.need(s4, z3.Implies(z3.Not(is_map), rng), "IndexError", node, "index within the sequence"):
                        if w is None:
                            zv = Z(val)
                            if isinstance(base.hint, tuple) and base.hint and base.hint[0] == "dict":
                                # value type of an annotated Dict[K, V] (assumed with the annotation)
                                cst, h = self.constraint_of_annotation(ast.parse(base.hint[2], mode="eval").body, zv.t)
                                if cst is not None:
                                    s5.assume(cst)
                                zv.hint = h
                            self.assume_elem_facts(t, zv, s5, node)
                            out.append((s5, zv))
                        else:
                            out.append((s5, w))
        return out

    def slice(self, base, lo, hi, s, node):
        def bound(v, n, default):
            if v is None:
                return default, None
            if not isinstance(v, Z):
                raise Unsupported("slice bound", node)
            i = V.to_int(v.t)
            return z3.If(i < 0, z3.If(i + n < 0, 0, i + n), z3.If(i > n, n, i)), V.is_intlike(v.t)
        if isinstance(base, Z) and self.def_str(base, s):
            sv = V.get_s(base.t)
            n = z3.Length(sv)
            l, lc = bound(lo, n, z3.IntVal(0))
            h, hc = bound(hi, n, n)
            conds = [c for c in (lc, hc) if c is not None]
            out = []
            for (s2, x) in self.need(s, z3.And(conds) if conds else T(True), "TypeError", node, "slice bounds are ints"):
                if x is not None:
                    out.append((s2, x))
                else:
                    ln = z3.If(h - l < 0, 0, h - l)
                    out.append((s2, Z(V.VStr(z3.SubString(sv, l, ln)), "str")))
            return out
        if isinstance(base, RefV) and isinstance(s.store[base.ref], SeqBox):
            box = s.store[base.ref]
            n = z3.Length(box.term)
            l, lc = bound(lo, n, z3.IntVal(0))
            h, hc = bound(hi, n, n)
            conds = [c for c in (lc, hc) if c is not None]
            out = []
            for (s2, x) in self.need(s, z3.And(conds) if conds else T(True), "TypeError", node, "slice bounds are ints"):
                if x is not None:
                    out.append((s2, x))
                else:
                    ln = z3.If(h - l < 0, 0, h - l)
                    out.append((s2, s2.alloc(SeqBox(z3.SubSeq(box.term, l, ln), box.elem, "list", box.elem_ann))))
            return out
        raise Unsupported("slice of %s" % type(base).__name__, node)

    # -- calls --------------------------------------------------------------------
    def ev_Call(self, e, st):
        # dropped: logger calls (A-LOG) -- arguments are still evaluated for safety
        f = e.func
        if isinstance(f, ast.Attribute) and f.attr in LOG_METHODS and self.is_logger(f.value):
            out = []
            for (s, vals) in self.ev_list([a for a in e.args if not isinstance(a, ast.Starred)] + [k.value for k in e.keywords], st):
                out.append((s, vals if is_exc(vals) else Z(V.VNone)))
            self.assumptions.add("A-LOG: logger.debug/verbose/info/warning/error are total and effect-free")
            return out
        if any(isinstance(a, ast.Starred) for a in e.args) or any(k.arg is None for k in e.keywords):
            return self.call_with_star(e, st)
        if self.in_spec and isinstance(f, ast.Name) and f.id == "implies" and len(e.args) == 2 and "implies" not in st.env:
            # contract text: when the consequent cannot be evaluated (it names a local that does not exist on this path),
            # the clause still holds if the antecedent cannot hold here; otherwise the problem is reported as before
            try:
                mark_o, mark_p, mark_u = len(self.obligations), len(self.pending), len(self.unsupported)
                snap = st.fork()
                return self._ev_call_plain(e, st)
            except Unsupported:
                del self.obligations[mark_o:]
                del self.pending[mark_p:]
                del self.unsupported[mark_u:]
                outs = self.ev(e.args[0], snap)
                if len(outs) == 1 and not is_exc(outs[0][1]) and not self.solver.feasible(outs[0][0].pc + [self.truth(outs[0][1], outs[0][0], e)]):
                    return [(outs[0][0], Z(V.mk(True), "bool"))]
                raise
        return self._ev_call_plain(e, st)

    def _ev_call_plain(self, e, st):
        f = e.func
        out = []
        for (s, fv) in (self.ev_Attribute(f, st, for_call=True) if isinstance(f, ast.Attribute) else self.ev(f, st)):
            if is_exc(fv):
                out.append((s, fv))
                continue
            for (s2, vals) in self.ev_list(list(e.args) + [k.value for k in e.keywords], s):
                if is_exc(vals):
                    out.append((s2, vals))
                    continue
                args = vals[:len(e.args)]
                kwargs = {k.arg: v for k, v in zip(e.keywords, vals[len(e.args):])}
                out.extend(self.call(fv, args, kwargs, s2, e))
        return out

    def call_with_star(self, e, st):
        if any(isinstance(a, ast.Starred) for a in e.args):
            raise Unsupported("call with *args", e)
        f = e.func
        out = []
        named = [k for k in e.keywords if k.arg is not None]
        stars = [k for k in e.keywords if k.arg is None]
        for (s, fv) in (self.ev_Attribute(f, st, for_call=True) if isinstance(f, ast.Attribute) else self.ev(f, st)):
            if is_exc(fv):
                out.append((s, fv))
                continue
            for (s2, vals) in self.ev_list(list(e.args) + [k.value for k in named] + [k.value for k in stars], s):
                if is_exc(vals):
                    out.append((s2, vals))
                    continue
                args = vals[:len(e.args)]
                kwargs = {k.arg: v for k, v in zip(named, vals[len(e.args):])}
                for extra in vals[len(e.args) + len(named):]:
                    if not (isinstance(extra, tuple) and extra and extra[0] == "kwargs"):
                        raise Unsupported("** of a value that is not the function's own **kwargs", e)
                    for k_, v_ in extra[1].items():
                        if k_ in kwargs:
                            out.append((s2, Exc("TypeError", self.origin(e), "duplicate keyword argument %s" % k_)))
                            break
                        kwargs[k_] = v_
                out.extend(self.call(fv, args, kwargs, s2, e))
        return out

    def is_logger(self, node):
        src = ast.unparse(node)
        return src in ("self.logger", "logger", "log", "self.log", "self._logger")

    def call(self, fv, args, kwargs, s, node):
        if isinstance(fv, BuiltinV):
            return self.call_builtin(fv, args, kwargs, s, node)
        if isinstance(fv, SpecFuncV):
            return self.inline_call(fv.fi, args, kwargs, s, node, spec=True)
        if isinstance(fv, FuncV):
            a = ([fv.bound] if fv.bound is not None else []) + list(args)
            return self.call_function(fv.fi, a, kwargs, s, node)
        if isinstance(fv, ClassV):
            return self.construct(fv, args, kwargs, s, node)
        raise Unsupported("call of %r" % (fv,), node)

    def call_function(self, fi, args, kwargs, s, node):
        cs = self.registry.get(fi.qualname)
        if cs and fi.qualname not in self.contract.inline:
            pick = [c for c in cs if c.opts.get("callsite")] or cs
            return self.apply_contract(pick[0], fi, args, kwargs, s, node)
        return self.inline_call(fi, args, kwargs, s, node)

    def bind_args(self, fi, args, kwargs, s, node):
        a = fi.node.args
        if a.posonlyargs:
            raise Unsupported("positional-only parameters", node)
        names = [x.arg for x in a.args]
        env = {}
        pos = list(args)
        if len(pos) > len(names):
            if a.vararg is None:
                raise Unsupported("too many positional arguments for %s" % fi.qualname, node)
            env[a.vararg.arg] = PyTuple(pos[len(names):])
            pos = pos[:len(names)]
        elif a.vararg is not None:
            env[a.vararg.arg] = PyTuple([])
        for n, v in zip(names, pos):
            env[n] = v
        kw = dict(kwargs)
        defaults = dict(zip(names[len(names) - len(a.defaults):], a.defaults))
        pending_defaults = []
        for n in names[len(pos):]:
            if n in kw:
                env[n] = kw.pop(n)
            elif n in defaults:
                pending_defaults.append((n, defaults[n]))
            else:
                raise Unsupported("missing argument %s for %s" % (n, fi.qualname), node)
        for ko, kd in zip(a.kwonlyargs, a.kw_defaults):
            if ko.arg in kw:
                env[ko.arg] = kw.pop(ko.arg)
            elif kd is not None:
                pending_defaults.append((ko.arg, kd))
            else:
                raise Unsupported("missing kw-only argument", node)
        if a.kwarg is not None:
            env[a.kwarg.arg] = ("kwargs", kw)
            kw = {}
        if kw:
            raise Unsupported("unexpected keyword arguments %s for %s" % (sorted(kw), fi.qualname), node)
        return env, pending_defaults

    def inline_call(self, fi, args, kwargs, s, node, spec=False):
        if self.depth >= self.max_inline_depth:
            raise Unsupported("inline depth exceeded at %s" % fi.qualname, node)
        if fi.is_generator:
            raise Unsupported("inlining generator %s" % fi.qualname, node)
        env, pend = self.bind_args(fi, args, kwargs, s, node)
        saved_env, saved_fi = s.env, self.cur_fi
        self.depth += 1
        self.cur_fi = fi
        saved_pure = self.pure
        self.pure = 0
        try:
            s.env = env
            states = [s]
            for (n, dexpr) in pend:
                nxt = []
                for st in states:
                    for (s2, v) in self.ev(dexpr, st):
                        if is_exc(v):
                            raise Unsupported("default value raises", node)
                        s2.env[n] = v
                        nxt.append(s2)
                states = nxt
            out = []
            for st in states:
                for (s2, oc) in self.exec_block(fi.node.body, st):
                    s2.env = dict(saved_env)
                    if oc is None:
                        out.append((s2, Z(V.VNone)))
                    elif oc[0] == "return":
                        out.append((s2, oc[1]))
                    elif oc[0] == "raise":
                        out.append((s2, oc[1]))
                    elif oc[0] == "unsupported":
                        raise Unsupported("in %s: %s" % (fi.qualname, oc[1]), node)
                    else:
                        raise Unsupported("loop control escaping a function", node)
            return out
        finally:
            self.depth -= 1
            self.pure = saved_pure
            self.cur_fi = saved_fi
            s.env = saved_env

    def construct(self, cv, args, kwargs, s, node):
        name = cv.name
        if name == "str":
            return self.call_builtin(BuiltinV("str"), args, kwargs, s, node)
        if name in ("int", "bool", "float", "list", "tuple", "set", "dict", "type"):
            return self.call_builtin(BuiltinV(name), args, kwargs, s, node)
        if name == "deque":
            if args:
                raise Unsupported("deque(iterable)", node)
            return [(s, s.alloc(ListBox([], "val", "deque")))]
        if self.exc_isa(name, "BaseException") or name in BUILTIN_EXC_PARENT:
            # exception object; constructor arguments already evaluated (safety), body not executed
            return [(s, s.alloc(ObjBox(name, {"args": PyTuple(args)})))]
        ci = cv.ci or self.P.find_class(name)
        if ci is not None:
            obj = s.alloc(ObjBox(ci.name, {}, ident=V.fresh("newobj", V.I)))
            init = None
            for cname in self.P.class_mro(ci):
                c = self.P.find_class(cname)
                if c is not None and "__init__" in c.methods:
                    init = c.methods["__init__"]
                    break
            if init is None:
                return [(s, obj)]
            cs = self.registry.get(init.qualname)
            if cs and cs[0].assumed and init.qualname not in self.contract.inline:
                # a constructor with an ASSUMED contract: the body is not run; the new object's fields are arbitrary
                # values of their assumed types (created lazily), the contract's exceptions / events apply
                s.store[obj.ref].symbolic = True
                out = []
                for (s2, r) in self.apply_contract(cs[0], init, [obj] + list(args), kwargs, s, node):
                    out.append((s2, r if is_exc(r) else obj))
                return out
            if cs:
                self.check_call_pre(cs[0], init, [obj] + list(args), kwargs, s, node)
            out = []
            for (s2, r) in self.inline_call(init, [obj] + list(args), kwargs, s, node):
                out.append((s2, r if is_exc(r) else obj))
            return out
        raise Unsupported("constructor %s" % name, node)

    def apply_contract(self, c, fi, args, kwargs, s, node):
        raise Unsupported("contract application (engine extension not loaded)", node)

    def check_call_pre(self, c, fi, args, kwargs, s, node):
        raise Unsupported("contract application (engine extension not loaded)", node)

    def call_builtin(self, fv, args, kwargs, s, node):
        raise Unsupported("builtin %s" % fv.name, node)

    # -------------------------------------------------------------- statements
    def exec_block(self, stmts, st):
        """-> list of (state, outcome); outcome None = fell through."""
        results = []
        work = [(st, 0)]
        while work:
            s, i = work.pop()
            if i >= len(stmts):
                results.append((s, None))
                continue
            stmt = stmts[i]
            try:
                outs = self.exec_stmt(stmt, s)
            except Unsupported as u:
                ln = u.lineno or getattr(stmt, "lineno", 0)
                self.unsupported.append((self.cur_fi.qualname, ln, u.reason))
                results.append((s, ("unsupported", "%s (line %s)" % (u.reason, ln))))
                continue
            for (s2, oc) in outs:
                if oc is None:
                    work.append((s2, i + 1))
                else:
                    results.append((s2, oc))
        return results

    def exec_stmt(self, stmt, st):
        m = getattr(self, "st_" + type(stmt).__name__, None)
        if m is None:
            raise Unsupported("statement %s" % type(stmt).__name__, stmt)
        return m(stmt, st)

    def st_Pass(self, stmt, st):
        return [(st, None)]

    def st_Expr(self, stmt, st):
        if isinstance(stmt.value, ast.Constant):
            return [(st, None)]          # docstring
        if isinstance(stmt.value, (ast.Yield, ast.YieldFrom)):
            return self.do_yield(stmt.value, st)
        out = []
        for (s, v) in self.ev(stmt.value, st):
            out.append((s, ("raise", v) if is_exc(v) else None))
        return out

    def do_yield(self, y, st):
        if isinstance(y, ast.YieldFrom):
            raise Unsupported("yield from", y)
        out = []
        for (s, v) in (self.ev(y.value, st) if y.value is not None else [(st, Z(V.VNone))]):
            if is_exc(v):
                out.append((s, ("raise", v)))
            else:
                self.check_yield_type(v, s, y)
                s.out.append((v, getattr(y, "lineno", 0)))
                out.append((s, None))
        return out

    def check_yield_type(self, v, s, node):
        """K2: every value yielded by the function under verification has the type its contract promises callers."""
        ann = self.contract.opts.get("yields") if self.cur_fi is self.fi else None
        if not ann:
            return
        tree = ast.parse(ann, mode="eval").body
        names = [ast.unparse(x) for x in (tree.slice.elts if isinstance(tree, ast.Subscript) and ast.unparse(tree.value) == "Union" else [tree])]
        if isinstance(v, Z):
            c, _h = self.constraint_of_annotation(tree, v.t)
            if c is not None:
                self.prove(s, c, "K2", node, "yielded value is %s" % ann, clause="yields:" + ann)
            return
        ok = False
        if isinstance(v, RefV):
            box = s.store[v.ref]
            kind = box.cls if isinstance(box, ObjBox) else getattr(box, "kind", "list")
            ok = kind in names or "Any" in names
        ob = self.add_obl("K2", node, "yielded value is %s" % ann, [T(not ok)], clause="yields:" + ann)
        ob.status, ob.solver = ("unsat" if ok else "sat"), "syntactic"

    def st_Return(self, stmt, st):
        if stmt.value is None:
            return [(st, ("return", Z(V.VNone)))]
        return [(s, ("raise", v) if is_exc(v) else ("return", v)) for (s, v) in self.ev(stmt.value, st)]

    def st_Continue(self, stmt, st):
        return [(st, ("continue",))]

    def st_Break(self, stmt, st):
        return [(st, ("break",))]

    def st_Assign(self, stmt, st):
        out = []
        for (s, v) in self.ev(stmt.value, st):
            if is_exc(v):
                out.append((s, ("raise", v)))
                continue
            states = [s]
            for tgt in stmt.targets:
                nxt = []
                for s2 in states:
                    nxt.extend(self.assign(tgt, v, s2, stmt))
                states = nxt
            out.extend(states)
        return [(x if isinstance(x, tuple) else (x, None)) for x in out]

    def st_AnnAssign(self, stmt, st):
        if stmt.value is None:
            return [(st, None)]
        out = []
        for (s, v) in self.ev(stmt.value, st):
            if is_exc(v):
                out.append((s, ("raise", v)))
                continue
            # List[str] annotation on a fresh list display: remember the element type (checked at havoc time)
            if isinstance(v, RefV) and isinstance(s.store[v.ref], ListBox):
                src = ast.unparse(stmt.annotation)
                if src.replace("typing.", "") in ("List[str]",):
                    s.store[v.ref].elem = "str"
            if isinstance(stmt.target, ast.Name):
                s.flags[("ann", stmt.target.id)] = stmt.annotation
            out.extend(self.assign(stmt.target, v, s, stmt))
        return [(x if isinstance(x, tuple) else (x, None)) for x in out]

    def assign(self, tgt, v, s, stmt):
        """-> list of states or (state, outcome)."""
        if isinstance(tgt, ast.Name):
            s.env[tgt.id] = v
            return [s]
        if isinstance(tgt, (ast.Tuple, ast.List)):
            items = self.unpack(v, len(tgt.elts), s, stmt)
            if is_exc(items):
                return [(s, ("raise", items))]
            states = [s]
            for t, item in zip(tgt.elts, items):
                nxt = []
                for s2 in states:
                    nxt.extend(self.assign(t, item, s2, stmt))
                states = nxt
            return states
        if isinstance(tgt, ast.Attribute):
            out = []
            for (s2, base) in self.ev(tgt.value, s):
                if is_exc(base):
                    out.append((s2, ("raise", base)))
                    continue
                out.extend(self.setattr(base, tgt.attr, v, s2, stmt))
            return out
        if isinstance(tgt, ast.Subscript):
            return self.store_subscript(tgt, v, s, stmt)
        raise Unsupported("assignment target %s" % type(tgt).__name__, stmt)

    def store_subscript(self, tgt, v, s, stmt):
        raise Unsupported("subscript store", stmt)

    def setattr(self, base, attr, v, s, stmt):
        if isinstance(base, RefV) and isinstance(s.store[base.ref], ObjBox):
            box = s.store[base.ref]
            ci = self.P.find_class(box.cls)
            if ci is not None and attr in ci.setters:
                out = []
                call = self.call_function if box.symbolic else self.inline_call
                for (s2, r) in call(ci.setters[attr], [base, v], {}, s, stmt):
                    out.append((s2, ("raise", r)) if is_exc(r) else s2)
                return out
            # data-structure invariant: a store into an annotated field keeps the annotated type
            key = "%s.%s" % (box.name, attr)
            if box.symbolic and key in self.contract.assume_fields and isinstance(v, Z):
                ann = ast.parse(self.contract.assume_fields[key], mode="eval").body
                c, _h = self.constraint_of_annotation(ann, v.t)
                if c is not None:
                    self.prove(s, c, "K4", stmt, "store keeps the assumed type of %s" % key, clause=key)
            box.fields[attr] = v
            return [s]
        if isinstance(base, Z) and not self.classes_with_attr(attr):
            # an attribute of a library object (e.g. ruamel's YAML().explicit_end): the store is total and invisible to
            # the verified code, which never reads such attributes back except through assumed contracts
            self.assumptions.add("attribute store on a library object (.%s) has no effect visible to the verified code" % attr)
            return [s]
        raise Unsupported("attribute store on %s" % type(base).__name__, stmt)

    def unpack(self, v, n, s, node):
        if isinstance(v, PyTuple):
            if len(v.items) != n:
                return Exc("ValueError", self.origin(node), "unpack arity")
            return v.items
        if isinstance(v, RefV) and isinstance(s.store[v.ref], ListBox):
            items = s.store[v.ref].items
            if len(items) != n:
                return Exc("ValueError", self.origin(node), "unpack arity")
            return items
        if isinstance(v, Z):
            key = ("boxed", str(v.t))
            if key in s.flags:
                return self.unpack(s.flags[key], n, s, node)
            if v.hint == ("lib", "mergetuple") and n == 2:
                # an entry of ruamel's CommentedMap.merge: an (index, mapping) pair (assumed library shape)
                cid = s.sid(V.get_rid(v.t))
                s.assume(z3.And(V.is_Ref(v.t), V.kind_of(V.get_rid(v.t)) == V.K_TUPLE, V.seq_len(cid) == 2))
                return [Z(V.seq_item(cid, z3.IntVal(0))), Z(V.seq_item(cid, z3.IntVal(1)))]
        raise Unsupported("unpacking a symbolic value", node)

    def st_AugAssign(self, stmt, st):
        load = copy_ctx(stmt.target)
        out = []
        for (s, vals) in self.ev_list([load, stmt.value], st):
            if is_exc(vals):
                out.append((s, ("raise", vals)))
                continue
            for (s2, r) in self.binop(stmt.op, vals[0], vals[1], s, stmt):
                if is_exc(r):
                    out.append((s2, ("raise", r)))
                else:
                    for x in self.assign(stmt.target, r, s2, stmt):
                        out.append(x if isinstance(x, tuple) else (x, None))
        return out

    def st_If(self, stmt, st):
        out = []
        for (s, c) in self.ev(stmt.test, st):
            if is_exc(c):
                out.append((s, ("raise", c)))
                continue
            base_len = len(s.pc)
            base_known, base_subst = dict(s.known), list(s.subst)
            t, f = self.branch(s, self.truth(c, s, stmt), stmt)
            mine = []
            if t is not None:
                mine.extend(self.exec_block(stmt.body, t))
            if f is not None:
                mine.extend(self.exec_block(stmt.orelse, f))
            out.extend(self.merge_normal(mine, base_len, base_known, base_subst))
        return out

    def merge_normal(self, outcomes, base_len, base_known, base_subst):
        """Join the fall-through states of an if-statement into one (values become ite terms) when they
        differ only in scalar variables / scalar object fields.  Purely an optimisation: sound because the
        joined path condition is the disjunction of the branch conditions."""
        normal = [(s, oc) for (s, oc) in outcomes if oc is None]
        if len(normal) < 2 or len(normal) > 6 or not self.opts.get("merge", True):
            return outcomes
        states = [s for (s, _oc) in normal]
        first = states[0]
        for s in states[1:]:
            if s.nref != first.nref or len(s.out) != len(first.out) or set(s.env) != set(first.env) or set(s.store) != set(first.store):
                return outcomes
            if any(x is not y for x, y in zip(s.out, first.out)) or s.flags.get("looped") != first.flags.get("looped"):
                return outcomes           # the branches yielded different values: their outputs stay apart
            if not s.same_heap(first):
                return outcomes
            ev_a, ev_b = s.ghost.get("events", []), first.ghost.get("events", [])
            if len(ev_a) != len(ev_b) or any(x is not y for x, y in zip(ev_a, ev_b)):
                return outcomes           # the branches made different contracted calls: their histories stay apart
            if s.pc[:base_len] is None:
                return outcomes
        sels = []
        for s in states:
            extra = s.pc[base_len:]
            sels.append(z3.And(extra) if len(extra) != 1 else extra[0]) if extra else sels.append(T(True))

        def join(vals):
            v0 = vals[0]
            if all(v is v0 for v in vals):
                return v0
            if all(isinstance(v, Z) for v in vals):
                if all(v.t.get_id() == v0.t.get_id() for v in vals):
                    return v0
                t = vals[-1].t
                for sel, v in zip(reversed(sels[:-1]), reversed(vals[:-1])):
                    t = z3.If(sel, v.t, t)
                hint = v0.hint if all(v.hint == v0.hint for v in vals) else None
                return Z(t, hint)
            if all(isinstance(v, RefV) for v in vals) and all(v.ref == v0.ref for v in vals):
                return v0
            return None
        merged = first.fork()
        for name in first.env:
            j = join([s.env[name] for s in states])
            if j is None:
                return outcomes
            merged.env[name] = j
        for ref in first.store:
            boxes = [s.store[ref] for s in states]
            b0 = boxes[0]
            if isinstance(b0, ObjBox):
                if not all(isinstance(b, ObjBox) and set(b.fields) == set(b0.fields) for b in boxes):
                    return outcomes
                for fname in b0.fields:
                    j = join([b.fields[fname] for b in boxes])
                    if j is None:
                        return outcomes
                    merged.store[ref].fields[fname] = j
            elif isinstance(b0, ListBox):
                if not all(isinstance(b, ListBox) and len(b.items) == len(b0.items) and
                           all((x is y) or (isinstance(x, Z) and isinstance(y, Z) and x.t.get_id() == y.t.get_id())
                               for x, y in zip(b.items, b0.items)) for b in boxes):
                    return outcomes
            elif isinstance(b0, SeqBox):
                if not all(isinstance(b, SeqBox) and b.term.get_id() == b0.term.get_id() for b in boxes):
                    return outcomes
            elif isinstance(b0, AbsBox):
                if not all(isinstance(b, AbsBox) and b.kind == b0.kind and (b.length is None) == (b0.length is None) for b in boxes):
                    return outcomes
                if b0.length is not None and not all(b.length.get_id() == b0.length.get_id() for b in boxes):
                    t = boxes[-1].length
                    for sel, b in zip(reversed(sels[:-1]), reversed(boxes[:-1])):
                        t = z3.If(sel, b.length, t)
                    merged.store[ref].length = t
            else:
                if not all(b is b0 for b in boxes):
                    return outcomes
        del merged.pc[base_len:]
        merged.known, merged.subst = dict(base_known), list(base_subst)
        merged.assume(z3.Or(sels))
        rest = [(s, oc) for (s, oc) in outcomes if oc is not None]
        return [(merged, None)] + rest

    def st_Raise(self, stmt, st):
        if stmt.exc is None:
            exc = st.flags.get("handling")
            if exc is None:
                raise Unsupported("bare raise outside handler", stmt)
            return [(st, ("raise", exc))]
        out = []
        for (s, v) in self.ev(stmt.exc, st):
            if is_exc(v):
                out.append((s, ("raise", v)))
                continue
            if isinstance(v, ClassV):
                cls = v.name
            elif isinstance(v, RefV) and isinstance(s.store[v.ref], ObjBox):
                cls = s.store[v.ref].cls
            else:
                raise Unsupported("raise of %r" % (v,), stmt)
            causes = [s]
            if stmt.cause is not None:
                causes = []
                for (s2, cv) in self.ev(stmt.cause, s):
                    if is_exc(cv):
                        out.append((s2, ("raise", cv)))
                    else:
                        causes.append(s2)
            for s2 in causes:
                out.append((s2, ("raise", Exc(cls, self.origin(stmt), "explicit raise", obj=v))))
        return out

    def st_Try(self, stmt, st):
        if stmt.finalbody:
            raise Unsupported("try/finally", stmt)
        out = []
        for (s, oc) in self.exec_block(stmt.body, st):
            if oc is not None and oc[0] == "raise":
                exc = oc[1]
                handled = False
                for h in stmt.handlers:
                    names = self.handler_classes(h, s)
                    if any(self.exc_isa(exc.cls, n) for n in names):
                        handled = True
                        self.settle(exc, "caught")
                        if h.name:
                            s.env[h.name] = exc.obj if exc.obj is not None else s.alloc(ObjBox(exc.cls, {}))
                        prev = s.flags.get("handling")
                        s.flags["handling"] = exc
                        for (s2, oc2) in self.exec_block(h.body, s):
                            s2.flags["handling"] = prev
                            out.append((s2, oc2))
                        break
                if not handled:
                    out.append((s, oc))
            elif oc is None and stmt.orelse:
                out.extend(self.exec_block(stmt.orelse, s))
            else:
                out.append((s, oc))
        return out

    def handler_classes(self, h, s):
        if h.type is None:
            return ["BaseException"]
        elts = h.type.elts if isinstance(h.type, ast.Tuple) else [h.type]
        names = []
        for el in elts:
            names.append(ast.unparse(el).split(".")[-1] if not ast.unparse(el) == "re.error" else "re.error")
        return names

    def st_Assert(self, stmt, st):
        raise Unsupported("assert", stmt)

    def st_Delete(self, stmt, st):
        if len(stmt.targets) != 1 or not isinstance(stmt.targets[0], ast.Subscript) or isinstance(stmt.targets[0].slice, ast.Slice):
            raise Unsupported("del of other than x[i]", stmt)
        tgt = stmt.targets[0]
        out = []
        for (s, vals) in self.ev_list([tgt.value, tgt.slice], st):
            if is_exc(vals):
                out.append((s, ("raise", vals)))
                continue
            base, idx = vals
            if isinstance(base, RefV) and isinstance(s.store[base.ref], SeqBox) and isinstance(idx, Z):
                box = s.store[base.ref]
                n = z3.Length(box.term)
                i = V.to_int(idx.t)
                ok = z3.And(self.isk(idx, "intlike"), i >= -n, i < n)
                for (s2, x) in self.need(s, ok, "IndexError", stmt, "del x[i]: index within the list"):
                    if x is not None:
                        out.append((s2, ("raise", x)))
                        continue
                    b2 = s2.store[base.ref]
                    j = self.norm_index(i, n)
                    b2.term = z3.Concat(z3.SubSeq(b2.term, 0, j), z3.SubSeq(b2.term, j + 1, n - j - 1))
                    out.append((s2, None))
                continue
            out.extend(self.heap_delete(base, idx, s, stmt))
        return out

    def heap_delete(self, base, idx, s, stmt):
        raise Unsupported("del on %s" % type(base).__name__, stmt)

    def st_For(self, stmt, st):
        raise Unsupported("for loop (engine extension not loaded)", stmt)

    def st_While(self, stmt, st):
        raise Unsupported("while loop (engine extension not loaded)", stmt)

    def st_With(self, stmt, st):
        """`with <expr> [as name]: body` -- the context expression is evaluated (a library call with an external
        contract, typically open()), the name bound, the body executed.  __enter__ returning the object and __exit__
        not suppressing exceptions is ASSUMED (true of file objects and tempfile handles, the managers used here);
        what __exit__ does to the resource (flush, close) is not modelled."""
        states = [st]
        for item in stmt.items:
            nxt = []
            for s in states:
                for (s2, v) in self.ev(item.context_expr, s):
                    if is_exc(v):
                        nxt.append((s2, ("raise", v)))
                        continue
                    if item.optional_vars is not None:
                        for x in self.assign(item.optional_vars, v, s2, stmt):
                            nxt.append(x if isinstance(x, tuple) else (x, None))
                    else:
                        nxt.append((s2, None))
            done = [x for x in nxt if x[1] is not None]
            states = [x[0] for x in nxt if x[1] is None]
            if done:
                self._with_early = getattr(self, "_with_early", []) + done
        self.assumptions.add("with-statement: the context managers used (file objects) return themselves and do not suppress exceptions")
        out = list(getattr(self, "_with_early", []))
        self._with_early = []
        for s in states:
            out.extend(self.exec_block(stmt.body, s))
        return out

    def st_FunctionDef(self, stmt, st):
        q = self.cur_fi.qualname + "." + stmt.name
        fi = self.P.funcs.get(q)
        if fi is None:
            raise Unsupported("nested def", stmt)
        st.env[stmt.name] = FuncV(fi)
        return [(st, None)]

    def st_Import(self, stmt, st):
        return [(st, None)]

    st_ImportFrom = st_Import

    def st_Global(self, stmt, st):
        raise Unsupported("global", stmt)


def copy_ctx(target):
    t = copy.deepcopy(target) if False else ast.parse(ast.unparse(target), mode="eval").body
    ast.copy_location(t, target)
    for n in ast.walk(t):
        if hasattr(target, "lineno"):
            n.lineno = target.lineno
            n.col_offset = getattr(target, "col_offset", 0)
    return t


import copy  # noqa: E402  (used by copy_ctx fallback)
