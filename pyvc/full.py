"""Engine = Executor + builtins table + contract application + loops + the per-function verifier."""
import ast
import time
import z3

from . import vals as V
from .vals import Val
from .engine import (Z, PyTuple, RefV, ListBox, SeqBox, AbsBox, ObjBox, LambdaV, GenV, FuncV, ClassV, BuiltinV,
                     ModuleV, SpecFuncV, Exc, Unsupported, State, Obligation, is_exc, assigned_names)
from .exec import Executor, T, LIB_KIND, BUILTIN_TYPES

LIT_EXC = {1: "ValueError", 2: "SyntaxError", 3: "TypeError", 4: "MemoryError", 5: "RecursionError"}


class Engine(Executor):

    # ================================================================ builtins
    def call_builtin(self, fv, args, kwargs, s, node):
        name = fv.name
        if name.startswith("method."):
            return self.call_method(fv.bound, name[7:], args, kwargs, s, node)
        ext = self.registry.get("ext:" + name)
        if ext:
            return self.apply_ext(ext[0], name, args, kwargs, s, node)
        h = getattr(self, "bi_" + name.replace(".", "_"), None)
        if h is None:
            raise Unsupported("builtin %s" % name, node)
        return h(args, kwargs, s, node)

    def apply_ext(self, c, name, args, kwargs, s, node, recv=None):
        """A call of a library function (or a method of a library object) that has an ASSUMED external contract:
        positional arguments are a0, a1, ... (keywords kw_<name>, the receiver `recv`); the contract may declare the
        result type, the exceptions the call may raise and a ghost event recording that the call happened."""
        env = {"a%d" % i: v for i, v in enumerate(args)}
        for k_, v_ in kwargs.items():
            env["kw_" + k_] = v_
        if recv is not None:
            env["recv"] = recv
        ann = c.opts.get("returns")
        if c.opts.get("pure") and ann and all(isinstance(a_, Z) for a_ in args) and not kwargs:
            # a library read that gives the same answer every time it is asked within one run (sys.stdin.isatty())
            fn = z3.Function("ext_" + name.replace(".", "_"), *([Val] * len(args) + [Val]))
            res = Z(fn(*[a_.t for a_ in args]))
            cst, h = self.constraint_of_annotation(ast.parse(ann, mode="eval").body, res.t)
            if cst is not None:
                s.assume(cst)
            res.hint = h
        else:
            res = self.fresh_of_annotation(ann, "ret_%s_%d" % (name.replace(".", "_"), len(self.obligations)), s, node) if ann else Z(V.VNone)
        env["result"] = res
        self.assumptions.add("assumed external contract: %s (%s)" % (c.target, c.notes or "library call"))
        form = c.opts.get("call_form")
        if form and not self.in_spec:
            # K5: the assumed contract describes ONE way of calling the library function (what the call does with other
            # arguments -- e.g. copy2(..., follow_symlinks=False) copying the link instead of the bytes -- it does not cover)
            ok = T(len(args) == form.get("nargs", len(args)) and set(kwargs) <= set(form.get("keywords", {})))
            for k_, v_ in kwargs.items():
                want = form.get("keywords", {}).get(k_)          # a keyword is accepted with the one value the contract was written for
                if want is not None:
                    ok = z3.And(ok, self.to_z(v_, s, node).t == V.mk(want)) if isinstance(v_, (Z, RefV)) else T(False)
            self.prove(s, ok, "K5", node, "call-pre of %s: called as %s" % (name, form.get("text", "the form its assumed contract covers")),
                       clause="call_form")
        out = []
        if c.opts.get("event"):
            saved_env, saved_fi = s.env, self.cur_fi
            self.cur_fi = self.contract_fi
            self.pure += 1
            self.in_spec += 1
            try:
                s.env = dict(env)
                r = self.ev(ast.parse(c.opts["event"], mode="eval").body, s)
            finally:
                self.pure -= 1
                self.in_spec -= 1
                self.cur_fi = saved_fi
                s.env = saved_env
            if len(r) != 1 or is_exc(r[0][1]):
                raise Unsupported("event expression of %s" % c.name, node)
            s.ghost = dict(s.ghost)
            s.ghost["events"] = list(s.ghost.get("events", [])) + [r[0][1]]
        if not self.in_spec:
            # (the event says that the call was made: it is part of the history also when the call raises)
            for cls in c.raises:
                sb = s.fork()
                out.append((sb, Exc(cls, self.origin(node), "raised by the library call %s (its assumed contract allows it)" % name)))
        if c.opts.get("noreturn") and not self.in_spec:
            return out
        return [(s, res)] + out

    # -- conversions ---------------------------------------------------------
    def bi_str(self, args, kwargs, s, node):
        if not args:
            return [(s, Z(V.mk(""), "str"))]
        v = args[0]
        if isinstance(v, Z):
            if isinstance(v.hint, tuple) and v.hint[0] == "enum":
                ci = self.P.find_class(v.hint[1])
                if ci is not None and "__str__" in ci.methods:
                    return self.inline_call(ci.methods["__str__"], [v], {}, s, node)
            return [(s, Z(z3.simplify(V.VStr(V.py_str(v.t))), "str"))]
        if isinstance(v, RefV) and isinstance(s.store[v.ref], ObjBox):
            box = s.store[v.ref]
            ci = self.P.find_class(box.cls)
            if ci is not None:
                for cname in self.P.class_mro(ci):
                    c = self.P.find_class(cname)
                    if c is not None and "__str__" in c.methods:
                        return self.call_function(c.methods["__str__"], [v], {}, s, node)
        return [(s, Z(V.VStr(V.fresh("str", V.S)), "str"))]

    def bi_repr(self, args, kwargs, s, node):
        return [(s, Z(V.VStr(V.fresh("repr", V.S)), "str"))]

    def bi_len(self, args, kwargs, s, node):
        v = args[0]
        if isinstance(v, PyTuple):
            return [(s, Z(V.mk(len(v.items)), "int"))]
        if isinstance(v, RefV):
            box = s.store[v.ref]
            if isinstance(box, ListBox):
                return [(s, Z(V.mk(len(box.items)), "int"))]
            if isinstance(box, SeqBox):
                return [(s, Z(V.VInt(z3.Length(box.term)), "int"))]
            if isinstance(box, ObjBox):
                ci = self.P.find_class(box.cls)
                if ci is not None and "__len__" in ci.methods:
                    return self.call_function(ci.methods["__len__"], [v], {}, s, node)
            if isinstance(box, AbsBox) and box.length is not None:
                return [(s, Z(V.VInt(box.length), "int"))]
            raise Unsupported("len of opaque collection", node)
        if isinstance(v, Z):
            t = v.t
            if self.def_str(v, s):
                return [(s, Z(V.VInt(z3.Length(V.get_s(t))), "int"))]
            return self.heap_len(v, s, node)
        raise Unsupported("len of %s" % type(v).__name__, node)

    def heap_len(self, v, s, node):
        t = v.t
        ok = z3.Or(V.is_Str(t), z3.And(V.is_Ref(t), z3.Or(
            [V.kind_of(V.get_rid(t)) == V.kind_id(k) for k in ("list", "dict", "set", "tuple", "CommentedSet", "deque")])))
        out = []
        for (s2, x) in self.need(s, ok, "TypeError", node, "len() of a sized value"):
            if x is not None:
                out.append((s2, x))
                continue
            rid = V.get_rid(t)
            cid = s2.sid(rid)
            n = z3.If(V.is_Str(t), z3.Length(V.get_s(t)),
                      z3.If(V.kind_of(rid) == V.K_DICT, V.map_len(cid), V.seq_len(cid)))
            s2.assume(V.seq_len(cid) >= 0)
            s2.assume(V.map_len(cid) >= 0)
            out.append((s2, Z(V.VInt(n), "int")))
        return out

    def bi_int(self, args, kwargs, s, node):
        v = args[0]
        if not isinstance(v, Z):
            raise Unsupported("int() of non-scalar", node)
        t = v.t
        out = []
        # int(None) / int(<container>) -> TypeError ; int(<bad text>) -> ValueError
        for (s2, x) in self.need(s, z3.Or(V.is_num(t), V.is_Str(t)), "TypeError", node, "int() argument is a number or str"):
            if x is not None:
                out.append((s2, x))
                continue
            for (s3, y) in self.need(s2, z3.Implies(V.is_Str(t), V.int_ok(V.get_s(t))), "ValueError", node, "int() of a str that spells an integer"):
                if y is not None:
                    out.append((s3, y))
                    continue
                self.assumptions.add("int(float) truncation is not modelled (result unconstrained); A-FLT")
                r = z3.If(V.is_Str(t), V.int_of(V.get_s(t)), z3.If(V.is_Float(t), V.fresh("trunc", V.I), V.to_int(t)))
                out.append((s3, Z(V.VInt(r), "int")))
        return out

    def bi_map(self, args, kwargs, s, node):
        if len(args) != 2 or not isinstance(args[0], LambdaV):
            raise Unsupported("map() with other than a lambda and one iterable", node)
        return [(s, ("map", args[0], args[1]))]

    def bi_list(self, args, kwargs, s, node):
        if not args:
            return [(s, s.alloc(ListBox([])))]
        v = args[0]
        if isinstance(v, tuple) and v and v[0] == "map":
            _m, lam, seq = v
            if isinstance(seq, RefV) and isinstance(s.store[seq.ref], SeqBox) and s.store[seq.ref].elem == "str":
                box = s.store[seq.ref]
                # the lambda is checked once on an arbitrary element (safety + result type)
                el = Z(V.VStr(V.fresh("mapelem", V.S)), "str")
                sub = s.fork()
                sub.env = dict(lam.env)
                params = [a.arg for a in lam.node.args.args]
                if len(params) != 1:
                    raise Unsupported("lambda arity", node)
                sub.env[params[0]] = el
                saved = self.cur_fi
                self.cur_fi = lam.fi
                try:
                    rs = self.ev(lam.node.body, sub)
                finally:
                    self.cur_fi = saved
                ok = all((not is_exc(r)) and isinstance(r, Z) and self.def_str(r, s2) for (s2, r) in rs)
                for (s2, r) in rs:
                    if is_exc(r):
                        return [(s, r)]
                if not ok:
                    raise Unsupported("map(lambda) result is not a str", node)
                res = V.fresh("mapped", V.SeqStr)
                s.assume(z3.Length(res) == z3.Length(box.term))
                return [(s, s.alloc(SeqBox(res, "str", "list")))]
            raise Unsupported("list(map(...)) over a non-str sequence", node)
        if isinstance(v, RefV) and isinstance(s.store[v.ref], (ListBox, SeqBox, AbsBox)):
            b = s.store[v.ref].clone()
            b.kind = "list"
            return [(s, s.alloc(b))]
        if isinstance(v, PyTuple):
            return [(s, s.alloc(ListBox(v.items)))]
        if isinstance(v, GenV):
            # list(<generator by contract>): the generator runs to its end here (pre-conditions checked, the exceptions
            # its contract allows may surface, its frame applies); the result holds as many abstract elements as it yielded
            out = []
            for (s2, r) in self.apply_contract(v.contract, v.fi, v.env[0], v.env[1], s, v.node, from_gen=True):
                if is_exc(r):
                    out.append((s2, r))
                    continue
                self.loop_count += 1
                n = z3.Int("gen_len!G%d" % self.loop_count)
                s2.assume(n >= 0)
                ann = v.contract.opts.get("yields")
                box = AbsBox("list", n, ast.parse(ann, mode="eval").body if isinstance(ann, str) else ann)
                if s2.ghost.get("events"):
                    s2.ghost = dict(s2.ghost)
                    gc = dict(s2.ghost.get("gen_counts", {}))
                    gc[len(s2.ghost["events"]) - 1] = n
                    s2.ghost["gen_counts"] = gc
                out.append((s2, s2.alloc(box)))
            return out
        if isinstance(v, Z) and not self.def_str(v, s):
            # list(<heap iterable>): a new list of as many elements (their values are not carried: abstract elements)
            t = v.t
            rid = V.get_rid(t)
            ok = z3.And(V.is_Ref(t), z3.Or([V.kind_of(rid) == V.kind_id(k) for k in ("list", "dict", "set", "tuple", "CommentedSet", "deque")]))
            out = []
            for (s2, x) in self.need(s, ok, "TypeError", node, "list() of an iterable"):
                if x is not None:
                    out.append((s2, x))
                    continue
                cid = s2.sid(rid)
                n = z3.If(V.kind_of(rid) == V.K_DICT, V.map_len(cid), V.seq_len(cid))
                s2.assume(n >= 0)
                out.append((s2, s2.alloc(AbsBox("list", n, None))))
            return out
        raise Unsupported("list() of %s" % type(v).__name__, node)

    def bi_max(self, args, kwargs, s, node, want_max=True):
        if len(args) != 2 or not all(isinstance(a, Z) for a in args) or kwargs:
            raise Unsupported("max/min with other than two scalars", node)
        a, b = args
        out = []
        ok = z3.Or(z3.And(self.isk(a, "num"), self.isk(b, "num")), z3.And(self.isk(a, "str"), self.isk(b, "str")))
        for (s2, x) in self.need(s, ok, "TypeError", node, "max()/min() of comparable values"):
            if x is not None:
                out.append((s2, x))
            else:
                gt = V.py_lt(a.t, b.t)
                val = z3.If(gt, b.t, a.t) if want_max else z3.If(V.py_lt(b.t, a.t), b.t, a.t)
                out.append((s2, Z(val, a.hint if a.hint == b.hint else None)))
        return out

    def bi_min(self, args, kwargs, s, node):
        return self.bi_max(args, kwargs, s, node, want_max=False)

    def bi_bool(self, args, kwargs, s, node):
        return [(s, Z(V.VBool(self.truth(args[0], s, node)), "bool"))]

    def bi_isinstance(self, args, kwargs, s, node):
        v, ty = args
        names = self.type_names(ty, node)
        if isinstance(v, Z):
            return [(s, Z(V.VBool(z3.simplify(z3.Or([V.isinstance_of(v.t, LIB_KIND.get(n, n)) for n in names]))), "bool"))]
        if isinstance(v, PyTuple):
            return [(s, Z(V.mk("tuple" in names or "object" in names), "bool"))]
        if isinstance(v, RefV):
            box = s.store[v.ref]
            if isinstance(box, ObjBox):
                ci = self.P.find_class(box.cls)
                mro = self.P.class_mro(ci) if ci is not None else [box.cls]
                if self.exc_isa(box.cls, "BaseException"):
                    return [(s, Z(V.mk(any(self.exc_isa(box.cls, n) for n in names)), "bool"))]
                return [(s, Z(V.mk(any(n in mro or n == "object" for n in names)), "bool"))]
            kind = getattr(box, "kind", "list")
            return [(s, Z(V.mk(kind in names or "object" in names), "bool"))]
        if isinstance(v, (ClassV, FuncV, BuiltinV)):
            return [(s, Z(V.mk("type" in names and isinstance(v, ClassV)), "bool"))]
        raise Unsupported("isinstance on %s" % type(v).__name__, node)

    def type_names(self, ty, node):
        if isinstance(ty, ClassV):
            return [ty.name]
        if isinstance(ty, PyTuple):
            out = []
            for x in ty.items:
                out.extend(self.type_names(x, node))
            return out
        if isinstance(ty, Z) and z3.is_true(z3.simplify(V.is_None(ty.t))):
            return ["NoneType"]
        raise Unsupported("isinstance() second argument %r" % (ty,), node)

    def bi_type(self, args, kwargs, s, node):
        v = args[0]
        if isinstance(v, Z):
            return [(s, Z(z3.simplify(V.type_of(v.t))))]
        raise Unsupported("type() of %s" % type(v).__name__, node)

    def bi_hasattr(self, args, kwargs, s, node):
        v, name = args
        lit = self.concrete_str(name)
        if lit is None:
            raise Unsupported("hasattr with a symbolic name", node)
        if isinstance(v, Z):
            owners = self.classes_with_attr(lit)
            t = v.t
            r = z3.Or(z3.And(V.is_Ref(t), z3.Or([V.kind_of(V.get_rid(t)) == V.kind_id(c) for c in owners] or [T(False)])),
                      V.has_attr(t, z3.StringVal(lit)))
            return [(s, Z(V.VBool(r), "bool"))]
        if isinstance(v, RefV) and isinstance(s.store[v.ref], ObjBox):
            box = s.store[v.ref]
            ci = self.P.find_class(box.cls)
            return [(s, Z(V.mk(lit in box.fields or (ci is not None and (lit in ci.methods or lit in self.classes_with_attr(lit) and ci.name in self.classes_with_attr(lit)))), "bool"))]
        raise Unsupported("hasattr on %s" % type(v).__name__, node)

    # -- regex, literal_eval (assumed external contracts) -----------------------
    def bi_re_compile(self, args, kwargs, s, node):
        v = args[0]
        if not isinstance(v, Z):
            raise Unsupported("re.compile of non-scalar", node)
        self.assumptions.add("external: re.compile(p) returns a matcher or raises re.error (re_valid(p) uninterpreted); matcher.search(t) is an uninterpreted predicate re_search(p, t)")
        out = []
        for (s2, x) in self.need(s, V.is_Str(v.t), "TypeError", node, "re.compile() of a str"):
            if x is not None:
                out.append((s2, x))
                continue
            for (s3, y) in self.need(s2, V.re_valid(V.get_s(v.t)), "re.error", node, "the pattern compiles"):
                if y is not None:
                    out.append((s3, y))
                else:
                    out.append((s3, s3.alloc(ObjBox("re.Pattern", {"pattern": v}))))
        return out

    def lit_facts(self, t, s):
        """Ground instances of the assumed literal_eval contract on term t."""
        self.assumptions.add("external: ast.literal_eval(x) returns a None/bool/int/float/complex/str/bytes/tuple/list/dict/set value "
                             "or raises ValueError|SyntaxError|TypeError|MemoryError|RecursionError; non-str, non-bytes input raises ValueError; "
                             "literal_eval('True') is True, literal_eval('False') is False; results are instances of the exact builtin types")
        st = V.lit_status(t)
        s.assume(z3.And(st >= 0, st <= 5))
        s.assume(z3.Implies(z3.And(z3.Not(V.is_Str(t)), z3.Not(V.is_Other(t))), st == 1))
        r = V.lit_eval(t)
        s.assume(z3.Implies(st == 0, z3.And(z3.Not(V.is_Enum(r)), z3.Not(V.is_Type(r)))))
        s.assume(z3.Implies(z3.And(st == 0, z3.Or(V.is_Bool(r), V.is_Int(r), V.is_Float(r), V.is_Str(r))), V.exact(r)))
        for lit, val in (("True", True), ("False", False)):
            s.assume(z3.Implies(t == V.mk(lit), z3.And(st == 0, r == V.mk(val))))

    def bi_ast_literal_eval(self, args, kwargs, s, node):
        v = args[0]
        if not isinstance(v, Z):
            raise Unsupported("literal_eval of non-scalar", node)
        self.lit_facts(v.t, s)
        st = V.lit_status(v.t)
        out = []
        ok, bad = self.branch(s, st == 0, node)
        if ok is not None:
            out.append((ok, Z(V.lit_eval(v.t))))
        if bad is not None:
            for code, cls in LIT_EXC.items():
                sb = bad.fork()
                if self.solver.feasible(sb.pc + [st == code]):
                    sb.assume(st == code)
                    out.append((sb, Exc(cls, self.origin(node), "literal_eval raises %s (assumed external contract)" % cls)))
        return out

    bi_literal_eval = bi_ast_literal_eval

    # -- spec helpers (usable in contracts and spec functions) --------------------
    def bi_implies(self, args, kwargs, s, node):
        a, b = args
        return [(s, Z(V.VBool(z3.Implies(self.truth(a, s, node), self.truth(b, s, node))), "bool"))]

    def bi_xor(self, args, kwargs, s, node):
        a, b = args
        return [(s, Z(V.VBool(z3.Xor(self.truth(a, s, node), self.truth(b, s, node))), "bool"))]

    def bi_literal_ok(self, args, kwargs, s, node):
        self.lit_facts(args[0].t, s)
        return [(s, Z(V.VBool(V.lit_status(args[0].t) == 0), "bool"))]

    def bi_literal(self, args, kwargs, s, node):
        self.lit_facts(args[0].t, s)
        return [(s, Z(V.lit_eval(args[0].t)))]

    def bi_re_valid(self, args, kwargs, s, node):
        t = args[0].t
        return [(s, Z(V.VBool(z3.And(V.is_Str(t), V.re_valid(V.get_s(t)))), "bool"))]

    def bi_re_search(self, args, kwargs, s, node):
        p, t = args[0].t, args[1].t
        return [(s, Z(V.VBool(V.re_search(V.get_s(p), V.get_s(t))), "bool"))]

    def bi_seg_count(self, args, kwargs, s, node):
        v = args[0]
        if isinstance(v, RefV) and isinstance(s.store[v.ref], ObjBox) and s.store[v.ref].ident is not None:
            n = V.seg_count(s.store[v.ref].ident)
            s.assume(n >= 0)
            self.assumptions.add("relational fact about the parser (validated natively by rtc/c08+c14 on every run): the escaped and the "
                                 "unescaped parse of one path text have the same number of segments = seg_count(path)")
            return [(s, Z(V.VInt(n), "int"))]
        raise Unsupported("seg_count of a non-symbolic path", node)

    def bi_seg_type(self, args, kwargs, s, node):
        v, idx = args
        if isinstance(v, RefV) and isinstance(s.store[v.ref], ObjBox) and s.store[v.ref].ident is not None and isinstance(idx, Z):
            return [(s, Z(V.seg_type(s.store[v.ref].ident, V.to_int(idx.t))))]
        raise Unsupported("seg_type of a non-symbolic path", node)

    def _same_sv(self, a, b, s, node):
        if isinstance(a, Z) and isinstance(b, Z):
            return a.t == b.t
        if isinstance(a, RefV) and isinstance(b, RefV):
            return T(a.ref == b.ref)
        if isinstance(a, PyTuple) and isinstance(b, PyTuple) and len(a.items) == len(b.items):
            return z3.And([self._same_sv(x, y, s, node) for x, y in zip(a.items, b.items)] or [T(True)])
        if isinstance(a, Z) and isinstance(b, RefV) or isinstance(a, RefV) and isinstance(b, Z):
            return self.identical(a, b, s, node)
        return T(False)

    def bi_extended_by(self, args, kwargs, s, node):
        """extended_by(new, old, *items): `new` was built as `old + [items...]` (a fresh list; `old` untouched)."""
        new, old = args[0], args[1]
        items = list(args[2:])
        if not (isinstance(new, RefV) and isinstance(s.store[new.ref], AbsBox) and hasattr(s.store[new.ref], "prov")):
            return [(s, Z(V.mk(False), "bool"))]
        base, appended = s.store[new.ref].prov
        if len(appended) != len(items):
            return [(s, Z(V.mk(False), "bool"))]
        if isinstance(base, int):
            same_base = T(isinstance(old, RefV) and old.ref == base)
        else:
            same_base = self._same_sv(base, old, s, node)
        conds = [same_base] + [self._same_sv(x, y, s, node) for x, y in zip(appended, items)]
        return [(s, Z(V.VBool(z3.And(conds)), "bool"))]

    def event_tags(self, s):
        return {self.concrete_str(ev.items[0]) for ev in s.ghost.get("events", []) if isinstance(ev, PyTuple) and ev.items}

    def leave_loop_events(self, s2, st):
        """A path leaving a loop from inside an iteration (break / return): the calls made before the loop, then this
        iteration's (those of earlier iterations are the loop's lost tags)."""
        s2.ghost = dict(s2.ghost)
        s2.ghost["events"] = list(st.ghost.get("events", [])) + list(s2.ghost.get("events", []))
        if "gen_counts" in st.ghost:
            s2.ghost["gen_counts"] = st.ghost["gen_counts"]
        else:
            s2.ghost.pop("gen_counts", None)

    def tag_known(self, name, s, node, at=None):
        """Calls tagged `name` made by a loop's earlier iterations are in no event list: their count is unknown after the
        loop; an event listed after that loop (position `at`) is still known to be the last one."""
        pos = s.ghost.get("lost_tags", {}).get(name)
        if pos is not None and (at is None or at < pos):
            raise Unsupported("calls tagged %r are made inside a loop: their history after the loop is not tracked" % name, node)

    def bi_call_event(self, args, kwargs, s, node):
        """call_event(name): the arguments recorded by the last contracted call whose event is tagged `name`."""
        name = self.concrete_str(args[0])
        evs = s.ghost.get("events", [])
        pos = s.ghost.get("lost_tags", {}).get(name, 0)
        # (calls a loop's earlier iterations made are in no list: only what is listed after that loop can be the last call;
        # otherwise the answer is a tuple whose fields are unknown values)
        for i in range(len(evs) - 1, pos - 1, -1):
            ev = evs[i]
            if isinstance(ev, PyTuple) and ev.items and self.concrete_str(ev.items[0]) == name:
                return [(s, ev)]
        return [(s, PyTuple([Z(V.mk(name), "str")]))]

    def bi_called_after_loops(self, args, kwargs, s, node):
        """called_after_loops(name): how many calls tagged `name` were made after the last loop that makes such calls
        (all of them when no loop does)."""
        name = self.concrete_str(args[0])
        pos = s.ghost.get("lost_tags", {}).get(name, 0)
        n = sum(1 for ev in s.ghost.get("events", [])[pos:] if isinstance(ev, PyTuple) and ev.items and self.concrete_str(ev.items[0]) == name)
        return [(s, Z(V.mk(n), "int"))]

    def bi_looped(self, args, kwargs, s, node):
        """looped(key): this path ran through the loop `key`, which its contract declares the only yielder."""
        return [(s, Z(V.mk(self.concrete_str(args[0]) in s.flags.get("looped", ())), "bool"))]

    def bi_called(self, args, kwargs, s, node):
        name = self.concrete_str(args[0])
        self.tag_known(name, s, node)
        n = sum(1 for ev in s.ghost.get("events", []) if isinstance(ev, PyTuple) and ev.items and self.concrete_str(ev.items[0]) == name)
        return [(s, Z(V.mk(n), "int"))]

    def bi_yield_count(self, args, kwargs, s, node):
        """yield_count(tag): how many values the (single) generator call recorded under that event tag yielded to the
        loop that consumed it to the end (known after that loop's normal exit)."""
        name = self.concrete_str(args[0])
        self.tag_known(name, s, node)
        evs = s.ghost.get("events", [])
        idx = [i for i, ev in enumerate(evs) if isinstance(ev, PyTuple) and ev.items and self.concrete_str(ev.items[0]) == name]
        counts = s.ghost.get("gen_counts", {})
        if len(idx) != 1 or idx[0] not in counts:
            return [(s, Z(V.VInt(V.fresh("yield_count", V.I)), "int"))]     # not determined on this path: an arbitrary number
        return [(s, Z(V.VInt(counts[idx[0]]), "int"))]

    def bi_path_is(self, args, kwargs, s, node):
        """path_is(p, base, segment): p is the result of the (non-mutating) `base + segment`."""
        p, base, seg = args
        alts = []
        for ev in s.ghost.get("events", []) + list(s.ghost.get("all_events", [])):
            if isinstance(ev, PyTuple) and len(ev.items) == 4 and self.concrete_str(ev.items[0]) == "add":
                alts.append(z3.And(self._same_sv(ev.items[3], p, s, node), self._same_sv(ev.items[1], base, s, node),
                                   self._same_sv(ev.items[2], seg, s, node)))
        return [(s, Z(V.VBool(z3.Or(alts) if alts else T(False)), "bool"))]

    def bi_is_exact(self, args, kwargs, s, node):
        return [(s, Z(V.VBool(V.exact(args[0].t)), "bool"))]

    def bi_int_ok(self, args, kwargs, s, node):
        t = args[0].t
        return [(s, Z(V.VBool(z3.And(V.is_Str(t), V.int_ok(V.get_s(t)))), "bool"))]

    # -- methods -------------------------------------------------------------------
    def call_method(self, recv, meth, args, kwargs, s, node):
        if isinstance(recv, tuple) and recv and recv[0] == "kwargs":
            return self.kwargs_method(recv, meth, args, s, node)
        if isinstance(recv, RefV):
            box = s.store[recv.ref]
            if isinstance(box, (ListBox, SeqBox, AbsBox)):
                return self.list_method(recv, box, meth, args, s, node)
            if isinstance(box, ObjBox) and box.cls == "re.Pattern":
                if meth in ("search", "match") and len(args) == 1 and isinstance(args[0], Z):
                    p = box.fields["pattern"].t
                    t = args[0].t
                    out = []
                    for (s2, x) in self.need(s, V.is_Str(t), "TypeError", node, "matcher.%s() of a str" % meth):
                        if x is not None:
                            out.append((s2, x))
                        else:
                            if meth == "match":
                                raise Unsupported("re match()", node)
                            m = V.fresh("match")
                            s2.assume(V.is_Other(m))
                            out.append((s2, Z(z3.If(V.re_search(V.get_s(p), V.get_s(t)), m, V.VNone))))
                    return out
            raise Unsupported("method %s on %s" % (meth, type(box).__name__), node)
        if isinstance(recv, Z):
            return self.scalar_method(recv, meth, args, kwargs, s, node)
        raise Unsupported("method %s on %s" % (meth, type(recv).__name__), node)

    def kwargs_method(self, recv, meth, args, s, node):
        kw = recv[1]
        if meth == "pop" and len(args) in (1, 2):
            key = self.concrete_str(args[0])
            if key is None:
                raise Unsupported("kwargs.pop with a symbolic key", node)
            if key in kw:
                return [(s, kw.pop(key))]
            if len(args) == 2:
                return [(s, args[1])]
            return [(s, Exc("KeyError", self.origin(node), "kwargs.pop(%r)" % key))]
        raise Unsupported("kwargs.%s" % meth, node)

    def str_need(self, recv, s, node, meth):
        return self.need(s, self.isk(recv, "str"), "AttributeError", node, "receiver of .%s() is a str" % meth)

    def scalar_method(self, recv, meth, args, kwargs, s, node):
        t = recv.t
        out = []
        str_methods = {"startswith", "endswith", "lower", "upper", "title", "strip", "lstrip", "rstrip", "count",
                       "index", "find", "format", "join", "replace", "split", "isdigit", "isnumeric", "isdecimal"}
        if meth not in str_methods:
            return self.object_method(recv, meth, args, kwargs, s, node)
        for (s2, x) in self.str_need(recv, s, node, meth):
            if x is not None:
                out.append((s2, x))
                continue
            sv = V.get_s(t)
            if meth in ("startswith", "endswith"):
                a = args[0]
                if not isinstance(a, Z):
                    raise Unsupported("%s with tuple" % meth, node)
                for (s3, y) in self.need(s2, self.isk(a, "str"), "TypeError", node, "argument of .%s() is a str" % meth):
                    if y is not None:
                        out.append((s3, y))
                    else:
                        f = z3.PrefixOf if meth == "startswith" else z3.SuffixOf
                        out.append((s3, Z(V.VBool(f(V.get_s(a.t), sv)), "bool")))
            elif meth in ("lower", "upper", "title"):
                out.append((s2, Z(V.VStr(self.case_fn(meth, sv, s2)), "str")))
            elif meth in ("strip", "lstrip", "rstrip") and not args:
                # deterministic: two calls on one text (the same term, in this state and its successors) agree; a
                # constant per text keeps the formulas small (a function application of a large term is costly)
                fk = ("strfn", meth, z3.simplify(sv).sexpr())
                if fk not in s2.flags:
                    s2.flags[fk] = V.fresh(meth, V.S)
                r = s2.flags[fk]
                # facts: the result is a substring; empty iff the text is all whitespace (only what callers need)
                s2.assume(z3.Contains(sv, r))
                s2.assume(z3.Implies(sv == z3.StringVal(""), r == z3.StringVal("")))
                out.append((s2, Z(V.VStr(r), "str")))
            elif meth == "count":
                a = args[0]
                c = V.fresh("count", V.I)
                s2.assume(c >= 0)
                s2.assume((c > 0) == z3.Contains(sv, V.get_s(a.t)))
                lit = self.concrete_str(a)
                if lit is not None and len(lit) == 1:
                    s2.assume(c <= z3.Length(sv))
                    # exactly one occurrence <=> first and last occurrence coincide
                    first, last = z3.IndexOf(sv, V.get_s(a.t), 0), z3.LastIndexOf(sv, V.get_s(a.t))
                    s2.assume((c == 1) == z3.And(first >= 0, first == last))
                    s2.assume(z3.Implies(c == z3.Length(sv), z3.And(first == 0)))
                    s2.assume(z3.Implies(z3.And(c == 2, z3.Length(sv) == 2), sv == z3.Concat(V.get_s(a.t), V.get_s(a.t))))
                out.append((s2, Z(V.VInt(c), "int")))
            elif meth in ("index", "find"):
                a = args[0]
                if len(args) != 1:
                    raise Unsupported("str.%s with start" % meth, node)
                pos = z3.IndexOf(sv, V.get_s(a.t), 0)
                if meth == "find":
                    out.append((s2, Z(V.VInt(pos), "int")))
                else:
                    for (s3, y) in self.need(s2, z3.Contains(sv, V.get_s(a.t)), "ValueError", node, "str.index(): substring present"):
                        out.append((s3, y if y is not None else Z(V.VInt(pos), "int")))
            elif meth == "format":
                lit = self.concrete_str(recv)
                if lit is None:
                    raise Unsupported("format on a non-literal", node)
                fields = lit.replace("{{", "").replace("}}", "").count("{}")
                named = [f for f in __import__("re").findall(r"\{([^{}]*)\}", lit.replace("{{", "").replace("}}", "")) if f]
                if named:
                    raise Unsupported("format with named/indexed fields", node)
                if fields > len(args):
                    out.append((s2, Exc("IndexError", self.origin(node), "format(): more {} than arguments")))
                else:
                    # exact rendering for str/int/bool/None arguments, an unconstrained piece otherwise
                    pieces = lit.replace("{{", "\x00").replace("}}", "\x01").split("{}")
                    r = z3.StringVal(pieces[0].replace("\x00", "{").replace("\x01", "}"))
                    for k, piece in enumerate(pieces[1:]):
                        a = args[k]
                        if isinstance(a, Z) and (a.hint in ("str", "int", "bool") or self.def_str(a, s2)):
                            r = z3.Concat(r, V.py_str(a.t))
                        else:
                            r = z3.Concat(r, V.fresh("fmtarg", V.S))
                        r = z3.Concat(r, z3.StringVal(piece.replace("\x00", "{").replace("\x01", "}")))
                    out.append((s2, Z(V.VStr(z3.simplify(r)), "str")))
            elif meth == "join":
                a = args[0]
                out.extend(self.str_join(sv, a, s2, node))
            elif meth == "replace":
                a, b = args[0], args[1]
                for (s3, y) in self.need(s2, z3.And(self.isk(a, "str"), self.isk(b, "str")), "TypeError", node, "replace(): both arguments are str"):
                    out.append((s3, y if y is not None else Z(V.VStr(V.fresh("replace_all", V.S)), "str")))
                self.assumptions.add("str.replace result is an unconstrained str (replace-all is not encoded)")
            elif meth == "split":
                if len(args) not in (1, 2) or not isinstance(args[0], Z) or (len(args) == 2 and self.concrete_int(args[1]) != 1):
                    raise Unsupported("str.split without a separator / with maxsplit other than 1", node)
                for (s3, y) in self.need(s2, z3.And(self.isk(args[0], "str"), z3.Length(V.get_s(args[0].t)) > 0), "ValueError", node, "split(): non-empty str separator"):
                    if y is not None:
                        out.append((s3, y))
                    else:
                        if len(args) == 2:
                            # maxsplit=1: [head, tail] with text == head + sep + tail when the separator occurs, else [text]
                            sep = V.get_s(args[0].t)
                            yes, no = self.branch(s3, z3.Contains(sv, sep), node)
                            if yes is not None:
                                p0, p1 = V.fresh("split_head", V.S), V.fresh("split_tail", V.S)
                                yes.assume(sv == z3.Concat(p0, sep, p1))
                                yes.assume(z3.Not(z3.Contains(p0, sep)))
                                out.append((yes, yes.alloc(ListBox([Z(V.VStr(p0), "str"), Z(V.VStr(p1), "str")], "str"))))
                            if no is not None:
                                out.append((no, no.alloc(ListBox([Z(V.VStr(sv), "str")], "str"))))
                        else:
                            parts = V.fresh("split", V.SeqStr)
                            s3.assume(z3.Length(parts) >= 1)
                            out.append((s3, s3.alloc(SeqBox(parts, "str", "list"))))
            elif meth in ("isdigit", "isnumeric", "isdecimal") and not args:
                # Unicode character classes are not modelled: the predicate is uninterpreted, with the two facts that
                # hold in CPython -- a non-empty run of ASCII digits satisfies it, the empty string does not.  In
                # particular it does NOT entail int_ok (int('\u00b2') raises although '\u00b2'.isdigit() is True).
                fn = z3.Function("str_" + meth, V.S, V.B)
                r = fn(sv)
                s2.assume(z3.Implies(r, z3.Length(sv) > 0))
                s2.assume(z3.Implies(z3.InRe(sv, z3.Plus(z3.Range("0", "9"))), r))
                s2.assume(z3.Implies(z3.InRe(sv, z3.Plus(z3.Range("0", "9"))), V.int_ok(sv)))
                self.assumptions.add("str.%s(): uninterpreted predicate (ASCII digit runs satisfy it, '' does not; no link to int())" % meth)
                out.append((s2, Z(V.VBool(r), "bool")))
            else:
                raise Unsupported("str.%s" % meth, node)
        return out

    def object_method(self, recv, meth, args, kwargs, s, node):
        """recv.meth(...) where recv is a heap reference: resolved to the unique repo class defining `meth`."""
        owners = [c for c in self.classes_with_attr(meth) if self.P.find_class(c) is not None and meth in self.P.find_class(c).methods]
        if isinstance(recv.hint, tuple) and recv.hint[0] == "obj" and recv.hint[1] in owners:
            owners = [recv.hint[1]]
        if not owners and self.registry.get("extmethod:" + meth):
            return self.apply_ext(self.registry["extmethod:" + meth][0], "method." + meth, args, kwargs, s, node, recv=recv)
        if not owners and meth in ("append", "add") and len(args) == 1 and not kwargs:
            return self.heap_container_method(recv, meth, args[0], s, node)
        if not owners and meth == "clear" and not args and not kwargs:
            # list.clear() on a pre-existing heap list: a new content state of length 0
            t = recv.t
            rid = V.get_rid(t)
            out = []
            for (s2, x) in self.need(s, z3.And(V.is_Ref(t), z3.Or(V.kind_of(rid) == V.K_LIST, V.kind_of(rid) == V.K_DICT, V.kind_of(rid) == V.K_SET)),
                                     "AttributeError", node, "receiver of .clear() is a list, dict or set"):
                if x is not None:
                    out.append((s2, x))
                    continue
                _old, new = s2.heap_write(rid, "clear")
                s2.assume(z3.And(V.seq_len(new) == 0, V.map_len(new) == 0))
                out.append((s2, Z(V.VNone)))
            return out
        if not owners and meth == "get" and len(args) in (1, 2) and not kwargs and all(isinstance(a_, Z) for a_ in args):
            # dict.get(key[, default]) on a heap dict
            t = recv.t
            rid = V.get_rid(t)
            out = []
            for (s2, x) in self.need(s, z3.And(V.is_Ref(t), V.kind_of(rid) == V.K_DICT), "AttributeError", node, "receiver of .get() is a dict"):
                if x is not None:
                    out.append((s2, x))
                    continue
                cid = s2.sid(rid)
                dflt = args[1].t if len(args) == 2 else V.VNone
                out.append((s2, Z(z3.If(V.map_has(cid, args[0].t), V.map_get(cid, args[0].t), dflt))))
            return out
        if not owners and meth in ("keys", "values", "items") and not args and not kwargs:
            # a view of a heap dict outside a loop header: an abstract sequence of its length
            t = recv.t
            rid = V.get_rid(t)
            out = []
            for (s2, x) in self.need(s, z3.And(V.is_Ref(t), V.kind_of(rid) == V.K_DICT), "AttributeError", node, "receiver of .%s() is a dict" % meth):
                if x is not None:
                    out.append((s2, x))
                    continue
                n = V.map_len(s2.sid(rid))
                s2.assume(n >= 0)
                out.append((s2, s2.alloc(AbsBox("list", n, None))))
            return out
        if len(owners) != 1:
            raise Unsupported("method .%s on a value of unknown class (candidates: %s)" % (meth, owners), node)
        ci = self.P.find_class(owners[0])
        fi = ci.methods[meth]
        out = []
        for (s2, x) in self.need(s, V.isinstance_of(recv.t, ci.name), "AttributeError", node, "receiver of .%s() is a %s" % (meth, ci.name)):
            if x is not None:
                out.append((s2, x))
            else:
                out.extend(self.call_function(fi, [recv] + list(args), kwargs, s2, node))
        return out

    def heap_container_method(self, recv, meth, arg, s, node):
        """list.append(x) / set.add(x) on a pre-existing heap container: the object moves to a new content state."""
        t = recv.t
        rid = V.get_rid(t)
        kinds = ("list", "deque") if meth == "append" else ("set", "CommentedSet")
        ok = z3.And(V.is_Ref(t), z3.Or([V.kind_of(rid) == V.kind_id(k) for k in kinds]))
        out = []
        for (s2, x) in self.need(s, ok, "AttributeError", node, "receiver of .%s() is a %s" % (meth, kinds[0])):
            if x is not None:
                out.append((s2, x))
                continue
            zv = self.to_z(arg, s2, node)
            old, new = s2.heap_write(rid, meth)
            if meth == "append":
                s2.assume(V.seq_len(old) >= 0)
                s2.assume(V.seq_len(new) == V.seq_len(old) + 1)
                s2.assume(V.seq_item(new, V.seq_len(old)) == zv.t)
                self.assumptions.add("heap list.append: length and the appended element are exact; the frame of the other "
                                     "elements is not carried (they read as unconstrained afterwards: an over-approximation)")
            out.append((s2, Z(V.VNone)))
        return out

    def store_subscript(self, tgt, v, st, stmt):
        """data[k] = v on a pre-existing heap list / dict."""
        out = []
        for (s, vals) in self.ev_list([tgt.value, tgt.slice], st):
            if is_exc(vals):
                out.append((s, ("raise", vals)))
                continue
            base, idx = vals
            if not isinstance(base, Z) or not isinstance(idx, Z):
                raise Unsupported("subscript store on %s" % type(base).__name__, stmt)
            t, i = base.t, idx.t
            rid = V.get_rid(t)
            is_seq = z3.And(V.is_Ref(t), V.kind_of(rid) == V.K_LIST)
            is_map = z3.And(V.is_Ref(t), V.kind_of(rid) == V.K_DICT)
            for (s2, x) in self.need(s, z3.Or(is_seq, is_map), "TypeError", stmt, "item assignment on a list or dict"):
                if x is not None:
                    out.append((s2, ("raise", x)))
                    continue
                for (s3, y) in self.need(s2, z3.Implies(is_seq, V.is_intlike(i)), "TypeError", stmt, "list index is an int"):
                    if y is not None:
                        out.append((s3, ("raise", y)))
                        continue
                    n = V.seq_len(s3.sid(rid))
                    ii = V.to_int(i)
                    for (s4, w) in self.need(s3, z3.Implies(is_seq, z3.And(ii >= -n, ii < n)), "IndexError", stmt, "list assignment index in range"):
                        if w is not None:
                            out.append((s4, ("raise", w)))
                            continue
                        zv = self.to_z(v, s4, stmt)
                        old, new = s4.heap_write(rid, "store")
                        s4.assume(V.seq_len(new) == V.seq_len(old))
                        s4.assume(z3.Implies(is_seq, V.seq_item(new, self.norm_index(ii, V.seq_len(old))) == zv.t))
                        s4.assume(z3.Implies(is_map, z3.And(V.map_has(new, i), V.map_get(new, i) == zv.t,
                                                            V.map_len(new) >= V.map_len(old), V.map_len(new) >= 1)))
                        self.assumptions.add("heap item assignment: the written slot is exact, dict keys are taken to be hashable, "
                                             "the other slots read as unconstrained afterwards (over-approximation)")
                        out.append(s4)
        return out

    def str_join(self, sep, a, s, node):
        if isinstance(a, RefV):
            box = s.store[a.ref]
            if isinstance(box, SeqBox) and box.elem == "str":
                return [(s, Z(V.VStr(V.fresh("join", V.S)), "str"))]
            if isinstance(box, ListBox):
                conds = [V.is_Str(x.t) for x in box.items if isinstance(x, Z)]
                if len(conds) != len(box.items):
                    raise Unsupported("join of non-scalars", node)
                out = []
                for (s2, x) in self.need(s, z3.And(conds) if conds else T(True), "TypeError", node, "join(): every element is a str"):
                    if x is not None:
                        out.append((s2, x))
                    else:
                        r = z3.StringVal("")
                        for k, it in enumerate(box.items):
                            r = z3.Concat(r, V.get_s(it.t)) if k == 0 else z3.Concat(r, sep, V.get_s(it.t))
                        out.append((s2, Z(V.VStr(z3.simplify(r)), "str")))
                return out
        raise Unsupported("join over %s" % type(a).__name__, node)

    def list_method(self, recv, box, meth, args, s, node):
        if meth in ("append", "appendleft") and self.cur_fi is self.fi and self.contract.opts.get("append_inv") and args \
                and not self.pure:
            # data-structure invariant of a sequence this function builds: proved for every appended element
            for n_, v_ in list(s.env.items()):
                if isinstance(v_, RefV) and v_.ref == recv.ref:
                    for clause in self.contract.opts["append_inv"].get(n_, []):
                        env_ = dict(s.env)
                        env_["elem"] = args[0]
                        for (s2, b) in self.eval_clause(clause, s.fork(), env_, node):
                            self.prove(s2, b, "K4", node, "appended element satisfies the element invariant of %s: %s" % (n_, clause),
                                       clause="append:" + clause)
        if isinstance(box, AbsBox):
            if meth in ("append", "appendleft"):
                if box.length is not None:
                    box.length = box.length + 1
                return [(s, Z(V.VNone))]
            if meth == "extend":
                box.length = None
                return [(s, Z(V.VNone))]
            if meth == "copy":
                return [(s, s.alloc(box.clone()))]
            if meth == "clear" and not args:
                box.length = z3.IntVal(0)
                return [(s, Z(V.VNone))]
            if meth == "pop" and not args and box.length is not None:
                out = []
                for (s2, x) in self.need(s, box.length > 0, "IndexError", node, "pop() from a non-empty collection"):
                    if x is not None:
                        out.append((s2, x))
                        continue
                    b2 = s2.store[recv.ref]
                    b2.length = b2.length - 1
                    out.append((s2, self.fresh_of_annotation(b2.elem_ann, "popped%d" % len(self.obligations), s2, node)))
                return out
            raise Unsupported("read of an opaque local collection (.%s)" % meth, node)
        if meth == "append":
            v = args[0]
            if isinstance(box, ListBox):
                box.items.append(v)
                return [(s, Z(V.VNone))]
            if box.elem == "str":
                if not isinstance(v, Z):
                    raise Unsupported("append of a non-scalar to List[str]", node)
                ob = self.prove(s, self.isk(v, "str"), "K4", node, "List[str] stays a list of str", clause="elem-type")
                if ob.status != "unsat":
                    raise Unsupported("List[str] element type not provable", node)
                box.term = z3.Concat(box.term, z3.Unit(V.get_s(v.t)))
            else:
                zv = self.to_z(v, s, node)
                if box.elem_ann is not None:
                    cst, _h = self.constraint_of_annotation(box.elem_ann, zv.t)
                    if cst is not None:
                        ob = self.prove(s, cst, "K4", node, "list keeps its element type %s" % ast.unparse(box.elem_ann), clause="elem-type")
                        if ob.status != "unsat":
                            box.elem_ann = None
                box.term = z3.Concat(box.term, z3.Unit(zv.t))
            return [(s, Z(V.VNone))]
        if meth == "pop":
            if args:
                raise Unsupported("pop(index)", node)
            if isinstance(box, ListBox):
                if box.items:
                    ob = self.add_obl("K1", node, "pop() from a non-empty list", [T(False)])
                    ob.status, ob.solver = "unsat", "concrete"
                    return [(s, box.items.pop())]
                ob = self.add_obl("K1", node, "pop() from a non-empty list", list(s.pc), clause="IndexError")
                exc = Exc("IndexError", self.origin(node), "pop from empty list")
                ob.status = "pending"
                self.pending.append((ob, exc, s))
                return [(s, exc)]
            n = z3.Length(box.term)
            out = []
            for (s2, x) in self.need(s, n > 0, "IndexError", node, "pop() from a non-empty list"):
                if x is not None:
                    out.append((s2, x))
                    continue
                b2 = s2.store[recv.ref]
                last = b2.term[n - 1]
                b2.term = z3.SubSeq(b2.term, 0, n - 1)
                out.append((s2, Z(V.VStr(last), "str") if b2.elem == "str" else Z(last)))
            return out
        if meth == "copy":
            return [(s, s.alloc(box.clone()))]
        if meth == "clear" and isinstance(box, ListBox):
            box.items.clear()
            return [(s, Z(V.VNone))]
        if meth == "extend" and isinstance(box, ListBox) and isinstance(args[0], (RefV, PyTuple)):
            src = args[0].items if isinstance(args[0], PyTuple) else getattr(s.store[args[0].ref], "items", None)
            if src is None:
                raise Unsupported("extend with symbolic list", node)
            box.items.extend(src)
            return [(s, Z(V.VNone))]
        raise Unsupported("list.%s" % meth, node)

    # ================================================================ comprehensions
    def concrete_iter(self, it, s):
        """Items of a concrete iterable, or None."""
        if isinstance(it, PyTuple):
            return list(it.items)
        if isinstance(it, RefV) and isinstance(s.store[it.ref], ListBox):
            return list(s.store[it.ref].items)
        if isinstance(it, ClassV) and it.ci is not None and it.ci.is_enum:
            return [self.enum_member(it.ci, m) for m in it.ci.enum_members]
        if isinstance(it, Z):
            lit = self.concrete_str(it)
            if lit is not None and len(lit) <= 16:
                return [Z(V.mk(ch), "str") for ch in lit]
        return None

    def ev_ListComp(self, e, st):
        if len(e.generators) != 1 or e.generators[0].is_async:
            raise Unsupported("nested comprehension", e)
        g = e.generators[0]
        out = []
        for (s, it) in self.ev(g.iter, st):
            if is_exc(it):
                out.append((s, it))
                continue
            items = self.concrete_iter(it, s)
            if items is None:
                raise Unsupported("comprehension over a symbolic iterable", e)
            states = [(s, [])]
            saved = {}
            for item in items:
                nxt = []
                for (s2, acc) in states:
                    if is_exc(acc):
                        nxt.append((s2, acc))
                        continue
                    for x in self.assign(g.target, item, s2, e):
                        s3 = x if not isinstance(x, tuple) else x[0]
                        keep = [(s3, True)]
                        for cond in g.ifs:
                            nk = []
                            for (s4, _) in keep:
                                for (s5, c) in self.ev(cond, s4):
                                    if is_exc(c):
                                        raise Unsupported("comprehension filter raises", e)
                                    t, f = self.branch(s5, self.truth(c, s5, e), e)
                                    if t is not None:
                                        nk.append((t, True))
                                    if f is not None:
                                        nxt.append((f, acc))
                            keep = nk
                        for (s4, _) in keep:
                            for (s5, v) in self.ev(e.elt, s4):
                                nxt.append((s5, v if is_exc(v) else acc + [v]))
                states = nxt
            for (s2, acc) in states:
                out.append((s2, acc if is_exc(acc) else s2.alloc(ListBox(acc))))
        return out

    # ================================================================ contracts at call sites
    def spec_env_fi(self):
        return self.contract_fi

    def eval_clause(self, src, st, env, node=None):
        """Evaluate a contract expression (source text) in `env` -> list of (state, z3 Bool)."""
        tree = ast.parse(src, mode="eval").body
        for n in ast.walk(tree):
            if not hasattr(n, "lineno"):
                n.lineno = getattr(node, "lineno", 0)
        saved_env, saved_fi = st.env, self.cur_fi
        self.cur_fi = self.contract_fi
        self.depth += 1
        self.pure += 1
        self.in_spec += 1
        try:
            st.env = dict(env)
            res = []
            for (s2, v) in self.ev(tree, st):
                if is_exc(v):
                    raise Unsupported("contract clause %r raises %s" % (src, v.cls), node)
                res.append((s2, self.truth(v, s2, node)))
            for (s2, _) in res:
                s2.env = dict(saved_env)
            return res
        finally:
            self.depth -= 1
            self.pure -= 1
            self.in_spec -= 1
            self.cur_fi = saved_fi
            st.env = saved_env

    def eval_clause_value(self, src, st, env, node=None):
        """Evaluate a contract expression to its (single) value in `st` without changing it (ghost definitions)."""
        tree = ast.parse(src, mode="eval").body
        for n in ast.walk(tree):
            if not hasattr(n, "lineno"):
                n.lineno = getattr(node, "lineno", 0)
        saved_env, saved_fi = st.env, self.cur_fi
        self.cur_fi = self.contract_fi
        self.pure += 1
        self.in_spec += 1
        try:
            st.env = dict(env)
            r = self.ev(tree, st)
        finally:
            self.pure -= 1
            self.in_spec -= 1
            self.cur_fi = saved_fi
            st.env = saved_env
        if len(r) != 1 or is_exc(r[0][1]):
            raise Unsupported("ghost expression %r" % src, node)
        return r[0][1]

    def check_call_pre(self, c, fi, args, kwargs, s, node):
        self.apply_contract(c, fi, args, kwargs, s, node, pre_only=True)

    def apply_contract(self, c, fi, args, kwargs, s, node, pre_only=False, from_gen=False):
        if fi.is_generator and not pre_only and not from_gen:
            # calling a generator function runs nothing: its contract applies when it is iterated
            env, pend = self.bind_args(fi, args, kwargs, s, node)
            return [(s, GenV(c, fi, (args, kwargs), node))]
        env, pend = self.bind_args(fi, args, kwargs, s, node)
        for (n, dexpr) in pend:
            saved = self.cur_fi
            self.cur_fi = fi
            try:
                r = self.ev(dexpr, s)
            finally:
                self.cur_fi = saved
            if len(r) != 1 or is_exc(r[0][1]):
                raise Unsupported("default value of %s" % n, node)
            env[n] = r[0][1]
        # K5: callee pre-conditions (type pre-conditions first)
        kwbag = None
        if fi.node.args.kwarg is not None and isinstance(env.get(fi.node.args.kwarg.arg), tuple):
            kwbag = env[fi.node.args.kwarg.arg][1]
        for pname, ann in c.params.items():
            v = env.get(pname)
            if v is None and kwbag is not None and pname.startswith("kw_"):
                v = kwbag.get(pname[3:])
            if isinstance(v, Z):
                cst, _ = self.constraint_of_annotation(ast.parse(ann, mode="eval").body, v.t)
                if cst is not None:
                    self.prove(s, cst, "K5", node, "call-pre of %s: %s is %s" % (fi.name, pname, ann), clause="param:" + pname)
        if "*" in c.params and fi.node.args.vararg is not None:
            va = env.get(fi.node.args.vararg.arg)
            if isinstance(va, PyTuple):
                for i, item in enumerate(va.items):
                    if isinstance(item, Z):
                        cst, _ = self.constraint_of_annotation(ast.parse(c.params["*"], mode="eval").body, item.t)
                        if cst is not None and not (item.hint == "str" and c.params["*"] == "str"):
                            self.prove(s, cst, "K5", node, "call-pre of %s: *args[%d] is %s" % (fi.name, i, c.params["*"]), clause="param:*")
        for r in c.requires:
            for (s2, b) in self.eval_clause(r, s, env, node):
                self.prove(s2, b, "K5", node, "call-pre of %s: %s" % (fi.name, r), clause=r)
        if pre_only:
            return []
        # result
        ret_ann = c.opts.get("returns")
        if c.opts.get("len_fn") and ret_ann:
            res = self.fresh_of_annotation(ret_ann, "ret_%s_%d" % (fi.name, len(self.obligations)), s, node)
            selfv = env.get("self")
            if isinstance(res, RefV) and isinstance(s.store[res.ref], AbsBox) and isinstance(selfv, RefV) \
                    and isinstance(s.store[selfv.ref], ObjBox) and s.store[selfv.ref].ident is not None:
                n = getattr(V, c.opts["len_fn"])(s.store[selfv.ref].ident)
                s.assume(n >= 0)
                s.store[res.ref].length = n
                if c.opts.get("result_elem_inv"):
                    s.store[res.ref].elem_inv = c.opts["result_elem_inv"]
                    s.store[res.ref].owner = selfv.ref
        elif c.opts.get("pure") and not c.pure_fn:
            # deterministic, effect-free callee: result is an uninterpreted function of its arguments
            names_ = [a.arg for a in fi.node.args.args]
            zs = [self.to_z(env[n_], s, node).t for n_ in names_]
            fn = z3.Function("pure_" + fi.qualname.replace(".", "_"), *([Val] * len(zs) + [Val]))
            res = Z(fn(*zs))
            if ret_ann:
                cst, h = self.constraint_of_annotation(ast.parse(ret_ann, mode="eval").body, res.t)
                if cst is not None:
                    s.assume(cst)
                res.hint = h
        elif ret_ann and not c.pure_fn:
            res = self.fresh_of_annotation(ret_ann, "ret_%s_%d" % (fi.name, len(self.obligations)), s, node)
        elif c.pure_fn:
            fn = getattr(V, c.pure_fn)
            zs = [self.to_z(env[a.arg], s, node).t for a in fi.node.args.args if a.arg != "self"]
            res = Z(fn(*zs))
        if not ret_ann and not c.pure_fn and not c.opts.get("pure"):
            res = Z(V.fresh("ret_" + fi.name))
        out = []
        states = [s]
        env2 = dict(env)
        if kwbag is not None:
            for pname in c.params:
                if pname.startswith("kw_"):
                    env2[pname] = kwbag.get(pname[3:], Z(V.VNone))     # keyword not passed: the callee sees its default
            for k_, v_ in kwbag.items():
                env2["kw_" + k_] = v_
        # the callee's ghost names are evaluated in the pre-state of the call
        for gname, gexpr in c.ghost.items():
            saved_env, saved_fi = s.env, self.cur_fi
            self.cur_fi = self.contract_fi
            self.pure += 1
            self.in_spec += 1
            try:
                s.env = dict(env2)
                r = self.ev(ast.parse(gexpr, mode="eval").body, s)
            finally:
                self.pure -= 1
                self.in_spec -= 1
                self.cur_fi = saved_fi
                s.env = saved_env
            if len(r) != 1 or is_exc(r[0][1]):
                raise Unsupported("ghost %s of %s at a call site" % (gname, c.name), node)
            env2[gname] = r[0][1]
        # frame: objects the callee may modify are havoced in the caller's view
        for pname in (c.modifies or []):
            if pname == "*":
                s.heap_havoc("call_" + fi.name)
                continue
            v = env.get(pname)
            if isinstance(v, Z):
                s.heap_write(V.get_rid(v.t), "mod_" + pname)
            if isinstance(v, RefV):
                box = s.store[v.ref]
                if isinstance(box, SeqBox):
                    box.term = V.fresh("mod_" + pname, V.SeqStr if box.elem == "str" else V.SeqVal)
                elif isinstance(box, ListBox):
                    s.store[v.ref] = SeqBox(V.fresh("mod_" + pname, V.SeqStr if box.elem == "str" else V.SeqVal), box.elem, box.kind)
                elif isinstance(box, AbsBox):
                    ln = V.fresh("mod_%s_len" % pname, V.I)
                    s.assume(ln >= 0)
                    box.length = ln
                    box.version = getattr(box, "version", 0) + 1
        env2["result"] = res
        callee_locals = assigned_names(fi.node.body)[0] - {a_.arg for a_ in fi.node.args.args + fi.node.args.kwonlyargs} - {"result"}
        for en in c.ensures:
            used = {n_.id for n_ in ast.walk(ast.parse(en, mode="eval")) if isinstance(n_, ast.Name)}
            if fi.is_generator and used & {"out", "looped"}:
                continue          # a clause over the whole sequence of yields: the consuming loop sees one abstract element at a time
            if used & callee_locals:
                continue          # a clause about the callee's own locals at its return point: checked against its body, no fact for callers
            if used & {"events", "called", "called_after_loops", "call_event", "yield_count"}:
                continue          # a clause about the callee's own trace of contracted calls: the caller's trace is another one
            nxt = []
            for st in states:
                for (s2, b) in self.eval_clause(en, st, env2, node):
                    s2.assume(b)
                    nxt.append(s2)
            states = nxt
        if c.opts.get("elem_fact"):
            ef = c.opts["elem_fact"]
            target = env.get(ef["param"])
            if isinstance(target, Z):
                for st in states:
                    e3 = dict(env2)
                    if kwbag is not None:
                        for k_, v_ in kwbag.items():
                            e3["kw_" + k_] = v_
                    for d_ in fi.node.body:
                        pass
                    st.flags = dict(st.flags)
                    st.flags["elem_facts"] = tuple(st.flags.get("elem_facts", ())) + ((V.get_rid(target.t), ef["fact"], e3),)
        if c.opts.get("event"):
            for st in states:
                saved_env, saved_fi = st.env, self.cur_fi
                self.cur_fi = self.contract_fi
                self.pure += 1
                self.in_spec += 1
                try:
                    st.env = dict(env2)
                    r = self.ev(ast.parse(c.opts["event"], mode="eval").body, st)
                finally:
                    self.pure -= 1
                    self.in_spec -= 1
                    self.cur_fi = saved_fi
                    st.env = saved_env
                if len(r) != 1 or is_exc(r[0][1]):
                    raise Unsupported("event expression of %s" % c.name, node)
                st.ghost = dict(st.ghost)
                st.ghost["events"] = list(st.ghost.get("events", [])) + [r[0][1]]
        if not (c.opts.get("noreturn") and not self.in_spec):
            for st in states:
                out.append((st, res))
        # (a `noreturn` callee -- one that always ends in sys.exit -- has exceptional outcomes only)
        for cls in ([] if self.in_spec else c.raises):
            # (inside contract text a call denotes its value where it has one: no exceptional outcome is forked)
            sb = s.fork()
            out.append((sb, Exc(cls, self.origin(node), "raised by callee %s (its contract allows it)" % fi.name)))
        if c.assumed:
            self.assumptions.add("assumed contract: %s (%s)" % (c.target, c.notes or "not verified against its body"))
        return out

    # ================================================================ loops
    def loop_key(self, stmt):
        if isinstance(stmt, ast.For):
            tgt = ast.unparse(stmt.target)
            if isinstance(stmt.target, ast.Tuple) and tgt.startswith("(") and tgt.endswith(")"):
                tgt = tgt[1:-1]
            return "for %s in %s" % (tgt, ast.unparse(stmt.iter))
        return "while %s" % ast.unparse(stmt.test)

    def st_For(self, stmt, st):
        if stmt.orelse:
            raise Unsupported("for/else", stmt)
        out = []
        iter_expr = stmt.iter
        if isinstance(iter_expr, ast.Call) and isinstance(iter_expr.func, ast.Name) and iter_expr.func.id == "list" \
                and len(iter_expr.args) == 1 and not iter_expr.keywords and "list" not in st.env:
            inner = iter_expr.args[0]
            is_view = isinstance(inner, ast.Call) and isinstance(inner.func, ast.Attribute) and inner.func.attr in ("items", "keys", "values") \
                and not inner.args and not inner.keywords and isinstance(inner.func.value, (ast.Name, ast.Attribute))
            if isinstance(inner, (ast.Name, ast.Attribute)) or is_view:
                # `for x in list(X)` over a container or a dict view: the loop runs over a snapshot taken at loop entry --
                # which is how every iterable is modelled here (count and elements are fixed in the entry state)
                iter_expr = inner
        for (s, it) in self.ev_iter(iter_expr, st):
            if is_exc(it):
                out.append((s, ("raise", it)))
                continue
            if isinstance(it, GenV):
                # iterating a contracted generator: its pre-conditions are checked here, the exceptions its
                # contract allows may surface during the iteration, its elements are abstract
                for (s2, r) in self.apply_contract(it.contract, it.fi, it.env[0], it.env[1], s, it.node, from_gen=True):
                    if is_exc(r):
                        out.append((s2, ("raise", r)))
                    else:
                        out.extend(self.loop_by_invariant(stmt, ("gen", [it]), s2))
                continue
            items = None if isinstance(it, tuple) else self.concrete_iter(it, s)
            if items is not None:
                out.extend(self.unroll(stmt, items, s))
            else:
                out.extend(self.loop_by_invariant(stmt, it, s))
        return out

    def st_While(self, stmt, st):
        """`while cond: body` by invariant: at an arbitrary iteration the variables the body assigns are arbitrary values
        satisfying the written invariants (and the type-stability candidates that survive); the condition holds, the body
        runs, the invariants are re-proved.  After the loop: the invariants and the NEGATED condition.  Termination is the
        stated `decreases` clause (not machine-checked; listed as an assumption) -- without one the function is undecided."""
        if stmt.orelse:
            raise Unsupported("while/else", stmt)
        key = self.loop_key(stmt)
        spec = self.contract.loops.get(key, {}) if self.cur_fi is self.fi else {}
        if self.cur_fi is self.fi:
            self.loops_seen.add(key)
        if not spec.get("decreases"):
            raise Unsupported("while loop without a decreases clause", stmt)
        self.assumptions.add("termination of `%s` in %s: decreases %s (stated, not machine-checked)" % (key, self.cur_fi.name, spec["decreases"]))
        invs = list(spec.get("invariant", []))
        names, attrs = assigned_names(stmt.body)
        self.loop_count += 1
        tag = "W%d" % self.loop_count
        for inv in invs:
            for (s2, b) in self.eval_clause(inv, st.fork(), st.env, stmt):
                self.prove(s2, b, "K4", stmt, "invariant holds at loop entry: %s" % inv, clause="init:" + inv)
        results = []
        dropped = set()
        havoc_heap = False               # set when the body is seen to write the heap: the loop is then redone
        while True:
            mark_o, mark_p = len(self.obligations), len(self.pending)
            body = st.fork()
            if havoc_heap:
                body.heap_havoc(tag)
            heap_written = False
            cands = [(n, mk) for (n, mk) in self.havoc(body, names, attrs, tag) if n not in dropped]
            bad = set()
            for (n, mk) in cands:
                body.assume(mk(body.env[n].t))
                ev = st.env.get(n)
                if isinstance(ev, Z) and self.solver.check(st.pc + [z3.Not(mk(ev.t))], timeout_ms=2000)[0] != "unsat":
                    bad.add(n)
            states = [body]
            for inv in invs:
                states = [s2 for b0 in states for (s2, b) in self.eval_clause(inv, b0, b0.env, stmt) if not s2.assume(b)]
            iter_results = []
            loop_tags = set()
            n_ev0 = len(st.ghost.get("events", []))
            for b0 in states:
                for (s1, c) in self.ev(stmt.test, b0):
                    if is_exc(c):
                        iter_results.append((s1, ("raise", c)))
                        continue
                    t, _f = self.branch(s1, self.truth(c, s1, stmt), stmt)
                    if t is None:
                        continue
                    sig0 = t.heap_sig()
                    for (s2, oc) in self.exec_block(stmt.body, t):
                        if s2.heap_sig() != sig0:
                            heap_written = True
                        loop_tags |= {self.concrete_str(ev.items[0]) for ev in s2.ghost.get("events", [])[n_ev0:]
                                      if isinstance(ev, PyTuple) and ev.items} | set(s2.ghost.get("lost_tags", ()))
                        if oc is None or oc[0] == "continue":
                            for (n, mk) in cands:
                                v = s2.env.get(n)
                                if not (isinstance(v, Z) and self.solver.check(s2.pc + [z3.Not(mk(v.t))], timeout_ms=2000)[0] == "unsat"):
                                    bad.add(n)
                            for inv in invs:
                                for (s3, b) in self.eval_clause(inv, s2.fork(), s2.env, stmt):
                                    self.prove(s3, b, "K4", stmt, "invariant preserved by the loop body: %s" % inv, clause="step:" + inv)
                        elif oc[0] == "break":
                            iter_results.append((s2, None))
                        else:
                            iter_results.append((s2, oc))
            if bad - dropped or (heap_written and not havoc_heap):
                dropped |= bad
                havoc_heap = havoc_heap or heap_written
                del self.obligations[mark_o:]
                del self.pending[mark_p:]
                continue
            results.extend(iter_results)
            break
        fin = st.fork()
        # calls recorded by EARLIER iterations are not in any state's event list: what called()/call_event() would say
        # about those tags after the loop is unknown (asking makes the function undecided, never a wrong count)
        for (r_s, _oc) in results + [(fin, None)]:
            r_s.ghost = dict(r_s.ghost)
            lt = dict(st.ghost.get("lost_tags", {}))
            for t_ in loop_tags:
                lt[t_] = len(st.ghost.get("events", []))       # (what this state lists from that position on is later)
            r_s.ghost["lost_tags"] = lt
        if havoc_heap:
            fin.heap_havoc(tag + "x")
        for (n, mk) in self.havoc(fin, names, attrs, tag + "x"):
            if n not in dropped and isinstance(fin.env.get(n), Z):
                fin.assume(mk(fin.env[n].t))
        fins = [fin]
        for inv in invs:
            fins = [s2 for f0 in fins for (s2, b) in self.eval_clause(inv, f0, f0.env, stmt) if not s2.assume(b)]
        for f0 in fins:
            for (s1, c) in self.ev(stmt.test, f0):
                if is_exc(c):
                    results.append((s1, ("raise", c)))
                    continue
                _t, f = self.branch(s1, self.truth(c, s1, stmt), stmt)
                if f is not None:
                    results.append((f, None))
        return results

    def ev_iter(self, e, st):
        """Evaluate a loop iterable; enumerate()/range()/reversed()/.items() become descriptors."""
        if isinstance(e, ast.Call) and isinstance(e.func, ast.Name) and e.func.id == "list" and len(e.args) == 1 \
                and not e.keywords and "list" not in st.env and isinstance(e.args[0], (ast.Name, ast.Attribute)):
            # `list(X)` as (part of) a loop's iterable, e.g. enumerate(list(data)): a snapshot taken at loop entry --
            # which is how every iterable is modelled here (count and elements are fixed in the entry state)
            return self.ev_iter(e.args[0], st)
        if isinstance(e, ast.Call) and isinstance(e.func, ast.Name) and e.func.id in ("enumerate", "range", "reversed") \
                and e.func.id not in st.env:
            if e.func.id == "reversed" and len(e.args) == 1:
                return [(s, v if is_exc(v) else ("reversed", [v])) for (s, v) in self.ev_iter(e.args[0], st)]
            if e.func.id == "enumerate":
                out = []
                for (s, v) in self.ev_iter(e.args[0], st):
                    if is_exc(v):
                        out.append((s, v))
                        continue
                    for (s2, rest) in self.ev_list(e.args[1:], s):
                        out.append((s2, rest if is_exc(rest) else ("enumerate", [v] + rest)))
                return out
            out = []
            for (s, vals) in self.ev_list(e.args, st):
                out.append((s, vals if is_exc(vals) else (e.func.id, vals)))
            return out
        if isinstance(e, ast.Call) and isinstance(e.func, ast.Attribute) and e.func.attr in ("items", "keys", "values") and not e.args:
            out = []
            for (s, v) in self.ev(e.func.value, st):
                out.append((s, v if is_exc(v) else ("dict." + e.func.attr, [v])))
            return out
        return self.ev(e, st)

    def iter_desc(self, it, s, stmt, tag):
        """-> (count: z3 Int, elem: k -> SV, facts: [z3 Bool]) for a symbolic iterable (fixed at loop entry)."""
        if isinstance(it, tuple):
            kind, a = it
            if kind == "enumerate":
                n, el, facts = self.iter_desc(a[0], s, stmt, tag)
                start = V.to_int(a[1].t) if len(a) > 1 else z3.IntVal(0)
                return n, (lambda k, s_: PyTuple([Z(V.VInt(k + start), "int"), el(k, s_)])), facts
            if kind == "range":
                if len(a) == 3:
                    raise Unsupported("range with step", stmt)
                lo = V.to_int(a[0].t) if len(a) >= 2 else z3.IntVal(0)
                hi = V.to_int(a[1].t) if len(a) >= 2 else V.to_int(a[0].t)
                return z3.If(hi > lo, hi - lo, 0), (lambda k, s_: Z(V.VInt(lo + k), "int")), []
            if kind == "reversed":
                n, el, facts = self.iter_desc(a[0], s, stmt, tag)
                return n, (lambda k, s_: el(n - 1 - k, s_)), facts
            if kind == "gen":
                g = a[0]
                n = z3.Int("gen_len!%s" % tag)
                ann = g.contract.opts.get("yields")
                return n, (lambda k, s_: self.fresh_of_annotation(ann, "yielded_%s" % tag, s_, stmt)), [n >= 0]
            if kind.startswith("dict."):
                d = a[0]
                if not isinstance(d, Z):
                    raise Unsupported("%s of a local object" % kind, stmt)
                rid = V.get_rid(d.t)
                cid = s.sid(rid)           # the contents at loop entry (A-ITER: the body does not resize what it iterates)
                n = V.map_len(cid)
                what = kind[5:]

                dhint = d.hint if isinstance(d.hint, tuple) and d.hint and d.hint[0] == "dict" else None

                def el(k, s_, rid=cid, what=what, dhint=dhint):
                    key = V.map_key_at(rid, k)
                    s_.assume(V.map_has(rid, key))
                    if dhint is not None:
                        for src_, term_ in ((dhint[1], key), (dhint[2], V.map_get(rid, key))):
                            c_, _h = self.constraint_of_annotation(ast.parse(src_, mode="eval").body, term_)
                            if c_ is not None:
                                s_.assume(c_)
                        self.assumptions.add("entries of a parameter annotated Dict[%s, %s] have those types" % (dhint[1], dhint[2]))
                    if what == "keys":
                        return Z(key)
                    if what == "values":
                        return Z(V.map_get(rid, key))
                    return PyTuple([Z(key), Z(V.map_get(rid, key))])
                need = z3.And(V.is_Ref(d.t), V.kind_of(rid) == V.K_DICT)
                return n, el, [n >= 0, ("need", need, "AttributeError", ".%s() of a dict" % what)]
            raise Unsupported("iterable %s" % kind, stmt)
        if isinstance(it, Z):
            t = it.t
            if self.def_str(it, s):
                sv = V.get_s(t)
                return z3.Length(sv), (lambda k, s_: Z(V.VStr(z3.SubString(sv, k, 1)), "str")), []
            rid = V.get_rid(t)
            cid = s.sid(rid)               # the contents at loop entry (A-ITER)
            isdict = V.kind_of(rid) == V.K_DICT
            n = z3.If(isdict, V.map_len(cid), V.seq_len(cid))
            ok = z3.Or(V.is_Str(t), z3.And(V.is_Ref(t), z3.Or(
                [V.kind_of(rid) == V.kind_id(k) for k in ("list", "dict", "set", "tuple", "CommentedSet", "deque")])))

            ehint = ("lib", "mergetuple") if it.hint == ("lib", "mergelist") else None

            def el(k, s_, t=t, rid=cid, isdict=isdict, ehint=ehint):
                zv = Z(z3.If(V.is_Str(t), V.VStr(z3.SubString(V.get_s(t), k, 1)),
                             z3.If(isdict, V.map_key_at(rid, k), V.seq_item(rid, k))), ehint)
                self.assume_elem_facts(t, zv, s_, stmt)
                return zv
            n2 = z3.If(V.is_Str(t), z3.Length(V.get_s(t)), n)
            return n2, el, [V.seq_len(cid) >= 0, V.map_len(cid) >= 0, ("need", ok, "TypeError", "iteration over an iterable value")]
        if isinstance(it, RefV):
            box = s.store[it.ref]
            if isinstance(box, SeqBox):
                term = box.term
                if box.elem == "str":
                    return z3.Length(term), (lambda k, s_: Z(V.VStr(term[k]), "str")), []
                ann = getattr(box, "elem_ann", None)

                def el(k, s_, term=term, ann=ann):
                    z = Z(term[k])
                    if ann is not None:
                        c, h = self.constraint_of_annotation(ann, z.t)
                        if c is not None:
                            s_.assume(c)
                        z.hint = h
                    return z
                return z3.Length(term), el, []
            if isinstance(box, AbsBox) and box.length is not None:
                ann = box.elem_ann          # None: elements of an unknown type
                return box.length, (lambda k, s_: self.fresh_of_annotation(ann, "elem_%s" % tag, s_, stmt)), []
        raise Unsupported("iteration over %s" % type(it).__name__, stmt)

    def unroll(self, stmt, items, st):
        results = []
        states = [st]
        for item in items:
            nxt = []
            for s in states:
                for x in self.assign(stmt.target, item, s, stmt):
                    if isinstance(x, tuple):
                        results.append(x)
                        continue
                    for (s2, oc) in self.exec_block(stmt.body, x):
                        if oc is None or oc[0] == "continue":
                            nxt.append(s2)
                        elif oc[0] == "break":
                            results.append((s2, None))
                        else:
                            results.append((s2, oc))
            states = nxt
        results.extend((s, None) for s in states)
        return results

    def havoc(self, st, names, attrs, tag):
        """Replace every variable assigned in the loop by a fresh value of the same shape."""
        cands = []     # (name, z3 Bool constraint) type-stability candidates from annotations
        for n in sorted(names):
            if n not in st.env:
                continue
            v = st.env[n]
            if isinstance(v, Z):
                t = z3.Const("loop_%s!%s" % (n, tag), Val)
                ann = st.flags.get(("ann", n))
                c, hint = self.constraint_of_annotation(ann, t) if ann is not None else (None, None)
                if c is not None:
                    cands.append((n, (lambda term, _a=ann: self.constraint_of_annotation(_a, term)[0])))
                else:
                    # unannotated: candidate "keeps the definite type it has at loop entry" (Houdini: kept only if inductive)
                    for tn, tester in (("str", V.is_Str), ("int", V.is_Int), ("bool", V.is_Bool), ("float", V.is_Float)):
                        if v.hint == tn or z3.is_true(st.simp(tester(v.t))):
                            cands.append((n, tester))
                            hint = tn
                            break
                st.env[n] = Z(t, hint if hint is not None else None)
            elif isinstance(v, RefV):
                box = st.store[v.ref]
                if isinstance(box, ListBox):
                    if box.elem == "str":
                        st.store[v.ref] = SeqBox(z3.Const("loop_%s!%s" % (n, tag), V.SeqStr), "str", box.kind)
                    else:
                        ln = z3.Int("loop_%s_len!%s" % (n, tag))
                        st.assume(ln >= 0)
                        st.store[v.ref] = AbsBox(box.kind, ln, None)
                elif isinstance(box, SeqBox):
                    st.store[v.ref] = SeqBox(z3.Const("loop_%s!%s" % (n, tag), V.SeqStr if box.elem == "str" else V.SeqVal), box.elem, box.kind, box.elem_ann)
                elif isinstance(box, AbsBox):
                    ln = z3.Int("loop_%s_len!%s" % (n, tag))
                    st.assume(ln >= 0)
                    st.store[v.ref] = AbsBox(box.kind, ln, box.elem_ann)
                elif isinstance(box, ObjBox):
                    # an object the loop body mutates (method calls on it): an arbitrary instance of the same class
                    # at the loop head; its fields are re-created lazily (typed by assume_fields where named)
                    nb = ObjBox(box.cls, {}, symbolic=True, ident=z3.Int("loop_%s_id!%s" % (n, tag)), name=n)
                    st.store[v.ref] = nb
            elif isinstance(v, PyTuple):
                raise Unsupported("loop reassigns tuple variable %s" % n)
            else:
                raise Unsupported("loop reassigns %s (%s)" % (n, type(v).__name__))
        for (obj, attr) in sorted(attrs):
            v = st.env.get(obj)
            if isinstance(v, RefV) and isinstance(st.store[v.ref], ObjBox):
                box = st.store[v.ref]
                t = z3.Const("loop_%s_%s!%s" % (obj, attr, tag), Val)
                box.fields[attr] = Z(t)
                over = self.contract.opts.get("heap_fields", {}).get("%s.%s" % (box.cls, attr))
                if over:
                    # a field whose type the contract states as a class invariant keeps it across iterations
                    cst, h = self.constraint_of_annotation(ast.parse(over, mode="eval").body, t)
                    if cst is not None:
                        st.assume(cst)
                        box.fields[attr] = Z(t, h)
                        self.assumptions.add("class invariant: %s.%s holds a value of its stated type %s" % (box.cls, attr, over))
        return cands

    def list_elem_ok(self, st, names, stmt):
        """Entry check of the List[str] element-type invariant for lists mutated in the loop."""
        for n in sorted(names):
            v = st.env.get(n)
            if isinstance(v, RefV) and isinstance(st.store[v.ref], ListBox) and st.store[v.ref].elem == "str":
                for it in st.store[v.ref].items:
                    if not isinstance(it, Z):
                        raise Unsupported("non-scalar in List[str]", stmt)
                    self.prove(st, V.is_Str(it.t), "K4", stmt, "List[str] %s holds str at loop entry" % n, clause="elem-type")

    def loop_by_invariant(self, stmt, it, st):
        key = self.loop_key(stmt)
        spec = self.contract.loops.get(key, {}) if self.cur_fi is self.fi else {}
        if self.cur_fi is self.fi:
            self.loops_seen.add(key)
        invs = list(spec.get("invariant", []))
        body_ens = list(spec.get("body_ensures", []))
        body_names, body_attrs = assigned_names(stmt.body)
        tgt_names, _ = assigned_names([ast.Assign(targets=[stmt.target], value=ast.Constant(value=None))])
        names = body_names | tgt_names
        # K6: the body must not resize what it iterates over
        itname = ast.unparse(stmt.iter)
        for n in body_names:
            if n == itname or itname.startswith("enumerate(%s)" % n):
                raise Unsupported("loop body mutates its iterable %s" % n, stmt)
        self.list_elem_ok(st, names, stmt)
        self.loop_count += 1
        tag = "L%d" % self.loop_count
        # the iterable is fixed at loop entry
        count, elem, facts = self.iter_desc(it, st, stmt, tag)
        for f in facts:
            if isinstance(f, tuple) and f[0] == "need":
                outs = self.need(st, f[1], f[2], stmt, f[3])
                bad = [(s_, x) for (s_, x) in outs if x is not None]
                if bad:
                    good = [s_ for (s_, x) in outs if x is None]
                    res = [(s_, ("raise", x)) for (s_, x) in bad]
                    if not good:
                        return res
                    rest = self.loop_by_invariant_tail(stmt, it, good[0], key, spec, invs, body_ens, names, body_attrs, tag, count, elem)
                    return res + rest
            else:
                st.assume(f)
        return self.loop_by_invariant_tail(stmt, it, st, key, spec, invs, body_ens, names, body_attrs, tag, count, elem)

    def loop_by_invariant_tail(self, stmt, it, st, key, spec, invs, body_ens, names, body_attrs, tag, count, elem):
        entry_env = dict(st.env)
        if any(isinstance(x, (ast.Yield, ast.YieldFrom)) for b_ in stmt.body for x in ast.walk(b_)):
            self.assumptions.add("A-ITER: a loop runs over its iterable as it is at loop entry (count and elements fixed); a consumer that "
                                 "changes the container while the generator is suspended inside the loop is not modelled (exact where the "
                                 "source iterates list(...) snapshots; otherwise covered by the bounded stand-in only)")
        # loop-entry ghosts: values named in invariants, evaluated once in the state before the first iteration
        loop_ghost = {}
        for gname, gexpr in (spec.get("ghost") or {}).items():
            loop_ghost[gname] = self.eval_clause_value(gexpr, st, st.env, stmt)

        def with_iters(env, val):
            e2 = dict(env)
            e2["iters"] = Z(V.VInt(val), "int")
            e2.update(loop_ghost)
            return e2
        sole = bool(spec.get("sole_yielder"))
        if sole:
            # K2: on a path through this loop, every value the generator yields is yielded by one of its iterations
            # (what an iteration yields is pinned down by the per-iteration post-conditions)
            # (inside the body of an enclosing loop the output so far is that loop's abstraction marker: nothing concrete)
            self.prove(st, T(all(v == "havoc" and _l in st.flags.get("loop_stack", ()) for (v, _l) in st.out)), "K2", stmt,
                       "nothing is yielded before the loop %r (declared the only yielder on its paths)" % key, clause="sole_yielder:entry")
            st = st.fork()
            st.out = []
            st.flags = dict(st.flags)
            st.flags["looped"] = tuple(st.flags.get("looped", ())) + (key,)
        # K4 (establish)
        for inv in invs:
            for (s2, b) in self.eval_clause(inv, st.fork(), with_iters(st.env, z3.IntVal(0)), stmt):
                self.prove(s2, b, "K4", stmt, "invariant holds at loop entry: %s" % inv, clause="init:" + inv)
        dropped = set()
        new_names = sorted(n for n in names if n not in st.env)
        new_types = {n: {"str": V.is_Str, "int": V.is_Int, "bool": V.is_Bool} for n in new_names}
        k = z3.Int("loop_k!%s" % tag)
        has_yield = any(isinstance(x, ast.Yield) for b_ in stmt.body for x in ast.walk(b_))
        # heap frame of the loop: a generator that may write the heap runs between iterations; a body that writes the
        # heap is detected on its first symbolic run, and the loop is then redone with the heap havoced at its head
        havoc_heap = isinstance(it, tuple) and it[0] == "gen" and "*" in (it[1][0].contract.modifies or [])
        while True:
            mark_obl, mark_pend = len(self.obligations), len(self.pending)
            body = st.fork()
            if havoc_heap:
                body.heap_havoc(tag)
            heap_written = False
            cands = self.havoc(body, names, body_attrs, tag)
            cands = [(n, a_) for (n, a_) in cands if n not in dropped]
            for n in dropped:
                if isinstance(body.env.get(n), Z):
                    body.env[n] = Z(body.env[n].t)          # no static hint for a variable whose type is not stable
            if st.out or has_yield or sole:
                body.out = [("havoc", tag)]
            body.flags = dict(body.flags)
            body.flags["loop_stack"] = tuple(body.flags.get("loop_stack", ())) + (tag,)       # the loops this body is nested in
            body.ghost = dict(body.ghost)
            body.ghost["events"] = []              # inside the body `events` / called() speak of this iteration only
            body.ghost["lost_tags"] = {}
            loop_tags = set()
            for (n, mk) in cands:
                body.assume(mk(body.env[n].t))
            # entry check of the candidates (drop on failure: annotations are hints, not facts)
            bad = set()
            for (n, mk) in cands:
                ev = entry_env.get(n)
                if isinstance(ev, Z):
                    c = mk(ev.t)
                    r, _m = self.solver.check(st.pc + [z3.Not(c)])
                    if r != "unsat":
                        bad.add(n)
            body.assume(z3.And(k >= 0, k < count))
            states = [body]
            for inv in invs:
                nxt = []
                for b0 in states:
                    for (s2, b) in self.eval_clause(inv, b0, with_iters(b0.env, k), stmt):
                        s2.assume(b)
                        nxt.append(s2)
                states = nxt
            results = []
            for b0 in states:
                item = elem(k, b0)
                bound = self.assign(stmt.target, item, b0, stmt)
                for x in bound:
                    if isinstance(x, tuple):
                        results.append(x)
                        continue
                    for ea in spec.get("elem_assume", []):
                        # a stated fact about the loop variable that no contract in reach can carry (the element type of
                        # a library object's list attribute): assumed, and listed as an assumption
                        for (x2, b) in self.eval_clause(ea, x, x.env, stmt):
                            x2.assume(b)
                        self.assumptions.add("loop %r: assumed of every element: %s" % (key, ea))
                    if not self.solver.feasible(x.pc):
                        continue
                    x.flags["iter_env"] = dict(x.env)
                    n_out0 = len(x.out)
                    sig0 = x.heap_sig()
                    for (s2, oc) in self.exec_block(stmt.body, x):
                        ends_iteration = oc is None or oc[0] == "continue"
                        if s2.heap_sig() != sig0:
                            heap_written = True
                        loop_tags |= self.event_tags(s2) | set(s2.ghost.get("lost_tags", ()))
                        if ends_iteration or oc[0] in ("break", "return"):
                            # per-iteration post-conditions over what this iteration yielded / which calls it made
                            if body_ens:
                                env_e = with_iters(s2.env, k)
                                for nm, val in x.flags["iter_env"].items():
                                    env_e.setdefault(nm, val)
                                    env_e["pre_" + nm] = val          # the variable's value when the iteration began
                                env_e["yielded"] = PyTuple([v for (v, _l) in s2.out[n_out0:]])
                                env_e["events"] = PyTuple(list(s2.ghost.get("events", [])))
                                env_e["exited"] = Z(V.mk(not ends_iteration), "bool")
                                env_e["returned"] = oc[1] if (oc is not None and oc[0] == "return" and oc[1] is not None) else Z(V.VNone)
                                for be in body_ens:
                                    for (s3, b) in self.eval_clause(be, s2.fork(), env_e, stmt):
                                        _ob = self.prove(s3, b, "K2", stmt, "iteration post-condition: %s" % be, clause="iter:" + be)
                        if ends_iteration:
                            for n in new_names:
                                v = s2.env.get(n)
                                for tn in list(new_types[n]):
                                    # (a heuristic for the variable's type after the loop: a short budget, unknown = not stable)
                                    if not (isinstance(v, Z) and (v.hint == tn or self.solver.check(s2.pc + [z3.Not(new_types[n][tn](v.t))], timeout_ms=1000)[0] == "unsat")):
                                        del new_types[n][tn]
                            # K4 (preserve) + candidate type-stability
                            for (n, mk) in cands:
                                v = s2.env.get(n)
                                if isinstance(v, Z):
                                    c = mk(v.t)
                                    r, _m = self.solver.check(s2.pc + [z3.Not(c)])
                                    if r != "unsat":
                                        bad.add(n)
                                else:
                                    bad.add(n)
                            for inv in invs:
                                for (s3, b) in self.eval_clause(inv, s2.fork(), with_iters(s2.env, k + 1), stmt):
                                    self.prove(s3, b, "K4", stmt, "invariant preserved by the loop body: %s" % inv, clause="step:" + inv)
                        elif oc[0] == "break":
                            self.leave_loop_events(s2, st)
                            if sole:
                                s2.out = [("havoc", tag)]       # this iteration's yields were judged by the clauses above
                            results.append((s2, None))
                        else:
                            self.leave_loop_events(s2, st)
                            if sole and oc[0] == "return":
                                s2.out = [("havoc", tag)]
                            results.append((s2, oc))
            if bad - dropped:
                # Houdini: drop the failing annotation-derived candidates and redo the loop
                dropped |= bad
                del self.obligations[mark_obl:]
                del self.pending[mark_pend:]
                self.notes.append("loop %r: annotation-derived type invariant dropped for %s" % (key, sorted(bad)))
                continue
            if heap_written and not havoc_heap:
                havoc_heap = True
                del self.obligations[mark_obl:]
                del self.pending[mark_pend:]
                self.notes.append("loop %r: the body writes the heap; container contents are havoced at the loop head" % key)
                continue
            break
        # state after the loop: every element was visited (iters == count)
        later_reads = self.names_read_after(stmt)
        need_nonempty = [n for n in new_names if n in later_reads]
        if need_nonempty:
            # a variable first bound inside the loop is read afterwards: the loop must run at least once
            self.prove(st, count > 0, "K1", stmt, "loop runs at least once (%s is first bound inside it and read later)" % ", ".join(need_nonempty), clause="UnboundLocalError")
        fin = st.fork()
        # calls recorded by EARLIER iterations are not in any state's event list: what called()/call_event() would say
        # about those tags after the loop is unknown (asking makes the function undecided, never a wrong count)
        for (r_s, _oc) in results + [(fin, None)]:
            r_s.ghost = dict(r_s.ghost)
            lt = dict(st.ghost.get("lost_tags", {}))
            for t_ in loop_tags:
                lt[t_] = len(st.ghost.get("events", []))       # (what this state lists from that position on is later)
            r_s.ghost["lost_tags"] = lt
        if havoc_heap:
            fin.heap_havoc(tag + "x")
        fin_cands = self.havoc(fin, names, body_attrs, tag + "x")
        for (n, mk) in fin_cands:
            if n not in dropped and isinstance(fin.env.get(n), Z):
                fin.assume(mk(fin.env[n].t))
            elif isinstance(fin.env.get(n), Z):
                fin.env[n] = Z(fin.env[n].t)
        if st.out or has_yield or sole:
            fin.out = [("havoc", tag)]
        fins = [fin]
        for inv in invs:
            nxt = []
            for f0 in fins:
                for (s2, b) in self.eval_clause(inv, f0, with_iters(f0.env, count), stmt):
                    s2.assume(b)
                    nxt.append(s2)
            fins = nxt
        for f0 in fins:
            if isinstance(it, tuple) and it[0] == "gen" and f0.ghost.get("events"):
                # the generator consumed by this loop ran to its end: it yielded `count` values
                f0.ghost = dict(f0.ghost)
                gc = dict(f0.ghost.get("gen_counts", {}))
                gc[len(f0.ghost["events"]) - 1] = count
                f0.ghost["gen_counts"] = gc
            for n in new_names:
                t = z3.Const("loop_%s!%sx" % (n, tag), Val)
                hint = None
                for tn, tester in new_types[n].items():
                    f0.assume(tester(t))
                    hint = tn
                f0.env[n] = Z(t, hint)
            results.append((f0, None))
        return results

    def names_read_after(self, loop_stmt):
        """Names that may be read after this loop before being re-bound: loads in the statements that follow
        the loop in its own block and in every enclosing block (a whole enclosing loop counts, since the next
        iteration follows), minus names that a following `for` re-binds as its target."""
        following = []

        def visit(stmts, enclosing_loops):
            for i, st in enumerate(stmts):
                if st is loop_stmt:
                    following.extend(stmts[i + 1:])
                    following.extend(enclosing_loops)
                    return True
                for field in ("body", "orelse", "finalbody"):
                    sub = getattr(st, field, None)
                    if isinstance(sub, list) and sub and isinstance(sub[0], ast.stmt):
                        enc = enclosing_loops + ([st] if isinstance(st, (ast.For, ast.While)) else [])
                        if visit(sub, enc):
                            if not isinstance(st, (ast.For, ast.While)):
                                following.extend(stmts[i + 1:])
                            else:
                                following.extend(stmts[i + 1:])
                            return True
                for h in getattr(st, "handlers", []) or []:
                    if visit(h.body, enclosing_loops):
                        following.extend(stmts[i + 1:])
                        return True
            return False
        visit(self.cur_fi.node.body, [])
        reads, rebound = set(), set()
        first = {}
        inside = {id(x) for x in ast.walk(loop_stmt)}
        for st in following:
            if st is loop_stmt:
                continue
            for n in ast.walk(st):
                if isinstance(n, ast.Name) and id(n) not in inside:
                    pos = (n.lineno, n.col_offset)
                    # a for-target is bound before its loop body reads it; an assignment's target after its value
                    if isinstance(n.ctx, ast.Load):
                        reads.add(n.id)
                    if n.id not in first or pos < first[n.id][0]:
                        first[n.id] = (pos, isinstance(n.ctx, ast.Store))
            for n in ast.walk(st):
                if isinstance(n, ast.For) and id(n) not in inside:
                    for t in ast.walk(n.target):
                        if isinstance(t, ast.Name):
                            rebound.add(t.id)
        for nm, (pos, is_store) in first.items():
            if is_store:
                rebound.add(nm)
        return reads - rebound

    # ================================================================ verify one function
    def verify(self):
        t0 = time.time()
        self.loop_count = 0
        self.loops_seen = set()
        self.notes = []
        c, fi = self.contract, self.fi
        import types
        # pseudo function-info for contract expressions (name resolution falls back to repo-wide class names)
        self.contract_fi = types.SimpleNamespace(
            qualname="<contract %s>" % c.name, file="<contract>", module=types.SimpleNamespace(
                functions={}, classes={}, imports={"spec": "spec"}, globals={}, name="spec.<contract>", lines=[], path="<contract>"),
            node=None)
        st = State()
        a = fi.node.args
        env = {}
        all_params = [x.arg for x in a.args] + [x.arg for x in a.kwonlyargs]
        for p in all_params:
            if p == "self" and fi.cls is not None:
                env[p] = st.alloc(ObjBox(fi.cls.name, {}, symbolic=True, ident=z3.Int("self_id")))
                continue
            ann = c.params.get(p)
            env[p] = self.fresh_of_annotation(ann, "in_" + p, st, fi.node)
        if a.vararg is not None and c.opts.get("varargs") == "abstract":
            n = z3.Int("in_%s_len" % a.vararg.arg)
            st.assume(n >= 0)
            env[a.vararg.arg] = st.alloc(AbsBox("tuple", n, ast.parse(c.params.get("*", "Any"), mode="eval").body))
        elif a.vararg is not None:
            n = int(c.opts.get("varargs", 0))
            env[a.vararg.arg] = PyTuple([self.fresh_of_annotation(c.params.get("*"), "in_%s%d" % (a.vararg.arg, i), st) for i in range(n)])
        if a.kwarg is not None:
            kw = {}
            for p, ann in c.params.items():
                if p.startswith("kw_"):
                    kw[p[3:]] = self.fresh_of_annotation(ann, "in_" + p, st, fi.node)
            env[a.kwarg.arg] = ("kwargs", kw)
            st.flags["entry_kwargs"] = dict(kw)
        if fi.parent is not None:
            # nested function: free variables of the enclosing function are extra parameters
            for p, ann in c.params.items():
                if p not in env and not p.startswith("kw_") and p != "*":
                    env[p] = self.fresh_of_annotation(ann, "in_" + p, st, fi.node)
        st.env = dict(env)
        self.cur_fi = fi
        # requires
        states = [st]
        try:
            for r in list(c.requires) + list(c.opts.get("assumed_pre", [])):
                nxt = []
                for s0 in states:
                    for (s2, b) in self.eval_clause(r, s0, s0.env, fi.node):
                        s2.assume(b)
                        nxt.append(s2)
                states = nxt
            for r in c.opts.get("assumed_pre", []):
                # a fact about the CALL HISTORY that no caller's contract in reach can establish (no K5 at call sites):
                # assumed when the body is verified, listed, and validated by the bounded harness
                self.assumptions.add("assumed of every call of %s (caller history, not checked at call sites): %s" % (fi.name, r))
        except Unsupported as u:
            self.unsupported.append((fi.qualname, 0, "requires: " + u.reason))
            states = []
        # K7 vacuity: the pre-condition is satisfiable
        vac = self.add_obl("K7", fi.node, "pre-condition of %s is satisfiable" % fi.name, [])
        sat_any = False
        for s0 in states:
            r, _ = self.solver.check(s0.pc)
            if r == "sat" or (r == "unknown" and not s0.pc):
                sat_any = True
        if not c.requires and not any(s0.pc for s0 in states):
            sat_any = True
        vac.status, vac.solver = ("unsat", "z3") if sat_any else ("vacuous", "z3")
        for gname, gexpr in c.ghost.items():
            nxt = []
            for s0 in states:
                tree = ast.parse(gexpr, mode="eval").body
                saved = self.cur_fi
                self.cur_fi = self.contract_fi
                self.pure += 1
                self.in_spec += 1
                try:
                    rs = self.ev(tree, s0)
                finally:
                    self.pure -= 1
                    self.in_spec -= 1
                    self.cur_fi = saved
                for (s2, v) in rs:
                    if is_exc(v):
                        raise Unsupported("ghost %s raises" % gname)
                    s2.env[gname] = v
                    nxt.append(s2)
            states = nxt
        finals = []
        for s0 in states:
            entry = dict(s0.env)
            s0.flags["entry_env"] = entry
            finals.extend(self.exec_block(fi.node.body, s0))
        self.paths = len(finals)
        n_ret = 0
        for (s, oc) in finals:
            entry = s.flags.get("entry_env", env)
            if oc is None or oc[0] == "return":
                n_ret += 1
                res = Z(V.VNone) if oc is None else oc[1]
                env2 = dict(entry)
                for nm_, val_ in s.env.items():
                    env2.setdefault(nm_, val_)          # locals at the return point may be named in a post-condition
                env2["result"] = res
                env2["events"] = PyTuple(list(s.ghost.get("events", [])))
                if a.kwarg is not None and isinstance(entry.get(a.kwarg.arg), tuple):
                    for k_, v_ in s.flags.get("entry_kwargs", {}).items():
                        env2["kw_" + k_] = v_
                if fi.is_generator and s.flags.get("looped"):
                    # a loop declared the only yielder was passed: nothing may have been yielded after it either
                    self.prove(s, T(len(s.out) == 1 and s.out[0][0] == "havoc"), "K2", self.ret_node(oc, fi),
                               "nothing is yielded after the loop %r (declared the only yielder on its paths)" % (s.flags["looped"][-1],),
                               clause="sole_yielder:exit")
                if fi.is_generator:
                    env2["out"] = PyTuple([v for (v, _ln) in s.out if not isinstance(v, str)]) if not any(v == "havoc" for (v, _l) in s.out) else None
                if c.opts.get("returns") and isinstance(res, Z):
                    cst, _h = self.constraint_of_annotation(ast.parse(c.opts["returns"], mode="eval").body, res.t)
                    if cst is not None:
                        self.prove(s, cst, "K2", fi.node, "result is %s" % c.opts["returns"], clause="returns:" + c.opts["returns"])
                for en in c.ensures:
                    if fi.is_generator and env2.get("out") is None and "out" in en:
                        continue          # the yields of this path were abstracted by a loop: per-iteration clauses apply instead
                    try:
                        for (s2, b) in self.eval_clause(en, s.fork(), env2, fi.node):
                            ob = self.prove(s2, b, "K2", self.ret_node(oc, fi), "post-condition: %s" % en, clause=en)
                    except Unsupported as u:
                        self.unsupported.append((fi.qualname, 0, "ensures %r: %s" % (en, u.reason)))
            elif oc[0] == "raise":
                exc = oc[1]
                for en in (c.opts.get("exc_ensures") or {}).get(exc.cls, []):
                    # a post-condition of the paths that END in this exception (a command's main() always ends in
                    # SystemExit): evaluated in the state in which the exception leaves the function
                    env2 = dict(entry)
                    for nm_, val_ in s.env.items():
                        env2.setdefault(nm_, val_)
                    env2["events"] = PyTuple(list(s.ghost.get("events", [])))
                    try:
                        for (s2, b) in self.eval_clause(en, s.fork(), env2, fi.node):
                            self.prove(s2, b, "K2", fi.node, "post-condition of the %s exit: %s" % (exc.cls, en), clause="exc:" + en)
                    except Unsupported as u:
                        self.unsupported.append((fi.qualname, 0, "exc_ensures %r: %s" % (en, u.reason)))
                if self.allowed_raise(c, exc.cls):
                    if self.settle(exc, "allowed") is None:
                        ob = self.add_obl("K1", None, "raise of %s is allowed by the contract" % exc.cls, [T(False)], clause=exc.cls)
                        ob.lineno, ob.text = exc.origin[1], exc.origin[2]
                        ob.status, ob.solver = "unsat", "allowed"
                else:
                    if self.settle(exc, "escaped") is None:
                        ob = self.add_obl("K1", None, "%s must not escape %s: %s" % (exc.cls, fi.name, exc.why), list(s.pc), clause=exc.cls)
                        ob.lineno, ob.text = exc.origin[1], exc.origin[2]
                        self.discharge(ob)
            elif oc[0] == "unsupported":
                pass
            else:
                self.unsupported.append((fi.qualname, 0, "loop control at function level"))
        # K6 termination structure (syntactic): no `while` without a decreases clause, no unannotated self-recursion;
        # `for` loops iterate values their body does not resize (checked where the loop is executed)
        whiles = [n for n in ast.walk(fi.node) if isinstance(n, ast.While)]
        selfcalls = [n for n in ast.walk(fi.node) if isinstance(n, ast.Call) and
                     ((isinstance(n.func, ast.Attribute) and n.func.attr == fi.name and isinstance(n.func.value, ast.Name)
                       and (n.func.value.id in ("self", "cls") or n.func.value.id[:1].isupper()))       # self.f(...) / Class.f(...)
                      or (isinstance(n.func, ast.Name) and n.func.id == fi.name))]
        k6 = self.add_obl("K6", fi.node, "termination structure: %d for-loop(s) over values the body does not resize, %d while-loop(s), %d self-call(s)"
                          % (sum(1 for n in ast.walk(fi.node) if isinstance(n, ast.For)), len(whiles), len(selfcalls)), [T(False)])
        k6.status, k6.solver = "unsat", "syntactic"
        if whiles and not all(self.loop_key(w) in c.loops and c.loops[self.loop_key(w)].get("decreases") for w in whiles):
            k6.status = "undecided"
            self.unsupported.append((fi.qualname, whiles[0].lineno, "while loop without a decreases clause"))
        if selfcalls:
            if c.opts.get("decreases"):
                self.assumptions.add("termination of the recursion in %s: decreases %s (stated, not machine-checked)" % (fi.name, c.opts["decreases"]))
            else:
                k6.status = "undecided"
                self.unsupported.append((fi.qualname, selfcalls[0].lineno, "recursive call without a decreases clause"))
        # exceptions whose fate was never decided (path ended in an unsupported construct)
        for (ob, e, bad) in self.pending:
            if ob.status == "pending":
                ob.status = "undecided"
        # K7 covers + attachment
        for key in c.loops:
            if key not in self.loops_seen:
                self.unsupported.append((fi.qualname, 0, "cannot attach loop contract %r (header not found)" % key))
        if n_ret == 0 and not any(oc is not None and oc[0] == "raise" for (_s, oc) in finals):
            # no exit reached: a contract error (vacuous) unless paths were given up on constructs outside the
            # subset -- then nothing is known about the exits, which is "undecided", not a checker fault
            vac.status = "undecided" if (self.unsupported and vac.status != "vacuous") else "vacuous"
        return {
            "function": fi.qualname, "contract": c.name, "props": c.props,
            "file": fi.file, "line": fi.node.lineno,
            "paths": self.paths, "obligations": self.obligations,
            "unsupported": sorted(set(self.unsupported)), "assumptions": sorted(self.assumptions),
            "notes": self.notes, "time_s": round(time.time() - t0, 3),
            "solver_queries": self.solver.nqueries, "solver_time_s": round(self.solver.time, 3),
        }

    def ret_node(self, oc, fi):
        return fi.node


def _bi_same(self, args, kwargs, s, node):
    a, b = args
    if isinstance(a, Z) and isinstance(b, Z):
        return [(s, Z(V.VBool(a.t == b.t), "bool"))]
    return [(s, Z(V.VBool(self._same_sv(a, b, s, node)), "bool"))]


Engine.bi_same = _bi_same
