"""Contracts for C17 -- the ORDER of the save sequence (ghost events), yaml-set.

"With --backup ... the .bak holds the complete original bytes before the target is touched": in
`yaml_set.write_output_document` every library call that touches the file system is an assumed external contract
that records a ghost event; the post-conditions say in which order the events happen on every path:

  * with --backup:  [exists(bak)] (, remove(bak) when it existed), copy2(target -> bak)  and only THEN the save;
  * without --backup:  no call touches a .bak at all;
  * target '-' (stdout): nothing is saved to a file.

What each library call does to the disk, and what happens when one of them fails half-way, is NOT modelled here:
that is the fault enumeration of rtc/c17.py (every k-th I/O call failing, before / partial / unflushed).
"""
from pyvc.dsl import contract

YS = "yamlpath.commands.yaml_set."


def _ext(target, event, returns=None, raises=("OSError",), notes="", call_form=None):
    body = {"assumed": True,
            "notes": notes or "file-system call of the standard library: only THAT it is called, with which arguments, is recorded",
            "raises": list(raises),
            "opts": dict({"event": event}, **dict({"returns": returns} if returns else {}, **({"call_form": call_form} if call_form else {})))}
    cls = type("Ext_" + target.replace(":", "_").replace(".", "_"), (), body)       # (the decorator reads the class body)
    return contract(target, props=["C17"])(cls)


_ext("ext:os.path.exists", "('exists', a0, result)", returns="bool", raises=())
_ext("ext:os.remove", "('remove', a0)")
_ext("ext:shutil.copy2", "('copy2', a0, a1)",
     notes="shutil.copy2(src, dst): dst becomes a regular file holding the bytes src names (links followed) -- assumed for exactly "
           "this two-argument form; the bounded harness rtc/c17 compares the backup with the pre-image, through a symlink too",
     call_form={"nargs": 2, "keywords": {"follow_symlinks": True}, "text": "copy2(src, dst): the bytes are copied, links followed"})
_ext("ext:json.dump", "('json.dump',)")
_ext("extmethod:dump", "('dump',)", raises=("OSError", "AssertionError"),
     notes="ruamel YAML.dump(data, stream): only the fact of the call is recorded")


@contract("yamlpath.common.parsers.Parsers.jsonify_yaml_data", props=["C17"])
class Jsonify:
    assumed = True
    notes = "pure conversion of the loaded document to JSON-compatible data (no I/O)"
    raises = []
    opts = {"returns": "Any"}


@contract(YS + "write_document_as_yaml", props=["C17"])
class WriteAsYaml:
    assumed = True
    notes = "decides YAML vs JSON output from the root node's flow style and the file extension (no I/O)"
    raises = []
    opts = {"returns": "bool", "pure": True}


@contract(YS + "save_to_file", props=["C17"])
class SaveToFile:
    """The write of the target (its own inner sequence -- temp copy, open, dump, restore path -- is what the fault
    enumeration exercises)."""
    assumed = True
    notes = "writes args.yaml_file; inner sequence covered by rtc/c17 fault enumeration"
    raises = ["OSError", "AssertionError", "SystemExit"]
    opts = {"event": "('save', args.yaml_file)"}


ARGS_OK = ["hasattr(args, 'yaml_file') and isinstance(args.yaml_file, str)", "hasattr(args, 'backup') and isinstance(args.backup, bool)",
           "hasattr(args, 'json_indent') and isinstance(args.json_indent, int)"]
BAK = "args.yaml_file + '.bak'"
TO_FILE = "args.yaml_file.strip() != '-'"
LAST = "events[len(events) - 1]"
PREV = "events[len(events) - 2]"


@contract(YS + "write_output_document", props=["C17"])
class WriteOutputDocument:
    params = {}
    requires = ARGS_OK
    raises = ["OSError", "AssertionError", "SystemExit"]
    ensures = [
        # --backup, to a file: the save is the LAST thing that happens and the copy of the target to .bak comes right before it
        "implies(args.backup and %s, len(events) >= 3 and %s[0] == 'save' and %s[0] == 'copy2' "
        "and %s[1] == args.yaml_file and %s[2] == %s)" % (TO_FILE, LAST, PREV, PREV, PREV, BAK),
        # ... a stale .bak is looked for first, and removed only when it exists
        "implies(args.backup and %s, events[0][0] == 'exists' and events[0][1] == %s and ((not events[0][2] and len(events) == 3) or "
        "(events[0][2] and len(events) == 4 and events[1][0] == 'remove' and events[1][1] == %s)))" % (TO_FILE, BAK, BAK),
        # without --backup nothing touches a .bak: the save is the only event
        "implies(not args.backup and %s, len(events) == 1 and events[0][0] == 'save')" % TO_FILE,
        # to stdout nothing is saved to a file
        "implies(not (%s), events[len(events) - 1][0] == 'dump' or events[len(events) - 1][0] == 'json.dump')" % TO_FILE,
    ]


# ---------------------------------------------------------------------------------------------------
# yaml-merge: the backup of the --overwrite target precedes the first write
# ---------------------------------------------------------------------------------------------------
YM = "yamlpath.commands.yaml_merge."
_ext("ext:open", "('open', a0, a1)", returns="Any")
_ext("ext:print", "('print',)", raises=("OSError",))
_ext("ext:json.dumps", "('json.dumps',)", returns="str", raises=())
_ext("extmethod:dump_all", "('dump',)", raises=("OSError", "AssertionError"),
     notes="ruamel YAML.dump_all(documents, stream): only the fact of the call is recorded")


@contract("yamlpath.merger.merger.Merger.prepare_for_dump", props=["C17"])
class PrepareForDump:
    assumed = True
    notes = "re-tags / re-styles the merged document for the output format (no I/O); returns the output document type"
    raises = []
    opts = {"returns": "OutputDocTypes"}


M_ARGS_OK = ["hasattr(args, 'backup') and isinstance(args.backup, bool)",
             "hasattr(args, 'overwrite') and implies(args.backup, isinstance(args.overwrite, str))",
             "hasattr(args, 'output') and (args.output is None or isinstance(args.output, str))",
             "hasattr(args, 'json_indent') and isinstance(args.json_indent, int)", "len(docs) >= 1"]
M_BAK = "args.overwrite + '.bak'"


@contract(YM + "write_output_document", props=["C17"])
class MergeWriteOutputDocumentCall:
    """The face main() uses: that the write-out happens, as one event."""
    assumed = True
    notes = "call-site face of the contract verified below against the body (which reads docs[0]: at least one document)"
    requires = ["len(docs) >= 1"]
    raises = ["OSError", "AssertionError"]
    opts = {"callsite": True, "event": "('write', docs)"}


@contract(YM + "write_output_document", props=["C17"])
class MergeWriteOutputDocument:
    """With --backup the first things that happen are: look for a stale .bak, remove it if it exists, copy the
    --overwrite target to .bak -- before the output file is opened or anything is dumped.  Without --backup no
    call touches a .bak."""
    params = {"docs": "List[Merger]"}
    requires = M_ARGS_OK
    raises = ["OSError", "AssertionError"]
    ensures = [
        "implies(args.backup, len(events) >= 2 and events[0][0] == 'exists' and events[0][1] == %s)" % M_BAK,
        "implies(args.backup and events[0][2], events[1][0] == 'remove' and events[1][1] == {b} and events[2][0] == 'copy2' "
        "and events[2][1] == args.overwrite and events[2][2] == {b})".format(b=M_BAK),
        "implies(args.backup and not events[0][2], events[1][0] == 'copy2' and events[1][1] == args.overwrite and events[1][2] == %s)" % M_BAK,
        "implies(not args.backup, len(events) == 0 or not (events[0][0] == 'exists' or events[0][0] == 'remove' or events[0][0] == 'copy2'))",
        # the output file is opened for writing only after that
        "implies(args.backup and bool(args.output) and events[0][2], events[3][0] == 'open' and events[3][1] == args.output)",
        "implies(args.backup and bool(args.output) and not events[0][2], events[2][0] == 'open' and events[2][1] == args.output)",
        "implies(not args.backup and bool(args.output), events[0][0] == 'open' and events[0][1] == args.output)",
    ]
    loops = {
        "for doc in docs": {"invariant": ["len(dumps) == iters"]},
        "for dump in dumps": {"body_ensures": ["called('copy2') == 0 and called('remove') == 0"]},
    }


# ---------------------------------------------------------------------------------------------------
# yaml-merge main(): a failing input is never forgotten -- nothing is written, the status is not 0
# ---------------------------------------------------------------------------------------------------
@contract(YM + "processcli", props=["C17"])
class MergeProcessCli:
    assumed = True
    notes = "argparse: returns the parsed arguments (or exits); yaml_files is the list of input names"
    raises = ["SystemExit"]
    ensures = ["hasattr(result, 'overwrite') and hasattr(result, 'output') and hasattr(result, 'nostdin') and isinstance(result.nostdin, bool)",
               "hasattr(result, 'yaml_files') and isinstance(result.yaml_files, list)"]
    opts = {"returns": "Any", "heap_fields": {"result.yaml_files": "List[str]"}}


@contract("yamlpath.common.parsers.Parsers.get_yaml_editor", props=["C17"])
class GetYamlEditor:
    assumed = True
    notes = "builds the ruamel YAML() editor (no I/O)"
    raises = []
    opts = {"returns": "Any"}


@contract("yamlpath.merger.mergerconfig.MergerConfig.__init__", props=["C17"])
class MergerConfigInit:
    assumed = True
    notes = "reads the optional INI file named by --config (validated before by validateargs); no write"
    raises = []


@contract(YM + "validateargs", props=["C17"])
class MergeValidateArgs:
    assumed = True
    notes = ("argument validation (exits with status 1 on a documented misuse); from its first check: with no YAML_FILE it returns "
             "only when STDIN is not a terminal and --nostdin is not set (validated by the bounded cause `args-no-input`)")
    raises = ["SystemExit"]
    ensures = ["len(args.yaml_files) >= 1 or (not sys.stdin.isatty() and not args.nostdin)"]


@contract("ext:sys.exit", props=["C17"])
class SysExit:
    assumed = True
    notes = "sys.exit(status): recorded as an event, raises SystemExit, does not return"
    raises = ["SystemExit"]
    opts = {"event": "('exit', a0)", "noreturn": True}


@contract("ext:sys.stdin.isatty", props=["C17"])
class StdinIsatty:
    assumed = True
    notes = "whether STDIN is a terminal: one answer per run"
    raises = []
    opts = {"returns": "bool", "pure": True}


@contract(YM + "main", props=["C17", "C11"])
class MergeMain:
    """Clause (a) of C17 and the last sentence of C11 for yaml-merge: the loop over the inputs is entered with status 0
    at every iteration (invariant), an iteration ends normally only with status 0 and leaves through `break` only with
    a status that is not 0 -- so after an input that fails to load or to merge no later input is merged and the status
    stays non-zero; the output document is written exactly when the final status is 0, and that status is what
    sys.exit receives."""
    raises = ["SystemExit", "OSError", "AssertionError"]       # (a failing write: the fault enumeration's subject)
    loops = {"for yaml_file in args.yaml_files": {
        "elem_assume": ["isinstance(yaml_file, str)"],           # argparse: nargs='*' of text arguments
        "invariant": ["exit_state == 0", "iters >= 1 or not consumed_stdin"],
        "body_ensures": ["implies(not exited, exit_state == 0)", "implies(exited, exit_state != 0)",
                         # the status of this iteration's merge is the status the iteration ends with (C10/C05: a refused merge
                         # -- anchor conflict under `stop`, a merge error -- is a refused run)
                         "called('merge') <= 1",
                         "implies(called('merge') == 1, same(call_event('merge')[2], exit_state))"]}}
    # every path ends in SystemExit: raised by the argument handling (processcli, validateargs: no 'exit' event, nothing
    # written before), or by the final sys.exit(exit_state)
    opts = {"exc_ensures": {"SystemExit": [
        "called('exit') <= 1 and called('write') <= 1",
        "implies(called('exit') == 0, called('write') == 0)",
        "implies(called('exit') == 1, same(call_event('exit')[1], exit_state) and (called('write') == 1) == (exit_state == 0))",
        # the document waiting on STDIN (merged after the loop): a status other than 0 from that merge ends the run with a
        # status other than 0 and nothing written
        "called_after_loops('merge') <= 1",
        "implies(called('exit') == 1 and called_after_loops('merge') == 1 and not same(call_event('merge')[2], 0), exit_state != 0 and called('write') == 0)",
    ]}}
