"""Contracts for C18 — multi-document merge modes (driver structure, modulo the merge_with contract = C05).

Each driver is proved iteration by iteration: the loop body at position `iters` performs exactly the
pairwise merge the mode defines for that position (ghost `events` = the merge_with calls of this
iteration), and the number of output documents is a function of the mode and the stream lengths.
The lift "a for loop runs its body once per element, in order" is Python's loop semantics (DESIGN §6 C18).
"""
from pyvc.dsl import contract

YM = "yamlpath.commands.yaml_merge."


@contract("yamlpath.merger.merger.Merger.merge_with", props=["C18", "C11"])
class MergeWith:
    """ASSUMED here (its own behaviour is property C05/C11): merges `rhs` into self.data, or raises."""
    assumed = True
    notes = "pairwise merge = property C05; only its effect footprint is used: it modifies self.data, may raise MergeException / YAMLPathException"
    raises = ["MergeException", "YAMLPathException"]
    opts = {"event": "(self, rhs)"}


@contract(YM + "merge_condense_all", props=["C18", "C16"])
class CondenseAll:
    modifies = ["lhs_docs"]
    opts = {"event": "('condense', lhs_docs, rhs_docs)", "returns": "int"}
    params = {"lhs_docs": "List[Merger]", "rhs_docs": "List[Merger]"}
    requires = ["len(lhs_docs) >= 1"]
    ghost = {"m0": "len(lhs_docs)", "n0": "len(rhs_docs)", "first": "lhs_docs[0]"}
    raises = []
    loops = {
        "for lhs_doc in lhs_docs[1:]": {
            "invariant": ["return_state in (0, 11, 12)"],
            "body_ensures": ["len(events) == 1 and events[0][0] is first and same(events[0][1], lhs_docs[iters + 1].data)"],
        },
        "for i in reversed(range(1, len(lhs_docs)))": {
            "invariant": ["len(lhs_docs) == m0 - iters", "lhs_docs[0] is first", "return_state in (0, 11, 12)"],
        },
        "for rhs_doc in rhs_docs": {
            "invariant": ["return_state in (0, 11, 12, 13, 14)"],
            "body_ensures": ["len(events) == 1 and events[0][0] is first and same(events[0][1], rhs_docs[iters].data)"],
        },
    }
    ensures = ["len(lhs_docs) == 1", "lhs_docs[0] is first", "result in (0, 11, 12, 13, 14)"]


@contract(YM + "merge_across", props=["C18", "C16"])
class Across:
    modifies = ["lhs_docs"]
    opts = {"event": "('across', lhs_docs, rhs_docs)", "returns": "int"}
    params = {"lhs_docs": "List[Merger]", "rhs_docs": "List[Merger]"}
    requires = ["len(lhs_docs) >= 1"]
    ghost = {"m0": "len(lhs_docs)", "n0": "len(rhs_docs)"}
    raises = []
    loops = {
        "for i in range(0, max_len)": {
            "invariant": ["iters == 0 or iters <= n0", "len(lhs_docs) == max(m0, iters)", "return_state == 0"],
            "body_ensures": [
                # i-th right document into the i-th left document
                "implies(iters < m0 and iters < n0, len(events) == 1 and events[0][0] is lhs_docs[iters] and same(events[0][1], rhs_docs[iters].data))",
                # surplus right documents are appended, in order
                "implies(iters >= m0 and iters < n0, len(events) == 0 and not exited and lhs_docs[len(lhs_docs) - 1] is rhs_docs[iters])",
                # nothing happens past the end of the right stream
                "implies(iters >= n0, len(events) == 0 and exited)",
            ],
        },
    }
    ensures = ["implies(result == 0, len(lhs_docs) == max(m0, n0))", "result in (0, 31, 32)"]


@contract("ext:copy.deepcopy", props=["C18"])
class DeepCopy:
    """ASSUMED library contract: a new, equal, unshared copy; recorded as an event so that callers can say WHAT was copied."""
    assumed = True
    notes = "copy.deepcopy: the result shares no mutable node with its argument (CPython / ruamel __deepcopy__)"
    raises = []
    opts = {"returns": "Any", "event": "('deepcopy', a0, result)"}


@contract(YM + "merge_matrix", props=["C18", "C16"])
class Matrix:
    modifies = ["lhs_docs"]
    opts = {"event": "('matrix', lhs_docs, rhs_docs)", "returns": "int"}
    params = {"lhs_docs": "List[Merger]", "rhs_docs": "List[Merger]"}
    ghost = {"m0": "len(lhs_docs)"}
    raises = []
    loops = {
        "for lhs_doc in lhs_docs": {"invariant": ["return_state in (0, 41, 42)"]},
        "for rhs_doc in rhs_docs": {
            "invariant": ["return_state in (0, 41, 42)"],
            # every right-hand document is merged into every left-hand document -- as its OWN copy (documents that adopt
            # nodes from one right-hand document must not end up sharing them: repaired on the pinned tree)
            "body_ensures": ["len(events) == 2 and events[0][0] == 'deepcopy' and same(events[0][1], rhs_doc.data) "
                             "and events[1][0] is lhs_doc and events[1][1] is events[0][2]"],
        },
    }
    ensures = ["len(lhs_docs) == m0", "result in (0, 41, 42)"]


@contract("yamlpath.merger.mergerconfig.MergerConfig.get_multidoc_mode", props=["C18"])
class GetMultidocMode:
    """ASSUMED: a pure read of the parsed arguments returning a MultiDocModes member (default CONDENSE_ALL)."""
    assumed = True
    notes = "argparse restricts --multi-doc-mode to MultiDocModes choices; read-only"
    raises = []
    opts = {"pure": True, "returns": "MultiDocModes"}


@contract(YM + "get_doc_mergers", props=["C18"])
class GetDocMergers:
    """ASSUMED (I/O): loads the right-hand stream into one Merger per document."""
    assumed = True
    notes = ("file/stdin loading is outside the subset; returns (mergers, loaded_ok).  NOT assumed: that a stream which loads holds a "
             "document -- a file without any document (empty, comments only) loads as ([], True), only an empty STDIN yields one "
             "(empty) document")
    raises = []
    opts = {"returns": "Tuple[List[Merger], bool]"}


@contract(YM + "merge_docs", props=["C18", "C16"])
class MergeDocs:
    """The selected mode, and nothing else, decides which driver combines the two streams; an unloadable
    right-hand stream stops with status 3 before any merge."""
    params = {"config": "MergerConfig", "lhs_docs": "List[Merger]", "rhs_file": "str"}
    requires = ["len(lhs_docs) >= 1"]
    ghost = {"mode": "config.get_multidoc_mode()"}
    raises = []
    ensures = [
        "len(events) <= 1",
        "implies(len(events) == 1 and mode is MultiDocModes.CONDENSE_ALL, events[0][0] == 'condense' and events[0][1] is lhs_docs)",
        "implies(len(events) == 1 and mode is MultiDocModes.MERGE_ACROSS, events[0][0] == 'across' and events[0][1] is lhs_docs)",
        "implies(len(events) == 1 and mode is MultiDocModes.MATRIX_MERGE, events[0][0] == 'matrix' and events[0][1] is lhs_docs)",
        "implies(len(events) == 0, result == 3)",
    ]
    # (what a caller's trace records of this call: the stream merged and the status handed back)
    opts = {"event": "('merge', rhs_file, result)", "returns": "int"}
