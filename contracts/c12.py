"""Contracts for C12 — search operators compare values by the documented typed rules."""
from pyvc.dsl import contract


@contract("yamlpath.common.nodes.Nodes.typed_value", props=["C12", "C15"])
class TypedValue:
    """String-to-native conversion: never raises; None stays None; case-insensitive booleans;
    a str that literal_eval accepts becomes that literal, any other str stays itself;
    non-str scalars come back unchanged."""
    requires = []
    raises = []
    pure_fn = "typed_fn"
    opts = {"decreases": "NodeCoords nesting depth of `value` (a finite acyclic wrapper chain)"}
    ensures = [
        "implies(value is None, result is None)",
        # ruamel's wrapper of an anchored boolean stands for that boolean
        "implies(isinstance(value, ScalarBoolean), isinstance(result, bool))",
        "implies(value is not None and not isinstance(value, (NodeCoords, ScalarBoolean)) and str(value).lower() == 'true', same(result, True))",
        "implies(value is not None and not isinstance(value, (NodeCoords, ScalarBoolean)) and str(value).lower() == 'false', same(result, False))",
        "implies(value is not None and not isinstance(value, (NodeCoords, ScalarBoolean)) and str(value).lower() not in ('true', 'false'),"
        " same(result, literal(value) if literal_ok(value) else value))",
    ]


@contract("yamlpath.common.searches.Searches.search_matches", props=["C12", "C15"])
class SearchMatchesAnyTerm:
    """Used at call sites: for ANY str term the only exception is YAMLPathException (an invalid regular
    expression); whenever the term is well-formed the answer is the documented one."""
    params = {"method": "PathSearchMethods", "needle": "str"}
    raises = ["YAMLPathException"]
    ensures = ["implies(not (method is PathSearchMethods.REGEX) or re_valid(needle),"
               " same(result, spec.c12.search_matches(method, needle, haystack)))"]
    opts = {"returns": "bool"}


@contract("yamlpath.common.searches.Searches.search_matches", props=["C15", "C13"])
class SearchMatchesAnyNeedle:
    """The keyword scans (max / min) pass a DOCUMENT VALUE as the term: for any term of any type the only exception
    is still YAMLPathException -- for the comparison operators; the text operators (^ $ % =~) need a text term.
    (No functional clause: the statement of C12 speaks about text terms.)"""
    params = {"method": "PathSearchMethods"}
    requires = ["isinstance(needle, str) or method is PathSearchMethods.EQUALS or method is PathSearchMethods.LESS_THAN "
                "or method is PathSearchMethods.GREATER_THAN or method is PathSearchMethods.LESS_THAN_OR_EQUAL "
                "or method is PathSearchMethods.GREATER_THAN_OR_EQUAL"]
    raises = ["YAMLPathException"]
    opts = {"returns": "bool"}


@contract("yamlpath.common.searches.Searches.search_matches", props=["C12", "C15"])
class SearchMatchesCall:
    """The face of search_matches that its call sites use: a deterministic bool for a term of any type, the only
    exception being YAMLPathException (invalid regular expression).  Implied by SearchMatchesAnyNeedle (verified
    against the body); kept separate so that callers' verification conditions stay small."""
    params = {"method": "PathSearchMethods"}
    requires = ["isinstance(needle, str) or method is PathSearchMethods.EQUALS or method is PathSearchMethods.LESS_THAN "
                "or method is PathSearchMethods.GREATER_THAN or method is PathSearchMethods.LESS_THAN_OR_EQUAL "
                "or method is PathSearchMethods.GREATER_THAN_OR_EQUAL"]
    raises = ["YAMLPathException"]
    opts = {"callsite": True, "returns": "bool", "pure": True}


@contract("yamlpath.common.searches.Searches.search_matches", props=["C12"])
class SearchMatches:
    """For a well-formed term (a str; a valid pattern for REGEX) the answer equals the documented
    rules (spec.c12.search_matches) and no exception escapes."""
    params = {"method": "PathSearchMethods", "needle": "str"}
    requires = ["implies(method is PathSearchMethods.REGEX, re_valid(needle))"]
    ensures = ["same(result, spec.c12.search_matches(method, needle, haystack))"]
    raises = []
