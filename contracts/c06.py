"""Contracts for C06 -- the per-path configuration lookup and the mode ladders of the Differ.

Which comparison mode governs a sequence is decided here: per-path rule > command line > [defaults] > built-in,
and a rule governs exactly the node it names (the same parent OBJECT and reference, an equal value).  The pinned
tree compared the parent by equality, so a rule for /a/c also governed /b/c whenever /a and /b were equal
(repaired: known_findings.jsonl).  The comparison algorithms themselves are checked bounded (rtc/c06.py).
"""
from pyvc.dsl import contract

DC = "yamlpath.differ.differconfig.DifferConfig."
NAMES = ("(rule_coord.node == node_coord.node and rule_coord.parent is node_coord.parent"
         " and rule_coord.parentref == node_coord.parentref)")
HF = {"NodeCoords.node": "Any", "NodeCoords.parent": "Any", "NodeCoords.parentref": "Any"}


@contract(DC + "_get_config_for", props=["C06"])
class GetConfigFor:
    params = {"node_coord": "NodeCoords", "section": "Dict[NodeCoords, str]"}
    assume_fields = {"self.config": "Any"}
    raises = []
    loops = {
        "for rule_coord, rule_config in section.items()": {
            "body_ensures": ["exited == %s" % NAMES, "implies(exited, returned == str(rule_config))"],
        },
    }
    ensures = ["isinstance(result, str)", "implies(self.config is None, result == '')"]
    opts = {"returns": "str", "heap_fields": HF}


@contract(DC + "_get_rule_for", props=["C06"])
class GetRuleFor:
    params = {"node_coord": "NodeCoords"}
    assume_fields = {"self.config": "Any", "self.rules": "Dict[NodeCoords, str]"}
    raises = []
    opts = {"returns": "str", "pure": True}


@contract(DC + "_get_key_for", props=["C06"])
class GetKeyFor:
    params = {"node_coord": "NodeCoords"}
    assume_fields = {"self.config": "Any", "self.keys": "Dict[NodeCoords, str]"}
    raises = []
    opts = {"returns": "str", "pure": True}


def _from_str(mod, cls):
    @contract("yamlpath.differ.enums.%s.%s.from_str" % (mod, cls), props=["C06"])
    class FromStr:
        assumed = True
        notes = "enum lookup by upper-cased name (library Enum machinery); total up to the documented NameError"
        raises = ["NameError"]
        opts = {"returns": cls, "pure": True}
    FromStr.__name__ = "FromStr" + cls
    return FromStr


_from_str("arraydiffopts", "ArrayDiffOpts")
_from_str("aohdiffopts", "AoHDiffOpts")

CFG = {"self.config": "Optional[Dict[str, Dict[str, str]]]", "self.args": "Any", "self.rules": "Dict[NodeCoords, str]"}


def _ladder(fn, cls, opt, default):
    ini = "(self.config is not None and 'defaults' in self.config and '%s' in self.config['defaults'])" % opt
    cli = "(hasattr(self.args, '%s') and self.args.%s)" % (opt, opt)
    rule = "self._get_rule_for(node_coord)"

    @contract(DC + fn, props=["C06"])
    class Ladder:
        params = {"node_coord": "NodeCoords"}
        assume_fields = CFG
        raises = ["NameError"]
        ensures = [
            "implies(bool({rule}), result is {cls}.from_str({rule}))".format(rule=rule, cls=cls),
            "implies(not {rule} and bool({cli}), result is {cls}.from_str(self.args.{opt}))".format(rule=rule, cli=cli, cls=cls, opt=opt),
            "implies(not {rule} and not {cli} and {ini}, result is {cls}.from_str(self.config['defaults']['{opt}']))".format(
                rule=rule, cli=cli, ini=ini, cls=cls, opt=opt),
            "implies(not {rule} and not {cli} and not {ini}, result is {cls}.{default})".format(rule=rule, cli=cli, ini=ini, cls=cls, default=default),
        ]
        opts = {"returns": cls}
    Ladder.__name__ = "Ladder_" + fn
    return Ladder


_ladder("array_diff_mode", "ArrayDiffOpts", "arrays", "POSITION")
_ladder("aoh_diff_mode", "AoHDiffOpts", "aoh", "POSITION")


@contract(DC + "aoh_diff_key", props=["C06"])
class AohDiffKey:
    """Identity field of a record list: the [keys] entry naming the node (user key); else the entry naming its parent
    (user key); else the first field of the record (inferred)."""
    params = {"node_coord": "NodeCoords"}
    assume_fields = {"self.config": "Any", "self.keys": "Dict[NodeCoords, str]"}
    raises = []
    loops = {
        "for eval_nc, eval_key in self.keys.items()": {
            "body_ensures": ["exited == (node_coord.parent == eval_nc.node)", "implies(exited, diff_key is eval_key)"],
        },
    }
    ensures = ["implies(bool(self._get_key_for(node_coord)), result[0] == self._get_key_for(node_coord) and result[1] is True)"]
    opts = {"heap_fields": HF}
