"""Contracts for C15 — evaluating any path on any document fails only with YAMLPathException.

Every handler is verified on its own (callees by contract): for ANY data value (list, dict, set,
scalar, None), any parsed path and any valid segment index, no exception other than the
YAMLPathException family escapes.  `raises` is the whole contract; safety obligations (K1) at every
subscript / int() / `in` / ordering / attribute site are what is discharged.
"""
from pyvc.dsl import contract

PR = "yamlpath.processor.Processor."
YP = "yamlpath.yamlpath.YAMLPath."
SEGS = "Deque[Tuple[PathSegmentTypes, Any]]"
PATH_FIELDS = {"yaml_path._escaped": SEGS, "yaml_path._unescaped": SEGS,
               "yaml_path._original": "str", "yaml_path._separator": "PathSeparators", "yaml_path._stringified": "str"}
# class invariant of a YAMLPath: each lazy cache is empty or holds the parse of the current text
INV = ["len(yaml_path._escaped) == 0 or len(yaml_path._escaped) == seg_count(yaml_path)",
       "len(yaml_path._unescaped) == 0 or len(yaml_path._unescaped) == seg_count(yaml_path)"]
# handlers are entered from the dispatcher, which has already filled both caches for a valid segment index
PARSED = ["len(yaml_path._escaped) == seg_count(yaml_path)", "len(yaml_path._unescaped) == seg_count(yaml_path)",
          "0 <= segment_index", "segment_index < seg_count(yaml_path)"]
# parser-established element invariant (segment_id is a str in _parse_path): an ANCHOR segment carries the anchor's name
# Parser-established facts about parsed segments, assumed at every read of a segment (listed in the evidence;
# validated natively by rtc/c08 and rtc/c14 on every run over the exhaustive string space):
import importlib.util as _ilu
import os as _os
_spec = _ilu.spec_from_file_location("_c14", _os.path.join(_os.path.dirname(_os.path.abspath(__file__)), "c14.py"))
# the clause texts are shared with the parser's contract (contracts/c14.py)
_SEG_CLAUSES = [
    "elem[0] is seg_type(path, index)",
    "implies(elem[0] is PathSegmentTypes.ANCHOR, isinstance(elem[1], str))",
    "implies(elem[0] is PathSegmentTypes.SEARCH, isinstance(elem[1], SearchTerms))",
    "implies(elem[0] is PathSegmentTypes.KEYWORD_SEARCH, isinstance(elem[1], SearchKeywordTerms))",
    "implies(elem[0] is PathSegmentTypes.COLLECTOR, isinstance(elem[1], CollectorTerms))",
]
SEG_INV = {"elem_inv": {"yaml_path._escaped": _SEG_CLAUSES, "yaml_path._unescaped": _SEG_CLAUSES},
           # NodeCoords handed from one handler to the next always carry their path and ancestry
           "heap_fields": {"NodeCoords.path": "YAMLPath", "NodeCoords.ancestry": "list"}}


def WF(node, parent, ref, seg, count="len(yielded) == 1"):
    """C02 wf_step (and C01 "exactly this child") for the NodeCoords an iteration / a branch yields:
    it wraps `node`, which sits at parent[ref]; its ancestry is the incoming ancestry plus (parent, ref)
    (a NEW list); its path is the incoming path plus the rendered reference (a NEW path object);
    it records the segment that produced it."""
    return [count,
            "yielded[0].node is %s and yielded[0].parent is %s and same(yielded[0].parentref, %s)" % (node, parent, ref),
            "extended_by(yielded[0].ancestry, ancestry, (%s, %s))" % (parent, ref),
            "path_is(yielded[0].path, translated_path, %s)" % seg,
            "same(yielded[0].path_segment, pathseg)"]


ESC = "YAMLPath.escape_path_section(%s, translated_path.separator)"
KESC = "YAMLPath.escape_path_section(%s, kw_translated_path.separator)"


def WFO(node, parent, ref, seg, i=0):
    """The same well-formedness clause for the i-th value a whole call yielded (`out`), in terms of the
    keyword arguments the call received."""
    return ("(out[%d].node is %s and out[%d].parent is %s and same(out[%d].parentref, %s)"
            " and extended_by(out[%d].ancestry, kw_ancestry, (%s, %s))"
            " and path_is(out[%d].path, kw_translated_path, %s))" % (i, node, i, parent, i, ref, i, parent, ref, i, seg))


ATTR = "yaml_path._escaped[segment_index][1]"
REQ = "call_event('required')"
SEGC = "call_event('segment')"
TRV = "call_event('handler')"
OPTC = "call_event('optional')"
KW = {"kw_translated_path": "YAMLPath", "kw_ancestry": "List[Tuple[Any, Any]]"}
KWP = dict(KW, kw_parent="Any", kw_parentref="Any")
NC = "Union[NodeCoords, list]"


@contract(YP + "__add__", props=["C15", "C02"])
class PathAdd:
    """`path + segment` never raises and returns a new YAMLPath (the operands are not modified: see C02)."""
    assume_fields = {"self._original": "str", "self._separator": "PathSeparators", "self._stringified": "str",
                     "self._escaped": SEGS, "self._unescaped": SEGS}
    raises = []
    opts = {"returns": "YAMLPath", "event": "('add', self, other, result)"}


IDX = "int(str(%s))" % ATTR
PLAIN_INDEX = "(not (':' in str(%s)) and int_ok(str(%s)))" % (ATTR, ATTR)
ONE_ELEM = "intmin == intmax and -len(data) <= intmin and intmin < len(data)"


def WFY(node, parent, ref, seg):
    """wf_step for what one iteration yielded, when it yielded (hash / set slices select by a text range)."""
    return ["len(yielded) <= 1",
            "implies(len(yielded) == 1, yielded[0].node is %s and yielded[0].parent is %s and same(yielded[0].parentref, %s))" % (node, parent, ref),
            "implies(len(yielded) == 1, extended_by(yielded[0].ancestry, ancestry, (%s, %s)))" % (parent, ref),
            "implies(len(yielded) == 1, path_is(yielded[0].path, translated_path, %s))" % seg,
            "implies(len(yielded) == 1, same(yielded[0].path_segment, pathseg))"]


@contract(PR + "_get_nodes_by_index", props=["C15", "C01", "C02"])
class ByIndex:
    """INDEX segment.  A plain index on a sequence: exactly that element (negative indexes count from the end) with
    well-formed coordinates, nothing when out of range or when the data is not a sequence.  Hash / set slices: each
    iteration yields at most the entry it looks at, selected by the text range, with well-formed coordinates."""
    params = dict(KW, yaml_path="YAMLPath", segment_index="int")
    assume_fields = PATH_FIELDS
    requires = PARSED
    inline = [YP + "escaped", YP + "unescaped"]
    raises = ["YAMLPathException"]
    ensures = [
        "implies({p} and isinstance(data, list) and -len(data) <= {i} and {i} < len(data), len(out) == 1)".format(p=PLAIN_INDEX, i=IDX),
        "implies({p} and isinstance(data, list) and -len(data) <= {i} and {i} < len(data), out[0].node is data[{i}] and out[0].parent is data and same(out[0].parentref, {i}))".format(p=PLAIN_INDEX, i=IDX),
        "implies({p} and isinstance(data, list) and -len(data) <= {i} and {i} < len(data), extended_by(out[0].ancestry, kw_ancestry, (data, {i})))".format(p=PLAIN_INDEX, i=IDX),
        "implies({p} and isinstance(data, list) and -len(data) <= {i} and {i} < len(data), path_is(out[0].path, kw_translated_path, '[{{}}]'.format({i})))".format(p=PLAIN_INDEX, i=IDX),
        "implies({p} and isinstance(data, list) and not (-len(data) <= {i} and {i} < len(data)), len(out) == 0)".format(p=PLAIN_INDEX, i=IDX),
        "implies({p} and not isinstance(data, (list, set, CommentedSet)), len(out) == 0)".format(p=PLAIN_INDEX),
    ]
    ensures += [
        # a slice [m:n] of a sequence (other than the one-element form m == n in range): ONE result whose node is the list of the
        # selected elements' coordinates -- the elements at max(m', 0) .. min(n', len) - 1 in order, where a negative bound
        # counts from the end (m' = m + len) -- each with well-formed coordinates (element clauses below, proved where appended)
        "implies(':' in str_stripped and isinstance(data, list), implies(not (%s), len(out) == 1 and out[0].node is sliced_elements "
        "and out[0].parent is data and same(out[0].parentref, intmin)))" % ONE_ELEM,
        "implies(':' in str_stripped and isinstance(data, list), implies(not (%s), "
        "len(sliced_elements) == max(0, min(maxidx, datalen) - max(minidx, 0)) and datalen == len(data)))" % ONE_ELEM,
        "implies(':' in str_stripped and isinstance(data, list), implies(not (%s) and intmin < 0, minidx == intmin + len(data)))" % ONE_ELEM,
        "implies(':' in str_stripped and isinstance(data, list), implies(not (%s) and intmin >= 0, minidx == intmin))" % ONE_ELEM,
        "implies(':' in str_stripped and isinstance(data, list), implies(not (%s) and intmax < 0, maxidx == intmax + len(data)))" % ONE_ELEM,
        "implies(':' in str_stripped and isinstance(data, list), implies(not (%s) and intmax >= 0, maxidx == intmax))" % ONE_ELEM,
        # the one-element form [m:m] with m in range: ONE result, a one-element list holding that element
        "implies(':' in str_stripped and isinstance(data, list), implies(%s, len(out) == 1 and out[0].parent is data "
        "and same(out[0].parentref, intmin) and len(out[0].node) == 1 and same(out[0].node[0], data[intmin])))" % ONE_ELEM,
        # hash / set slices: every yield comes from the loop over the entries
        "implies(':' in str_stripped and isinstance(data, dict) and not isinstance(data, list), looped('for key, val in list(data.items())'))",
        "implies(':' in str_stripped and isinstance(data, (CommentedSet, set)) and not isinstance(data, (list, dict)), looped('for ele in list(data)'))",
    ]
    loops = {
        "for key, val in list(data.items())": {"sole_yielder": True, "body_ensures": WFY("val", "data", "key", ESC % "key") + [
            "(len(yielded) == 1) == (min_match <= str(key) and str(key) <= max_match)"]},
        "for ele in list(data)": {"sole_yielder": True, "body_ensures": WFY("ele", "data", "ele", ESC % "ele") + [
            "(len(yielded) == 1) == (min_match <= str(ele) and str(ele) <= max_match)"]},
        # the k-th pass appends the element at index max(m', 0) + k
        "for slice_index in range(max(minidx, 0), min(maxidx, datalen))": {
            "invariant": ["len(sliced_elements) == iters"], "body_ensures": ["slice_index == max(minidx, 0) + iters"]},
    }
    opts = dict(SEG_INV, event="('handler', 'index', data, yaml_path, segment_index, kw_translated_path, kw_ancestry)", yields="Union[NodeCoords, list]",
                append_inv={"sliced_elements": [
                    "same(elem.node, data[slice_index]) and elem.parent is data and same(elem.parentref, slice_index)",
                    "extended_by(elem.ancestry, ancestry, (data, slice_index))",
                    "path_is(elem.path, translated_path, '[{}]'.format(slice_index))",
                    "same(elem.path_segment, pathseg)"]})




@contract(PR + "_get_nodes_by_key", props=["C15", "C01", "C02", "C09"])
class ByKey:
    """KEY segment.  On a hash: exactly the value under that key (well-formed coordinates), nothing when the key
    is absent and is not an integer literal.  On a sequence with an integer literal: that element, nothing when
    out of range.  Pass-through: each element is handed to the dispatcher with its own index, path and ancestry."""
    params = dict(KW, yaml_path="YAMLPath", segment_index="int", kw_traverse_lists="bool")
    assume_fields = PATH_FIELDS
    requires = PARSED
    inline = [YP + "escaped", YP + "unescaped"]
    raises = ["YAMLPathException"]
    ensures = [
        "implies(isinstance(data, dict) and %s in data, len(out) == 1 and %s)" % (ATTR, WFO("data[%s]" % ATTR, "data", ATTR, KESC % ("str(%s)" % ATTR))),
        "implies(isinstance(data, dict) and not (%s in data) and not int_ok(str(%s)), len(out) == 0)" % (ATTR, ATTR),
        # text/integer key mismatch: the child under the INTEGER key, whose coordinates name that integer key
        "implies(isinstance(data, dict) and not ({a} in data) and int_ok(str({a})) and int(str({a})) in data,"
        " len(out) == 1 and {wf})".format(a=ATTR, wf=WFO("data[int(str(%s))]" % ATTR, "data", "int(str(%s))" % ATTR, KESC % ("str(%s)" % ATTR))),
        "implies(isinstance(data, dict) and not ({a} in data) and int_ok(str({a})) and not (int(str({a})) in data), len(out) == 0)".format(a=ATTR),
        "implies(isinstance(data, list) and int_ok(str({a})) and -len(data) <= int(str({a})) and int(str({a})) < len(data),"
        " len(out) == 1 and {wf})".format(a=ATTR, wf=WFO("data[int(str(%s))]" % ATTR, "data", "int(str(%s))" % ATTR, "'[{}]'.format(int(str(%s)))" % ATTR)),
        "implies(isinstance(data, list) and int_ok(str({a})) and not (-len(data) <= int(str({a})) and int(str({a})) < len(data)), len(out) == 0)".format(a=ATTR),
        "implies(not isinstance(data, (dict, list, set, CommentedSet)), len(out) == 0)",
    ]
    loops = {
        "for eleidx, element in enumerate(list(data))": {"body_ensures": [
            # the element is evaluated at the same segment with its own coordinates (what 933aafa repaired)
            "called('segment') == 1",
            "call_event('segment')[1] is element and call_event('segment')[2] is data and same(call_event('segment')[3], eleidx)",
            "path_is(call_event('segment')[4], translated_path, '[{}]'.format(eleidx))",
            "extended_by(call_event('segment')[5], ancestry, (data, eleidx))",
        ]},
    }
    opts = dict(SEG_INV, event="('handler', 'key', data, yaml_path, segment_index, kw_translated_path, kw_ancestry)", yields=NC)




ANCH = "(hasattr(%s, 'anchor') and " + ATTR + " == %s.anchor.value)"


def WFA(node, parent, ref):
    """Coordinates of what an ANCHOR iteration yields: the anchored member at parent[ref]; the reported path is the
    incoming path plus the `[&name]` segment (computed once, before the loop)."""
    return ["len(yielded) <= 1",
            "implies(len(yielded) == 1, yielded[0].node is %s and yielded[0].parent is %s and same(yielded[0].parentref, %s))" % (node, parent, ref),
            "implies(len(yielded) == 1, extended_by(yielded[0].ancestry, ancestry, (%s, %s)))" % (parent, ref),
            "implies(len(yielded) == 1, yielded[0].path is next_translated_path and same(yielded[0].path_segment, pathseg))"]


@contract(PR + "_get_nodes_by_anchor", props=["C15", "C01", "C02"])
class ByAnchor:
    """ANCHOR segment `&name`.  Over a sequence / a set: one iteration per member, yielding the member exactly when it
    bears the anchor; nothing is yielded outside that loop.  Over a hash: per entry, the value exactly when the key or
    the value bears the anchor (the merge-key look-up that precedes the loop is from-code: safety only).  Each result
    has well-formed coordinates and the path `<incoming>[&name]`."""
    params = dict(KW, yaml_path="YAMLPath", segment_index="int")
    assume_fields = dict(PATH_FIELDS, **{"self.data": "Any"})
    # entered only for ANCHOR segments (whose attribute, by the parser's invariant, is the anchor's name)
    requires = PARSED + ["yaml_path._escaped[segment_index][0] is PathSegmentTypes.ANCHOR"]
    inline = [YP + "escaped", YP + "unescaped"]
    raises = ["YAMLPathException"]
    ensures = [
        "implies(isinstance(data, list), looped('for lstidx, ele in enumerate(list(data))'))",
        "implies(isinstance(data, (CommentedSet, set)) and not isinstance(data, (list, dict)), looped('for ele in list(data)'))",
        "implies(not isinstance(data, (list, dict, CommentedSet, set)), len(out) == 0)",
    ]
    loops = {
        "for lstidx, ele in enumerate(list(data))": {"sole_yielder": True, "body_ensures": WFA("ele", "data", "lstidx") + [
            "(len(yielded) == 1) == %s" % (ANCH % ("ele", "ele"))]},
        "for key, val in list(data.items())": {"body_ensures": WFA("val", "data", "key") + [
            "(len(yielded) == 1) == (%s or %s)" % (ANCH % ("key", "key"), ANCH % ("val", "val"))]},
        "for ele in list(data)": {"sole_yielder": True, "body_ensures": WFA("ele", "data", "ele") + [
            "(len(yielded) == 1) == %s" % (ANCH % ("ele", "ele"))]},
    }
    opts = dict(SEG_INV, event="('handler', 'anchor', data, yaml_path, segment_index, kw_translated_path, kw_ancestry)", yields=NC)


SM = "Searches.search_matches(method, term, %s)"


@contract(PR + "_get_nodes_by_search", props=["C15", "C12", "C01", "C02"])
class BySearch:
    """SEARCH segment `[attr OP term]`, functionally, for the non-descendant forms:
    * over a hash with attr `.`: one iteration per key, each yielding the child under that key exactly when
      search_matches(method, term, key) differs from `inverted` -- and nothing is yielded outside that loop, so the
      result is the keys' filter in document order and the inverted search is its complement;
    * over a set: the same per member; over a sequence: per element, the decision being the iteration's `matches`
      (for attr `.` on a non-record element, and for a record holding attr, that is search_matches of the element /
      of its attr value);
    * over a hash holding attr: that one child, exactly when its value matches (xor inverted);
    * over a scalar: the node itself, exactly when it matches (xor inverted).
    Each yielded NodeCoords is well-formed (C02 wf_step).  search_matches is the deterministic call-site face of
    contracts/c12 (an uninterpreted function of its three arguments here; its own body is verified there).
    Descendant searches (attr is a sub-path) carry the safety clauses only."""
    params = dict(KWP, terms="SearchTerms", kw_traverse_lists="bool")
    assume_fields = {"terms._inverted": "bool", "terms._method": "PathSearchMethods", "terms._attribute": "str", "terms._term": "str"}
    raises = ["YAMLPathException"]
    ensures = [
        "implies(isinstance(data, dict) and not isinstance(data, list) and attr == '.', looped('for key, val in list(data.items())'))",
        "implies(isinstance(data, list) and traverse_lists, looped('for lstidx, ele in enumerate(list(data))'))",
        "implies(isinstance(data, list) and not traverse_lists, len(out) == 0)",
        "implies(isinstance(data, (CommentedSet, set)) and not isinstance(data, (list, dict)), looped('for ele in list(data)'))",
        "implies(isinstance(data, dict) and not isinstance(data, list) and attr != '.' and attr in data,"
        " len(out) <= 1 and (len(out) == 1) == xor(%s, invert))" % (SM % "data[attr]"),
        "implies(isinstance(data, dict) and not isinstance(data, list) and attr != '.' and attr in data and len(out) == 1, %s)"
        % WFO("data[attr]", "data", "attr", ESC.replace("translated_path", "kw_translated_path") % "attr"),
        "implies(not isinstance(data, (list, dict, CommentedSet, set)), len(out) <= 1 and (len(out) == 1) == xor(%s, invert))" % (SM % "data"),
        "implies(not isinstance(data, (list, dict, CommentedSet, set)) and len(out) == 1, out[0].node is data and out[0].parent is parent"
        " and same(out[0].parentref, parentref) and out[0].path is translated_path and out[0].ancestry is ancestry)",
    ]
    loops = {
        "for key, val in list(data.items())": {"sole_yielder": True, "body_ensures": WFY("val", "data", "key", ESC % "key") + [
            "(len(yielded) == 1) == xor(%s, invert)" % (SM % "key")]},
        "for ele in list(data)": {"sole_yielder": True, "body_ensures": WFY("ele", "data", "ele", ESC % "ele") + [
            "(len(yielded) == 1) == xor(%s, invert)" % (SM % "ele")]},
        "for lstidx, ele in enumerate(list(data))": {"sole_yielder": True, "body_ensures": WFY("ele", "data", "lstidx", "'[{}]'.format(lstidx)") + [
            "(len(yielded) == 1) == xor(matches, invert)",
            "implies(attr == '.' and not (is_aoh and isinstance(ele, dict) and term in ele), same(matches, %s))" % (SM % "ele"),
            "implies(attr == '.' and is_aoh and isinstance(ele, dict) and term in ele, matches is True)",
            "implies(attr != '.' and isinstance(ele, dict) and attr in ele, same(matches, %s))" % (SM % "ele[attr]")]},
    }
    opts = dict(SEG_INV, event="('handler', 'search', data, None, terms, kw_translated_path, kw_ancestry, kw_parent, kw_parentref)", yields=NC)


@contract(PR + "_get_nodes_by_match_all_unfiltered", props=["C15", "C01", "C02"])
class MatchAllUnfiltered:
    """`*` as the last segment: every immediate child, once, in document order, each with well-formed
    coordinates (per-iteration post-conditions; the lift to the whole result is for-loop semantics)."""
    params = dict(KWP, yaml_path="YAMLPath", segment_index="int")
    assume_fields = PATH_FIELDS
    requires = PARSED
    inline = [YP + "escaped", YP + "unescaped"]
    raises = ["YAMLPathException"]
    ensures = [
        # ... and nothing else: on a container the only yields are those of the loop over its children
        "implies(isinstance(data, dict), looped('for key, val in data.items()'))",
        "implies(isinstance(data, list), looped('for idx, ele in enumerate(list(data))'))",
        "implies(isinstance(data, (CommentedSet, set)), looped('for ele in list(data)'))",
        "implies(not isinstance(data, (dict, list, CommentedSet, set)), len(out) == 0)",
    ]
    loops = {
        "for key, val in data.items()": {"sole_yielder": True, "body_ensures": WF("val", "data", "key", ESC % "key")},
        "for idx, ele in enumerate(list(data))": {"sole_yielder": True, "body_ensures": WF("ele", "data", "idx", "'[{}]'.format(idx)")},
        "for ele in list(data)": {"sole_yielder": True, "body_ensures": WF("ele", "data", "ele", ESC % "ele")},
    }
    opts = dict(SEG_INV, yields=NC)


def PROBE(child, ref, seg):
    """One pass of the filtered wildcard: the NEXT segment is tried on this child, once, with the child's own coordinates;
    the child is yielded at most once, with well-formed coordinates (that it is yielded exactly when the probe yields
    something is for-loop semantics: the yield is the first statement of the probe loop's body, followed by break)."""
    return WFY(child, "data", ref, seg) + [
        "called('segment') == 1 and %s[1] is %s and %s[2] is data and same(%s[3], %s)" % (SEGC, child, SEGC, SEGC, ref),
        "path_is(%s[4], translated_path, %s) and extended_by(%s[5], ancestry, (data, %s))" % (SEGC, seg, SEGC, ref)]


@contract(PR + "_get_nodes_by_match_all_filtered", props=["C15", "C01", "C02"])
class MatchAllFiltered:
    """`*` followed by further segments: every child of a hash / sequence is probed with the next segment (PROBE) and
    yielded at most once; nothing else is yielded; scalars and sets yield nothing."""
    params = dict(KWP, yaml_path="YAMLPath", segment_index="int")
    assume_fields = PATH_FIELDS
    requires = PARSED + ["segment_index + 1 < seg_count(yaml_path)"]
    inline = [YP + "escaped", YP + "unescaped"]
    raises = ["YAMLPathException"]
    ensures = [
        "implies(isinstance(data, dict), looped('for key, val in list(data.items())'))",
        "implies(isinstance(data, list), looped('for idx, ele in enumerate(list(data))'))",
        "implies(not isinstance(data, (dict, list)), len(out) == 0)",
    ]
    loops = {
        "for key, val in list(data.items())": {"sole_yielder": True, "body_ensures": PROBE("val", "key", ESC % "key")},
        "for idx, ele in enumerate(list(data))": {"sole_yielder": True, "body_ensures": PROBE("ele", "idx", "'[{}]'.format(idx)")},
    }
    opts = dict(SEG_INV, yields=NC)


@contract(PR + "_get_nodes_by_match_all", props=["C15"])
class MatchAll:
    params = dict(KWP, yaml_path="YAMLPath", segment_index="int")
    assume_fields = PATH_FIELDS
    requires = PARSED
    inline = [YP + "escaped", YP + "unescaped"]
    raises = ["YAMLPathException"]
    opts = dict(SEG_INV, event="('handler', 'match_all', data, yaml_path, segment_index, kw_translated_path, kw_ancestry, kw_parent, kw_parentref)", yields=NC)


@contract(PR + "_get_nodes_by_traversal", props=["C15"])
class ByTraversal:
    """`**`, one level of its recursion (the induction is over the finite, acyclic subtree).  In both modes, for every
    child of a hash / sequence: ONE recursive call on the child with the child's own coordinates (parent, reference,
    path + rendered reference, ancestry + (parent, reference)), whose results are relayed unchanged and in order, and
    nothing else is yielded in that pass.  As the last segment: a null and a scalar leaf yield exactly themselves with
    the coordinates they were given; a set yields its members with well-formed coordinates.  (With a following segment,
    the node itself is yielded at most once before its children are visited, when the following segment matches on
    it: safety only.)"""
    params = dict(KWP, yaml_path="YAMLPath", segment_index="int")
    assume_fields = PATH_FIELDS
    requires = PARSED
    inline = [YP + "escaped", YP + "unescaped"]
    raises = ["YAMLPathException"]
    ensures = [
        "implies(segment_index + 1 == seg_count(yaml_path) and data is None, len(out) == 1 and out[0].node is None and same(out[0].parent, parent) "
        "and same(out[0].parentref, parentref) and out[0].path is translated_path and out[0].ancestry is ancestry)",
        "implies(segment_index + 1 == seg_count(yaml_path) and data is not None and not isinstance(data, (dict, list, CommentedSet, set)), "
        "len(out) == 1 and out[0].node is data and same(out[0].parent, parent) and same(out[0].parentref, parentref) "
        "and out[0].path is translated_path and out[0].ancestry is ancestry)",
    ]
    loops = {
        "for key, val in list(data.items())": {"body_ensures": [
            "called('handler') == 1 and %s[1] == 'traverse' and %s[2] is val and %s[7] is data and same(%s[8], key)" % (TRV, TRV, TRV, TRV),
            "path_is(%s[5], translated_path, %s) and extended_by(%s[6], ancestry, (data, key))" % (TRV, ESC % "key", TRV),
            "len(yielded) == 0"]},
        "for idx, ele in enumerate(list(data))": {"body_ensures": [
            "called('handler') == 1 and %s[1] == 'traverse' and %s[2] is ele and %s[7] is data and same(%s[8], idx)" % (TRV, TRV, TRV, TRV),
            "path_is(%s[5], translated_path, '[{}]'.format(idx)) and extended_by(%s[6], ancestry, (data, idx))" % (TRV, TRV),
            "len(yielded) == 0"]},
        "for node_coord in self._get_nodes_by_traversal(val, yaml_path, segment_index, parent=data, parentref=key, "
        "translated_path=next_translated_path, ancestry=next_ancestry)": {
            "sole_yielder": True, "body_ensures": ["len(yielded) == 1 and yielded[0] is node_coord"]},
        "for node_coord in self._get_nodes_by_traversal(ele, yaml_path, segment_index, parent=data, parentref=idx, "
        "translated_path=next_translated_path, ancestry=next_ancestry)": {
            "sole_yielder": True, "body_ensures": ["len(yielded) == 1 and yielded[0] is node_coord"]},
        "for ele in list(data)": {"body_ensures": WF("ele", "data", "ele", ESC % "ele")},
    }
    opts = dict(SEG_INV, yields="NodeCoords", decreases="size of the (finite, acyclic) subtree under `data`",
                event="('handler', 'traverse', data, yaml_path, segment_index, kw_translated_path, kw_ancestry, kw_parent, kw_parentref)")


HND = "call_event('handler')"
SEGT = "yaml_path._escaped[segment_index][0]"


@contract(PR + "_get_nodes_by_path_segment", props=["C15", "C01", "C02", "C12"])
class ByPathSegment:
    """Dispatcher: an out-of-range segment index yields nothing; otherwise exactly ONE handler runs -- the one for the
    segment's type -- on the node the dispatcher was given (a NodeCoords input is unwrapped to its node and its own
    coordinates first), with the path, the segment index and the incoming path / ancestry (and parent / reference where
    the handler takes them) handed on unchanged; a SEARCH / KEYWORD_SEARCH handler receives the segment's attributes from
    the ESCAPED parse (`stripped_attrs`: the term as the user meant it), a COLLECTOR those of the unescaped parse (from-code); what the
    handler yields is relayed unchanged, in order, and nothing else is yielded."""
    params = dict(KWP, yaml_path="YAMLPath", segment_index="int", kw_traverse_lists="bool")
    assume_fields = PATH_FIELDS
    # parser-established: the attribute of an ANCHOR segment is the anchor's name, a str
    requires = INV + ["0 <= segment_index"]
    inline = [YP + "escaped", YP + "unescaped"]
    raises = ["YAMLPathException"]
    ensures = [
        "implies(segment_index >= seg_count(yaml_path), called('handler') == 0)",
        "implies(segment_index < seg_count(yaml_path), called('handler') == 1 and looped('for node_coord in node_coords'))",
        "implies(segment_index < seg_count(yaml_path) and not isinstance(data, NodeCoords), %s[2] is data and %s[5] is translated_path and %s[6] is ancestry)" % (HND, HND, HND),
        "implies(segment_index < seg_count(yaml_path) and isinstance(data, NodeCoords), %s[2] is data.node and %s[6] is data.ancestry)" % (HND, HND),
        "implies(segment_index < seg_count(yaml_path) and %s is PathSegmentTypes.KEY, %s[1] == 'key' and %s[3] is yaml_path and %s[4] == segment_index)" % (SEGT, HND, HND, HND),
        "implies(segment_index < seg_count(yaml_path) and %s is PathSegmentTypes.INDEX, %s[1] == 'index' and %s[3] is yaml_path and %s[4] == segment_index)" % (SEGT, HND, HND, HND),
        "implies(segment_index < seg_count(yaml_path) and %s is PathSegmentTypes.ANCHOR, %s[1] == 'anchor' and %s[3] is yaml_path and %s[4] == segment_index)" % (SEGT, HND, HND, HND),
        "implies(segment_index < seg_count(yaml_path) and %s is PathSegmentTypes.MATCH_ALL, %s[1] == 'match_all' and %s[3] is yaml_path and %s[4] == segment_index "
        "and same(%s[7], parent) and same(%s[8], parentref))" % (SEGT, HND, HND, HND, HND, HND),
        "implies(segment_index < seg_count(yaml_path) and %s is PathSegmentTypes.TRAVERSE, %s[1] == 'traverse' and %s[3] is yaml_path and %s[4] == segment_index "
        "and same(%s[7], parent) and same(%s[8], parentref))" % (SEGT, HND, HND, HND, HND, HND),
        "implies(segment_index < seg_count(yaml_path) and %s is PathSegmentTypes.SEARCH, %s[1] == 'search' and %s[4] is stripped_attrs "
        "and same(%s[7], parent) and same(%s[8], parentref))" % (SEGT, HND, HND, HND, HND),
        "implies(segment_index < seg_count(yaml_path) and %s is PathSegmentTypes.KEYWORD_SEARCH, %s[1] == 'keyword' and %s[3] is yaml_path "
        "and %s[4] is stripped_attrs and same(%s[7], parent) and same(%s[8], parentref))" % (SEGT, HND, HND, HND, HND, HND),
        "implies(segment_index < seg_count(yaml_path) and %s is PathSegmentTypes.COLLECTOR, %s[1] == 'collector' and %s[3] is yaml_path "
        "and %s[4] is unesc_attrs and same(%s[7], parent) and same(%s[8], parentref))" % (SEGT, HND, HND, HND, HND, HND),
    ]
    loops = {"for node_coord in node_coords": {"sole_yielder": True, "body_ensures": ["len(yielded) == 1 and yielded[0] is node_coord"]}}
    opts = dict(SEG_INV, yields=NC, event="('segment', data, kw_parent, kw_parentref, kw_translated_path, kw_ancestry)")


@contract(PR + "_get_nodes_by_keyword_search", props=["C15"])
class ByKeywordSearch:
    params = dict(KWP, yaml_path="YAMLPath", terms="SearchKeywordTerms", kw_traverse_lists="bool", kw_relay_segment="Any")
    assume_fields = PATH_FIELDS
    raises = ["YAMLPathException"]
    opts = dict(SEG_INV, event="('handler', 'keyword', data, yaml_path, terms, kw_translated_path, kw_ancestry, kw_parent, kw_parentref)", yields=NC)


@contract("yamlpath.common.keywordsearches.KeywordSearches.search_matches", props=["C15", "C13"])
class KeywordDispatch:
    params = dict(KWP, terms="SearchKeywordTerms", yaml_path="YAMLPath", kw_traverse_lists="bool", kw_relay_segment="Any")
    assume_fields = dict(PATH_FIELDS, **{"terms._inverted": "bool", "terms._keyword": "PathSearchKeywords", "terms._parameters": "str",
                                         "terms._parameters_parsed": "bool", "terms._lparameters": "List[str]"})
    raises = ["YAMLPathException"]
    opts = dict(SEG_INV, yields=NC)


@contract("yamlpath.path.searchkeywordterms.SearchKeywordTerms.parameters", props=["C15", "C13"])
class KeywordParameters:
    """Splitting the parameter text is total up to the documented ValueError for unmatched demarcation."""
    assume_fields = {"self._inverted": "bool", "self._keyword": "PathSearchKeywords", "self._parameters": "Optional[str]",
                     "self._parameters_parsed": "bool", "self._lparameters": "List[str]"}
    raises = ["ValueError"]
    opts = {"returns": "List[str]"}


@contract(PR + "_get_required_nodes", props=["C15", "C01", "C02"])
class RequiredNodes:
    """The required-match driver, one level of its recursion (the induction over the remaining segments is its
    `decreases`):
    * past the last segment it yields exactly the node it was given, with the coordinates it was given;
    * otherwise it asks the dispatcher for segment `depth` on the given node, ONCE, and for every result of the
      dispatcher makes ONE recursive call at depth + 1 -- on the result's node with the result's own parent,
      reference, path and ancestry (a virtual list result: on the list, keeping the incoming coordinates) -- and
      relays what that call yields, unchanged and in order; it yields nothing else.
    So the sequence it yields is the concatenation, in order, of the recursive results over the dispatcher's results."""
    params = dict(KWP, yaml_path="YAMLPath", depth="int", kw_relay_segment="Any")
    assume_fields = PATH_FIELDS
    requires = INV + ["0 <= depth"]
    inline = [YP + "escaped", YP + "unescaped"]
    raises = ["YAMLPathException"]
    ensures = [
        "implies(depth >= seg_count(yaml_path), len(out) == 1 and out[0].node is data and out[0].parent is parent "
        "and same(out[0].parentref, parentref) and out[0].path is translated_path and out[0].ancestry is ancestry "
        "and same(out[0].path_segment, relay_segment))",
        "implies(depth < seg_count(yaml_path), looped('for segment_node_coords in self._get_nodes_by_path_segment(data, yaml_path, depth, "
        "parent=parent, parentref=parentref, translated_path=translated_path, ancestry=ancestry)'))",
    ]
    loops = {
        "for segment_node_coords in self._get_nodes_by_path_segment(data, yaml_path, depth, parent=parent, parentref=parentref, "
        "translated_path=translated_path, ancestry=ancestry)": {"sole_yielder": True, "body_ensures": [
            "called('required') == 1 and %s[2] is yaml_path and %s[3] == depth + 1 and same(%s[8], pathseg)" % (REQ, REQ, REQ),
            "implies(not isinstance(segment_node_coords, list), %s[1] is segment_node_coords.node and %s[4] is segment_node_coords.parent "
            "and same(%s[5], segment_node_coords.parentref) and %s[6] is segment_node_coords.path and %s[7] is segment_node_coords.ancestry)"
            % (REQ, REQ, REQ, REQ, REQ),
            "implies(isinstance(segment_node_coords, list), %s[1] is segment_node_coords and same(%s[4], parent) and same(%s[5], parentref) "
            "and %s[6] is translated_path and %s[7] is ancestry)" % (REQ, REQ, REQ, REQ, REQ),
            # ... and outside the relay loop below, this iteration yields nothing
            "len(yielded) == 0"]},
        "for subnode_coord in self._get_required_nodes(segment_node_coords, yaml_path, depth + 1, parent=parent, parentref=parentref, "
        "translated_path=translated_path, ancestry=ancestry, relay_segment=pathseg)": {
            "sole_yielder": True, "body_ensures": ["len(yielded) == 1 and yielded[0] is subnode_coord"]},
        "for subnode_coord in self._get_required_nodes(segment_node_coords.node, yaml_path, depth + 1, parent=segment_node_coords.parent, "
        "parentref=segment_node_coords.parentref, translated_path=segment_node_coords.path, ancestry=segment_node_coords.ancestry, "
        "relay_segment=pathseg)": {"sole_yielder": True, "body_ensures": ["len(yielded) == 1 and yielded[0] is subnode_coord"]},
    }
    opts = dict(SEG_INV, yields="NodeCoords", decreases="len(yaml_path) - depth",
                event="('required', data, yaml_path, depth, kw_parent, kw_parentref, kw_translated_path, kw_ancestry, kw_relay_segment)")


@contract("yamlpath.common.nodes.Nodes.node_is_aoh", props=["C15", "C12", "C13"])
class NodeIsAoh:
    """Total predicate.  It returns True only after its loop has passed over every element, and an iteration
    completes only for a dict element (or a null when accept_nulls): so, for callers,
    result => every element is a dict (or None, if nulls are accepted)   [lifted by for-loop semantics]."""
    params = {"kw_accept_nulls": "bool"}
    raises = []
    loops = {"for ele in node": {"body_ensures": [
        "implies(not exited, isinstance(ele, dict) or (accept_nulls and ele is None))"]}}
    ensures = ["implies(result, isinstance(node, (list, set)))"]     # (an empty set, or a set holding only null, also passes)
    opts = {"returns": "bool", "pure": True,
            "elem_fact": {"param": "node", "fact": "implies(result, isinstance(elem, dict) or (kw_accept_nulls and elem is None))"}}


@contract("yamlpath.common.anchors.Anchors.scan_for_anchors", props=["C15"])
class ScanForAnchors:
    """ASSUMED: fills the given dict with anchor name -> node; total on loaded documents."""
    assumed = True
    modifies = ["anchors"]
    notes = "recursive scan of ruamel data; covered by the bounded harness"
    raises = []


for _op in ("addition", "subtraction", "intersection"):
    def _mkc(n):
        @contract(PR + "_collector_" + n, props=["C15"])
        class _C:
            __doc__ = "ASSUMED: the set operation of two gathered result lists (list surgery over NodeCoords: bounded only)."
            assumed = True
            notes = "collector %s: bounded-only (rtc/c01, rtc/c09, rtc/c15)" % n
            raises = ["YAMLPathException"]
            opts = {"returns": "list", "event": "('collector-op', '%s')" % n}
        _C.__name__ = "Collector_" + n
        return _C
    _mkc(_op)


@contract(PR + "_get_nodes_by_collector", props=["C15"])
class ByCollector:
    """The COLLECTOR handler itself: gathers the sub-path's required matches, flattens a lone list result, folds in every
    directly following peer collector with its operator (the three set operations are assumed), and yields the gathered
    list once -- or nothing when it is empty.  Only the YAMLPathException family escapes."""
    params = dict(KWP, yaml_path="YAMLPath", segment_index="int", terms="CollectorTerms")
    assume_fields = dict(PATH_FIELDS, **{"terms._operation": "CollectorOperators", "terms._expression": "str"})
    requires = PARSED
    inline = [YP + "escaped", YP + "unescaped"]
    raises = ["YAMLPathException"]
    loops = {
        "while next_segment_idx < len(segments)": {
            "invariant": ["segment_index < next_segment_idx"],
            "decreases": "len(segments) - next_segment_idx"},
    }
    ensures = ["len(out) <= 1"]
    opts = dict(SEG_INV, event="('handler', 'collector', data, yaml_path, terms, kw_translated_path, kw_ancestry, kw_parent, kw_parentref)", yields=NC,
                heap_fields=dict(SEG_INV["heap_fields"], **{"CollectorTerms._expression": "str", "CollectorTerms.expression": "str", "CollectorTerms._operation": "CollectorOperators", "CollectorTerms.operation": "CollectorOperators"}),
                # the parser attaches an operator only to a collector that directly follows another collector, and the drivers
                # hand that segment the list its predecessor gathered (rtc/c15 raw-text stage: every accepted string)
                assumed_pre=["implies(terms._operation is not CollectorOperators.NONE, isinstance(data, list))"])


KS = "yamlpath.common.keywordsearches.KeywordSearches."
KW_TERMS = {"terms._inverted": "bool", "terms._keyword": "PathSearchKeywords", "terms._parameters": "str",
            "terms._parameters_parsed": "bool", "terms._lparameters": "List[str]"}
# keyword implementations still ASSUMED at the dispatcher.  has_child (+ its two helpers), name and parent are verified.
# max / min / unique / distinct are not: their subscripts are safe only because unwrap_node_coords(data)[i] is
# unwrap_node_coords(data[i]) -- an element-wise fact about a recursive function that this encoding does not carry
# (their other obligations discharge; the bounded harnesses rtc/c13 and rtc/c15 exercise them)
KW_ASSUMED = ("max", "min", "unique", "distinct")
KW_LOOPS = {
    "parent": {
        # climbing: one ancestry entry and one path segment per step; the copies shrink in step with the counter
        "for _ in range(parent_levels)": {
            "ghost": {"n0": "len(ancestry)"},
            "invariant": ["len(ancestry) == n0 - iters", "ancestry_len == n0 - iters", "parent_levels <= n0", "iters <= parent_levels"],
        },
    },
}
for _name in ("distinct", "has_child", "name", "max", "min", "parent", "unique"):
    def _mk(n):
        @contract(KS + n, props=["C15", "C13"])
        class _K:
            __doc__ = ("Keyword %s(): for ANY data, any parsed path and any parameter text, only the YAMLPathException family escapes "
                       "(K1 at every subscript / ordering / hashing / attribute site)." % n)
            assumed = n in KW_ASSUMED
            notes = "keyword implementation %s: bounded-only" % n if n in KW_ASSUMED else ""
            params = dict(KWP, terms="SearchKeywordTerms", yaml_path="YAMLPath", kw_traverse_lists="bool", kw_relay_segment="Any",
                          invert="bool", parameters="List[str]")
            assume_fields = dict(PATH_FIELDS, **KW_TERMS)
            raises = ["YAMLPathException"]
            loops = KW_LOOPS.get(n, {})
            opts = dict(SEG_INV, yields="Union[NodeCoords, list]")
        _K.__name__ = "Keyword_" + n
        return _K
    _mk(_name)


NODES = "yamlpath.common.nodes.Nodes."


@contract(NODES + "wrap_type", props=["C15"])
class WrapType:
    """ruamel wrapper construction (CommentedSeq(value), ScalarInt(value), ...): library constructors, not modelled."""
    assumed = True
    notes = "library constructors; total for the values a query passes (None or a plain scalar)"
    raises = []
    opts = {"returns": "Any"}


@contract(NODES + "build_next_node", props=["C15"])
class BuildNextNode:
    assumed = True
    notes = "builds a fresh ruamel container / wrapper for the next segment; reads the parsed path only"
    params = {"yaml_path": "YAMLPath", "depth": "int"}
    raises = []
    opts = {"returns": "Any"}


@contract(NODES + "append_list_element", props=["C15"])
class AppendListElement:
    """Appends exactly one element; ValueError only on the anchor-naming arm."""
    assumed = True
    notes = "list.append plus ruamel comment bookkeeping (data.ca.items); the length effect is what callers rely on"
    ghost = {"n0": "len(data)"}
    requires = ["isinstance(data, list)"]
    modifies = ["data"]
    ensures = ["len(data) == n0 + 1"]
    raises = []
    opts = {"returns": "Any"}


@contract(PR + "_get_optional_nodes", props=["C15"])
class OptionalNodes:
    """Optional-match driver (also the creation path of set_value): for ANY data, any parsed path and depth, only
    the YAMLPathException family escapes -- in particular the list-padding arm `data[newidx]` after the append loop.
    The recursive call may create nodes anywhere below: frame `*` (every container content is havoced)."""
    params = dict(KWP, yaml_path="YAMLPath", depth="int", kw_relay_segment="Any")
    assume_fields = PATH_FIELDS
    requires = INV + ["0 <= depth"]
    inline = [YP + "escaped", YP + "unescaped"]
    modifies = ["*"]
    raises = ["YAMLPathException"]
    # functional part (C01 / C02 / C09), one level of the recursion:
    #  * past the last segment: exactly the node it was given, with the coordinates it was given;
    #  * every result of the dispatcher for segment `depth` is followed up ONCE at depth + 1 on that result's own node,
    #    parent, reference, path and ancestry (a virtual list result keeps the incoming coordinates; a null result of
    #    the last segment is yielded as it is), the follow-up's yields are relayed unchanged, nothing else is yielded in
    #    that pass, and the match counter goes up by one;
    #  * padding appends one element per pass (invariant), so a sequence grows exactly up to the requested index.
    ensures = [
        "implies(depth >= seg_count(yaml_path), len(out) == 1 and out[0].node is data and same(out[0].parent, parent) "
        "and same(out[0].parentref, parentref) and out[0].path is translated_path and out[0].ancestry is ancestry "
        "and same(out[0].path_segment, relay_segment))",
    ]
    loops = {
        "for _ in range(len(data) - 1, newidx)": {
            "ghost": {"n0": "len(data)"},
            "invariant": ["len(data) == n0 + iters"],
        },
        "for next_coord in self._get_nodes_by_path_segment(data, yaml_path, depth, parent=parent, parentref=parentref, "
        "translated_path=translated_path, ancestry=ancestry)": {"body_ensures": [
            "matched_nodes == pre_matched_nodes + 1",
            "implies(isinstance(next_coord, list), called('optional') == 1 and %s[1] is next_coord and %s[3] == depth + 1 "
            "and same(%s[4], parent) and same(%s[5], parentref) and %s[6] is translated_path and %s[7] is ancestry)"
            % (OPTC, OPTC, OPTC, OPTC, OPTC, OPTC),
            "implies(not isinstance(next_coord, list) and not (next_coord.node is None and depth + 1 >= seg_count(yaml_path)), "
            "called('optional') == 1 and %s[1] is next_coord.node and %s[3] == depth + 1 and %s[4] is next_coord.parent "
            "and same(%s[5], next_coord.parentref) and %s[6] is next_coord.path and %s[7] is next_coord.ancestry)"
            % (OPTC, OPTC, OPTC, OPTC, OPTC, OPTC),
            "implies(not isinstance(next_coord, list) and next_coord.node is None and depth + 1 >= seg_count(yaml_path), "
            "called('optional') == 0 and len(yielded) == 1 and yielded[0] is next_coord)",
            "implies(called('optional') == 1, len(yielded) == 0 and same(%s[2], value) and same(%s[8], pathseg))" % (OPTC, OPTC)]},
        "for node_coord in self._get_optional_nodes(next_coord, yaml_path, value, depth + 1, parent=parent, parentref=parentref, "
        "translated_path=translated_path, ancestry=ancestry, relay_segment=pathseg)": {
            "sole_yielder": True, "body_ensures": ["len(yielded) == 1 and yielded[0] is node_coord"]},
        "for node_coord in self._get_optional_nodes(next_coord.node, yaml_path, value, depth + 1, parent=next_coord.parent, "
        "parentref=next_coord.parentref, translated_path=next_coord.path, ancestry=next_coord.ancestry, relay_segment=pathseg)": {
            "sole_yielder": True, "body_ensures": ["len(yielded) == 1 and yielded[0] is node_coord"]},
    }
    opts = dict(SEG_INV, yields="NodeCoords", decreases="len(yaml_path) - depth",
                event="('optional', data, value, depth, kw_parent, kw_parentref, kw_translated_path, kw_ancestry, kw_relay_segment)")


for _name in ("_has_concrete_child", "_has_anchored_child"):
    def _mk2(n):
        @contract(KS + n, props=["C15", "C13"])
        class _H:
            __doc__ = "has_child() helper %s: only the YAMLPathException family escapes." % n
            params = dict(KWP, yaml_path="YAMLPath", kw_traverse_lists="bool", kw_relay_segment="Any", invert="bool", parameters="List[str]")
            assume_fields = PATH_FIELDS
            requires = ["len(parameters) >= 1"] + (["len(parameters[0]) >= 1"] if n == "_has_anchored_child" else [])
            raises = ["YAMLPathException"]
            loops = {
                # Array-of-Hashes pass-through: each element is examined with ITS OWN index, path and ancestry (new objects)
                "for idx, ele in enumerate(list(data))": {"body_ensures": [
                    "called('has_child') <= 1",
                    "implies(called('has_child') == 1, call_event('has_child')[1] is ele and call_event('has_child')[2] is data "
                    "and same(call_event('has_child')[3], idx))",
                    "implies(called('has_child') == 1, path_is(call_event('has_child')[4], translated_path, '[{}]'.format(str(idx))))",
                    "implies(called('has_child') == 1, extended_by(call_event('has_child')[5], ancestry, (data, idx)))",
                ]},
            } if n == "_has_anchored_child" else {}
            # C13, the definition of has_child on ONE hash / plain list / null: the node itself is the answer exactly when
            # "has the named key (element)" differs from `invert`; the result carries the coordinates it was given
            ensures = [
                "implies(isinstance(data, dict), len(out) == (1 if ((parameters[0] in data) != invert) else 0))",
                "implies(isinstance(data, dict) and len(out) == 1, out[0].node is data and out[0].parent is kw_parent "
                "and same(out[0].parentref, kw_parentref) and out[0].path is kw_translated_path and out[0].ancestry is kw_ancestry)",
                "implies(data is None, len(out) == (1 if invert else 0))",
            ] if n == "_has_concrete_child" else []
            opts = dict(SEG_INV, yields="Union[NodeCoords, list]", decreases="size of the (finite, acyclic) subtree under `data`",
                        event="('has_child', data, kw_parent, kw_parentref, kw_translated_path, kw_ancestry)")
        _H.__name__ = "Keyword" + n
        return _H
    _mk2(_name)


@contract("yamlpath.wrappers.nodecoords.NodeCoords.unwrap_node_coords", props=["C15", "C13"])
class UnwrapNodeCoords:
    """Strips the wrappers off a (possibly nested) result: total; it raises nothing."""
    raises = []
    opts = {"returns": "Any", "decreases": "nesting depth of the wrapped value (finite: wrappers are built bottom-up)",
            "heap_fields": {"NodeCoords.node": "Any"}}


# ---------------------------------------------------------------------------------------------------
# the public entry points: which driver answers, and that its answer is relayed unchanged (C01)
# ---------------------------------------------------------------------------------------------------
PROC_FIELDS = {"self.data": "Any"}


def _entry_points(ptype, tag):
    @contract(PR + "exists", props=["C01", "C15"])
    class Exists:
        """exists(path) is True exactly when the REQUIRED-match driver, run on the whole document, yields something;
        a null document has no paths.  (Two faces: the path given as a YAMLPath object / as text.)"""
        params = {"yaml_path": ptype, "kw_pathsep": "PathSeparators"}
        assume_fields = dict(PROC_FIELDS, **PATH_FIELDS)
        requires = INV if ptype == "YAMLPath" else []        # a YAMLPath object comes with its class invariant
        raises = ["YAMLPathException"]
        loops = {"for _ in self._get_required_nodes(self.data, yaml_path)": {"invariant": ["matched_nodes == iters"]}}
        ensures = [
            "implies(self.data is None, result is False and called('required') == 0)",
            "implies(self.data is not None, called('required') == 1 and call_event('required')[1] is self.data)",
            "implies(self.data is not None, result == (yield_count('required') > 0))",
        ]
        opts = dict(SEG_INV, returns="bool")
    Exists.__name__ = "Exists_" + tag

    @contract(PR + "get_nodes", props=["C01", "C15"])
    class GetNodes:
        """get_nodes relays, unchanged and in order, what ONE driver yields on the whole document: the required-match
        driver when mustexist (raising UnmatchedYAMLPathException exactly when that yielded nothing), else the optional one."""
        params = {"yaml_path": ptype, "kw_mustexist": "bool", "kw_pathsep": "PathSeparators"}
        assume_fields = dict(PROC_FIELDS, **PATH_FIELDS)
        requires = INV if ptype == "YAMLPath" else []
        raises = ["YAMLPathException"]
        loops = {
            "for node_coords in self._get_required_nodes(self.data, yaml_path)": {
                "invariant": ["matched_nodes == iters"],
                "body_ensures": ["len(yielded) == 1 and yielded[0] is node_coords"]},
            "for opt_node in self._get_optional_nodes(self.data, yaml_path, default_value)": {
                "body_ensures": ["len(yielded) == 1 and yielded[0] is opt_node"]},
        }
        ensures = [
            "implies(self.data is not None and kw_mustexist, called('required') == 1 and called('optional') == 0 "
            "and call_event('required')[1] is self.data and yield_count('required') >= 1)",
            "implies(self.data is not None and not kw_mustexist, called('optional') == 1 and called('required') == 0 "
            "and call_event('optional')[1] is self.data)",
        ]
        opts = dict(SEG_INV, yields="NodeCoords")
    GetNodes.__name__ = "GetNodes_" + tag


_entry_points("YAMLPath", "path")
_entry_points("str", "text")


# ---------------------------------------------------------------------------------------------------
# set_value: every gathered match is changed, once, to the given value (C03)
# ---------------------------------------------------------------------------------------------------
@contract(PR + "_apply_change", props=["C03"])
class ApplyChange:
    """ASSUMED here (the change itself -- replacement by identity through all aliases, value formats, tags -- is checked
    bounded by rtc/c03): it edits the document and may refuse with a YAMLPathException."""
    assumed = True
    notes = "the node replacement (Processor._update_node, Nodes.make_new_node) is bounded-only: rtc/c03"
    modifies = ["*"]
    raises = ["YAMLPathException"]
    opts = {"event": "('apply', node_coord, value)"}


def _set_value(ptype, tag):
    @contract(PR + "set_value", props=["C03", "C09"])
    class SetValue:
        """set_value gathers EVERY match of one driver first (the required one when mustexist, else the optional / creating
        one, which is handed the value as its default) and then applies the change to each gathered match exactly once, with
        the given value; mustexist and no match -> UnmatchedYAMLPathException (a YAMLPathException)."""
        params = {"yaml_path": ptype, "kw_mustexist": "bool", "kw_pathsep": "PathSeparators"}
        assume_fields = dict(PROC_FIELDS, **PATH_FIELDS)
        requires = INV if ptype == "YAMLPath" else []
        raises = ["YAMLPathException"]
        loops = {
            "for req_node in list(self._get_required_nodes(self.data, yaml_path))": {
                "invariant": ["found_nodes == iters"],
                "body_ensures": ["called('apply') == 1 and call_event('apply')[1] is req_node and same(call_event('apply')[2], value)"]},
            "for node_coord in list(self._get_optional_nodes(self.data, yaml_path, value))": {
                "body_ensures": ["called('apply') == 1 and call_event('apply')[1] is node_coord and same(call_event('apply')[2], value)"]},
        }
        ensures = [
            "implies(self.data is None, called('required') == 0 and called('optional') == 0)",       # a null document is refused
            "implies(self.data is not None and kw_mustexist, called('required') == 1 and called('optional') == 0 "
            "and call_event('required')[1] is self.data and yield_count('required') >= 1)",
            "implies(self.data is not None and not kw_mustexist, called('optional') == 1 and called('required') == 0 "
            "and call_event('optional')[1] is self.data)",
        ]
        opts = dict(SEG_INV)
    SetValue.__name__ = "SetValue_" + tag


_set_value("YAMLPath", "path")
_set_value("str", "text")


# ---------------------------------------------------------------------------------------------------
# delete_nodes: every match of the required driver is gathered, then all of them are handed to the deletion (C04)
# ---------------------------------------------------------------------------------------------------
@contract(PR + "_delete_nodes", props=["C04"])
class DeleteGathered:
    """ASSUMED here (which document nodes go, in which order, is checked bounded by rtc/c04): edits the document or
    refuses with a YAMLPathException (deleting the document root)."""
    assumed = True
    notes = "the deletion itself (flattening of virtual results, per-sequence index sets, YAML merge keys) is bounded-only: rtc/c04"
    modifies = ["*"]
    raises = ["YAMLPathException"]
    opts = {"event": "('delete', delete_nodes, len(delete_nodes))"}


def _delete_nodes(ptype, tag):
    @contract(PR + "delete_nodes", props=["C04"])
    class DeleteNodes:
        """delete_nodes yields and gathers EVERY match of the required-match driver (nothing is deleted while matches are
        still being produced), then hands exactly the gathered list -- all of it -- to the deletion, once, and only when
        something matched."""
        params = {"yaml_path": ptype, "kw_pathsep": "PathSeparators"}
        assume_fields = dict(PROC_FIELDS, **PATH_FIELDS)
        requires = INV if ptype == "YAMLPath" else []
        raises = ["YAMLPathException"]
        loops = {
            "for node_coords in self._get_required_nodes(self.data, yaml_path)": {
                "invariant": ["len(gathered_nodes) == iters"],
                "body_ensures": ["len(yielded) == 1 and yielded[0] is node_coords", "called('delete') == 0"]},
        }
        ensures = [
            "implies(self.data is None, called('required') == 0 and called('delete') == 0)",
            "implies(self.data is not None, called('required') == 1 and call_event('required')[1] is self.data)",
            "implies(self.data is not None and yield_count('required') > 0, called('delete') == 1 "
            "and call_event('delete')[1] is gathered_nodes and call_event('delete')[2] == yield_count('required'))",
            "implies(self.data is not None and yield_count('required') == 0, called('delete') == 0)",
        ]
        opts = dict(SEG_INV, yields="NodeCoords")
    DeleteNodes.__name__ = "DeleteNodes_" + tag


_delete_nodes("YAMLPath", "path")
_delete_nodes("str", "text")
