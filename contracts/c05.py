"""Contracts for C05 -- the per-path configuration lookup the merge policies go through.

`MergerConfig._get_config_for` decides which `[rules]` / `[keys]` entry governs a node.  The statement's
"policies ... given as defaults or as per-path rules" rests on this: a rule governs exactly the node it
names -- the SAME position (parent object and reference) holding an equal value -- and no other.
Proved iteration by iteration (the loop returns at the first entry that names the node, and only there).
The merge algorithms themselves are checked bounded (rtc/c05.py).
"""
from pyvc.dsl import contract

MC = "yamlpath.merger.mergerconfig.MergerConfig."
NAMES = ("(rule_coord.node == node_coord.node and rule_coord.parent is node_coord.parent"
         " and rule_coord.parentref == node_coord.parentref)")


@contract(MC + "_get_config_for", props=["C05", "C11"])
class GetConfigFor:
    params = {"node_coord": "NodeCoords", "section": "Dict[NodeCoords, str]"}
    assume_fields = {"self.config": "Any"}
    raises = []
    loops = {
        "for rule_coord, rule_config in section.items()": {
            "body_ensures": [
                # the entry is taken exactly when it names this very position with an equal value ...
                "exited == %s" % NAMES,
                # ... and then its text is the answer
                "implies(exited, returned == str(rule_config))",
            ],
        },
    }
    ensures = ["isinstance(result, str)", "implies(self.config is None, result == '')"]
    opts = {"returns": "str", "heap_fields": {"NodeCoords.node": "Any", "NodeCoords.parent": "Any", "NodeCoords.parentref": "Any"}}


# ---------------------------------------------------------------------------------------------------
# the policy ladders: per-path rule > command line > [defaults] of the configuration file > built-in
# ---------------------------------------------------------------------------------------------------
@contract(MC + "_get_rule_for", props=["C05", "C11"])
class GetRuleFor:
    """Relays to _get_config_for(node_coord, self.rules); deterministic and effect-free: callers see a function of
    (self, node_coord)."""
    params = {"node_coord": "NodeCoords"}
    assume_fields = {"self.config": "Any", "self.rules": "Dict[NodeCoords, str]"}
    raises = []
    opts = {"returns": "str", "pure": True}


def _from_str(cls):
    @contract("yamlpath.merger.enums.%s.%s.from_str" % (cls.lower(), cls), props=["C05", "C11"])
    class FromStr:
        """Name -> member (case-insensitive), NameError for an unknown name; a function of the text."""
        assumed = True
        notes = "enum lookup by upper-cased name (Enum[...] / get_names are library machinery); total up to the documented NameError"
        raises = ["NameError"]
        opts = {"returns": cls, "pure": True}
    FromStr.__name__ = "FromStr" + cls
    return FromStr


for _cls in ("HashMergeOpts", "ArrayMergeOpts", "AoHMergeOpts", "SetMergeOpts"):
    _from_str(_cls)

# A-CFG: the configparser object is read through `in` and `[...]` only; it is modelled as a mapping of mappings
CFG = {"self.config": "Optional[Dict[str, Dict[str, str]]]", "self.args": "Any", "self.rules": "Dict[NodeCoords, str]"}


def _ladder(fn, cls, opt, default):
    ini = "(self.config is not None and 'defaults' in self.config and '%s' in self.config['defaults'])" % opt
    cli = "(hasattr(self.args, '%s') and self.args.%s)" % (opt, opt)
    rule = "self._get_rule_for(node_coord)"

    @contract(MC + fn, props=["C05", "C11"])
    class Ladder:
        params = {"node_coord": "NodeCoords"}
        assume_fields = CFG
        raises = ["NameError"]
        ensures = [
            "implies(bool({rule}), result is {cls}.from_str({rule}))".format(rule=rule, cls=cls),
            "implies(not {rule} and bool({cli}), result is {cls}.from_str(self.args.{opt}))".format(rule=rule, cli=cli, cls=cls, opt=opt),
            "implies(not {rule} and not {cli} and {ini}, result is {cls}.from_str(self.config['defaults']['{opt}']))".format(
                rule=rule, cli=cli, ini=ini, cls=cls, opt=opt),
            "implies(not {rule} and not {cli} and not {ini}, result is {cls}.{default})".format(rule=rule, cli=cli, ini=ini, cls=cls, default=default),
        ]
        opts = {"returns": cls}
    Ladder.__name__ = "Ladder_" + fn
    return Ladder


_ladder("hash_merge_mode", "HashMergeOpts", "hashes", "DEEP")
_ladder("array_merge_mode", "ArrayMergeOpts", "arrays", "ALL")
_ladder("aoh_merge_mode", "AoHMergeOpts", "aoh", "ALL")
_ladder("set_merge_mode", "SetMergeOpts", "sets", "UNIQUE")


@contract(MC + "_get_key_for", props=["C05", "C11"])
class GetKeyFor:
    params = {"node_coord": "NodeCoords"}
    assume_fields = {"self.config": "Any", "self.keys": "Dict[NodeCoords, str]"}
    raises = []
    opts = {"returns": "str", "pure": True}


@contract(MC + "aoh_merge_key", props=["C05", "C11"])
class AohMergeKey:
    """Identity key of an Array-of-Hashes: the [keys] entry naming the node; else the entry naming its parent;
    else the first key of the record at hand."""
    params = {"node_coord": "NodeCoords", "data": "dict"}
    assume_fields = {"self.config": "Any", "self.keys": "Dict[NodeCoords, str]"}
    raises = []
    loops = {
        "for eval_nc, eval_key in self.keys.items()": {
            "body_ensures": ["exited == (node_coord.parent == eval_nc.node)", "implies(exited, merge_key is eval_key)"],
        },
    }
    ensures = ["implies(bool(self._get_key_for(node_coord)), result == self._get_key_for(node_coord))"]
    opts = {"heap_fields": {"NodeCoords.node": "Any", "NodeCoords.parent": "Any", "NodeCoords.parentref": "Any"}}


# ---------------------------------------------------------------------------------------------------
# C10: where the anchor-conflict policy comes from (no per-path rules: anchors belong to the whole file)
# ---------------------------------------------------------------------------------------------------
@contract("yamlpath.merger.enums.anchorconflictresolutions.AnchorConflictResolutions.from_str", props=["C10"])
class FromStrAnchors:
    assumed = True
    notes = "enum lookup by upper-cased name; total up to the documented NameError"
    raises = ["NameError"]
    opts = {"returns": "AnchorConflictResolutions", "pure": True}


@contract(MC + "anchor_merge_mode", props=["C10"])
class AnchorLadder:
    """command line > [defaults] of the configuration file > built-in STOP -- as far as the library sees the arguments
    (that argparse hands over None when --anchors is not given is the command-line glue: rtc/c10's policy-source stage)."""
    assume_fields = CFG
    raises = ["NameError"]
    ensures = [
        "implies(hasattr(self.args, 'anchors') and bool(self.args.anchors), result is AnchorConflictResolutions.from_str(self.args.anchors))",
        "implies(not (hasattr(self.args, 'anchors') and bool(self.args.anchors)) and self.config is not None and 'defaults' in self.config "
        "and 'anchors' in self.config['defaults'], result is AnchorConflictResolutions.from_str(self.config['defaults']['anchors']))",
        "implies(not (hasattr(self.args, 'anchors') and bool(self.args.anchors)) and not (self.config is not None and 'defaults' in self.config "
        "and 'anchors' in self.config['defaults']), result is AnchorConflictResolutions.STOP)",
    ]
    opts = {"returns": "AnchorConflictResolutions"}
