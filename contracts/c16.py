"""Contracts for C16 -- plumbing of the command-line tools that decides an exit status.

`yaml_diff.print_report` returns what becomes yaml-diff's exit status: True exactly when some entry of the Differ's
report is not SAME -- whatever the output options (--quiet, --same, --onlysame) say about PRINTING.
Proved per iteration: the flag after an entry == the flag before it, or the entry is a difference.  The rest of the
tools (argument handling, I/O, formats) is checked bounded by rtc/c16.py.
"""
from pyvc.dsl import contract


@contract("yamlpath.differ.differ.Differ.get_report", props=["C16"])
class GetReport:
    assumed = True
    notes = "the Differ's report generator (property C06): yields DiffEntry objects; sorting and filtering are its own business"
    raises = []
    opts = {"yields": "DiffEntry"}


@contract("yamlpath.commands.yaml_diff.print_report", props=["C16"])
class PrintReport:
    params = {"diff": "Differ"}
    requires = ["hasattr(args, 'quiet') and hasattr(args, 'verbose') and hasattr(args, 'debug') and hasattr(args, 'onlysame') "
                "and hasattr(args, 'same') and hasattr(args, 'pathsep')"]
    raises = []
    loops = {
        "for entry in diff.get_report()": {
            "invariant": ["isinstance(changes_found, bool)"],
            "body_ensures": ["changes_found == (pre_changes_found or (entry.action is not DiffActions.SAME))"],
        },
    }
    ensures = ["isinstance(result, bool)"]
    opts = {"returns": "bool", "heap_fields": {"DiffEntry.action": "DiffActions"}}


for _attr in ("pathsep", "verbose"):
    def _mk(a):
        @contract("yamlpath.differ.diffentry.DiffEntry.%s.setter" % a, props=["C16"])
        class _S:
            __doc__ = "presentation setting of a report entry (how it prints): no effect on its action"
            assumed = True
            notes = "DiffEntry.%s setter: presentation only" % a
            raises = []
        _S.__name__ = "DiffEntrySet_" + a
        return _S
    _mk(_attr)


# ---------------------------------------------------------------------------------------------------
# yaml-validate: exit 0 exactly when every document of every file loads
# ---------------------------------------------------------------------------------------------------
YV = "yamlpath.commands.yaml_validate."


@contract("yamlpath.common.parsers.Parsers.get_yaml_multidoc_data", props=["C16"])
class MultidocData:
    assumed = True
    notes = "the loader (ruamel + I/O): yields (document, loaded?) once per document of the stream; a document that fails to load is reported as (None, False)"
    raises = []
    opts = {"yields": "Tuple[Any, bool]"}


@contract(YV + "process_file", props=["C16"])
class ValidateProcessFile:
    """The status of one file is 2 exactly when one of its documents did not load (per iteration: the status is non-zero
    afterwards iff it was before or this document failed), else 0."""
    params = {"yaml_file": "str"}
    raises = []
    loops = {"for _, doc_loaded in Parsers.get_yaml_multidoc_data(yaml, logcap, yaml_file)": {
        "invariant": ["exit_state == 0 or exit_state == 2"],
        "body_ensures": ["(exit_state != 0) == (pre_exit_state != 0 or not doc_loaded)"]}}
    ensures = ["result == 0 or result == 2"]
    opts = {"returns": "int", "event": "('process_file', yaml_file, result)", "heap_fields": {"LogErrorCap.lines": "List[str]"}}


@contract(YV + "processcli", props=["C16"])
class ValidateProcessCli:
    assumed = True
    notes = "argparse: returns the parsed arguments (or exits)"
    raises = ["SystemExit"]
    ensures = ["hasattr(result, 'nostdin') and isinstance(result.nostdin, bool)", "hasattr(result, 'yaml_files') and isinstance(result.yaml_files, list)"]
    opts = {"returns": "Any"}


@contract(YV + "validateargs", props=["C16"])
class ValidateValidateArgs:
    assumed = True
    notes = "argument validation (exits with status 1 on a documented misuse)"
    raises = ["SystemExit"]


@contract(YV + "main", props=["C16"])
class ValidateMain:
    """The exit status handed to sys.exit is non-zero exactly when some file's status was non-zero (per iteration: non-zero
    afterwards iff it was before or this file's status is); a failure is never overwritten by a later success."""
    raises = ["SystemExit"]
    loops = {"for yaml_file in args.yaml_files": {
        "elem_assume": ["isinstance(yaml_file, str)"],
        "body_ensures": ["(exit_state != 0) == (pre_exit_state != 0 or proc_state != 0)",
                         "called('process_file') == 1 and call_event('process_file')[1] is yaml_file and same(call_event('process_file')[2], proc_state)"]}}
    opts = {"exc_ensures": {"SystemExit": ["called('exit') <= 1", "implies(called('exit') == 1, same(call_event('exit')[1], exit_state))"]}}


# ---------------------------------------------------------------------------------------------------
# yaml-diff: which documents are compared, and the exit status
# ---------------------------------------------------------------------------------------------------
YD = "yamlpath.commands.yaml_diff."


@contract("yamlpath.wrappers.consoleprinter.ConsolePrinter.critical", props=["C16"])
class LogCritical:
    assumed = True
    notes = "ConsolePrinter.critical(message, exit_code): prints and ends the process with sys.exit(exit_code) -- it does not return"
    raises = ["SystemExit"]
    opts = {"noreturn": True}


@contract(YD + "get_doc", props=["C16"])
class DiffGetDoc:
    """Selecting one document of a multi-document source: for ANY integer index the outcome is that document or a
    reported error (SystemExit), never another exception; a returned document is the one at that index (a negative
    index counting from the end is from-code: the option's help says zero-based, the code has always accepted -1)."""
    params = {"log": "ConsolePrinter", "docs": "list", "index": "int"}
    raises = ["SystemExit"]
    ensures = ["-len(docs) <= index and index < len(docs) and result is docs[index]"]


@contract(YD + "get_docs", props=["C16"])
class DiffGetDocs:
    """All documents of one source, or ([], False) as soon as one fails to load (or the file is missing)."""
    params = {"log": "ConsolePrinter", "yaml_file": "str"}
    raises = []
    loops = {"for yaml_data, doc_loaded in Parsers.get_yaml_multidoc_data(yaml_editor, log, yaml_file)": {
        "invariant": ["docs_loaded", "len(docs) == iters"],
        "body_ensures": ["exited == (not doc_loaded)", "implies(exited, not docs_loaded and len(docs) == 0)"]}}
    ensures = ["isinstance(result[1], bool)", "implies(not result[1], len(result[0]) == 0)"]
    opts = {"returns": "Tuple[list, bool]"}


@contract("ext:os.path.isfile", props=["C16"])
class IsFile:
    assumed = True
    notes = "os.path.isfile"
    raises = []
    opts = {"returns": "bool"}


@contract(YD + "processcli", props=["C16"])
class DiffProcessCli:
    assumed = True
    notes = "argparse: returns the parsed arguments (or exits); exactly two YAML_FILEs are required by the parser (nargs=2)"
    raises = ["SystemExit"]
    ensures = ["hasattr(result, 'yaml_files') and isinstance(result.yaml_files, list) and len(result.yaml_files) == 2",
               "isinstance(result.yaml_files[0], str) and isinstance(result.yaml_files[1], str)",
               "hasattr(result, 'ignore_eyaml_values') and hasattr(result, 'eyaml') and hasattr(result, 'publickey') and hasattr(result, 'privatekey')",
               # -L / -R are declared type=int
               "hasattr(result, 'left_document_index') and (result.left_document_index is None or (isinstance(result.left_document_index, int) and not isinstance(result.left_document_index, bool)))",
               "hasattr(result, 'right_document_index') and (result.right_document_index is None or (isinstance(result.right_document_index, int) and not isinstance(result.right_document_index, bool)))"]
    opts = {"returns": "Any"}


@contract(YD + "validateargs", props=["C16"])
class DiffValidateArgs:
    assumed = True
    notes = "argument validation (exits with status 1 on a documented misuse)"
    raises = ["SystemExit"]


@contract("yamlpath.differ.differ.Differ.__init__", props=["C16"])
class DifferInit:
    assumed = True
    notes = "Differ construction (property C06)"
    raises = []


@contract("yamlpath.differ.differconfig.DifferConfig.__init__", props=["C16"])
class DifferConfigInit:
    assumed = True
    notes = "reads the optional INI file named by --config (validated before)"
    raises = []


@contract("yamlpath.differ.differ.Differ.compare_to", props=["C16"])
class CompareTo:
    assumed = True
    notes = "the comparison (property C06)"
    raises = ["EYAMLCommandException"]
    opts = {"event": "('compare', self, document)"}


@contract(YD + "print_report", props=["C16"])
class PrintReportCall:
    assumed = True
    notes = "call-site face of print_report (verified above): a bool, and the fact of the call"
    raises = []
    opts = {"callsite": True, "returns": "bool", "event": "('report', result)"}


@contract(YD + "main", props=["C16"])
class DiffMain:
    """yaml-diff: a source that does not load ends with status 1 before anything is compared; otherwise exactly one
    comparison (left document against right document) and the status is 1 exactly when print_report says there are
    differences."""
    raises = ["SystemExit"]
    opts = {"exc_ensures": {"SystemExit": [
        "called('compare') <= 1 and called('report') <= 1 and called('exit') <= 1",
        # a status other than 1 is only ever the report's verdict
        "implies(called('exit') == 1 and called('report') == 0, same(call_event('exit')[1], 1) and called('compare') == 0)",
        "implies(called('report') == 1, called('compare') == 1 and called('exit') == 1 and same(call_event('exit')[1], 1 if call_event('report')[1] else 0))",
    ]}}


# ---------------------------------------------------------------------------------------------------
# yaml-get: one printed line per matched node; status 0 only when the query matched
# ---------------------------------------------------------------------------------------------------
YG = "yamlpath.commands.yaml_get."


@contract(YG + "processcli", props=["C16"])
class GetProcessCli:
    assumed = True
    notes = "argparse: returns the parsed arguments (or exits)"
    raises = ["SystemExit"]
    ensures = ["hasattr(result, 'query') and hasattr(result, 'pathsep') and hasattr(result, 'yaml_file') and hasattr(result, 'eyaml') "
               "and hasattr(result, 'publickey') and hasattr(result, 'privatekey')",
               "isinstance(result.query, str)",
               "result.pathsep is PathSeparators.AUTO or result.pathsep is PathSeparators.DOT or result.pathsep is PathSeparators.FSLASH"]
    opts = {"returns": "Any"}


@contract(YG + "validateargs", props=["C16"])
class GetValidateArgs:
    assumed = True
    notes = "argument validation (exits with status 1 on a documented misuse)"
    raises = ["SystemExit"]


@contract("yamlpath.common.parsers.Parsers.get_yaml_data", props=["C16"])
class GetYamlData:
    assumed = True
    notes = "the single-document loader (ruamel + I/O): (document, loaded?)"
    raises = []
    opts = {"returns": "Tuple[Any, bool]", "event": "('load',)"}


@contract("yamlpath.eyaml.eyamlprocessor.EYAMLProcessor.__init__", props=["C16"])
class EyamlProcessorInit:
    assumed = True
    notes = "EYAMLProcessor construction"
    raises = []


@contract("yamlpath.eyaml.eyamlprocessor.EYAMLProcessor.get_eyaml_values", props=["C16"])
class GetEyamlValues:
    assumed = True
    notes = ("the query (properties C01 / C15) with EYAML values decrypted: yields the matched nodes; with mustexist=True it raises "
             "YAMLPathException when nothing matches")
    raises = ["YAMLPathException", "EYAMLCommandException"]
    opts = {"yields": "Any", "event": "('query', yaml_path)"}


@contract("extmethod:date", props=["C16"])
class DateOf:
    assumed = True
    notes = "datetime.date(): the date part of a timestamp"
    raises = []
    opts = {"returns": "Any"}


@contract("extmethod:isoformat", props=["C16"])
class IsoFormat:
    assumed = True
    notes = "date / datetime .isoformat()"
    raises = []
    opts = {"returns": "str"}


@contract("yamlpath.common.nodes.Nodes.get_timestamp_with_tzinfo", props=["C16"])
class TimestampTz:
    assumed = True
    notes = "re-attaches the time zone ruamel split off"
    raises = []
    opts = {"returns": "Any"}


@contract(YG + "main", props=["C16"])
class GetMain:
    """yaml-get: a document that does not load ends with status 1 before any query; a query that raises (nothing matched,
    bad path: YAMLPathException -> 1; EYAML failure -> 2) prints nothing; otherwise every gathered node is printed with
    exactly one print call, in order, and main returns (status 0)."""
    raises = ["SystemExit", "OSError"]        # (OSError: stdout closed under print)
    loops = {
        "for node in processor.get_eyaml_values(yaml_path, mustexist=True)": {"invariant": ["len(discovered_nodes) == iters"],
                                                                             "body_ensures": ["called('print') == 0"]},
        "for node in discovered_nodes": {"body_ensures": ["called('print') == 1"]},
    }
    ensures = ["called('load') == 1 and called('query') == 1 and called('exit') == 0", "len(discovered_nodes) == yield_count('query')",
               "doc_loaded is True"]
    opts = {"exc_ensures": {"SystemExit": ["implies(called('query') == 0, called('print') == 0)",
                                           "implies(called('query') == 1, doc_loaded is True)"]}}
