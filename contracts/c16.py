"""Contracts for C16 -- plumbing of the command-line tools that decides an exit status.

`yaml_diff.print_report` returns what becomes yaml-diff's exit status: True exactly when some entry of the Differ's
report is not SAME -- whatever the output options (--quiet, --same, --onlysame) say about PRINTING.
Proved per iteration: the flag after an entry == the flag before it, or the entry is a difference.  The rest of the
tools (argument handling, I/O, formats) is checked bounded by rtc/c16.py.
"""
from pyvc.dsl import contract


@contract("yamlpath.differ.differ.Differ.get_report", props=["C16"])
class GetReport:
    assumed = True
    notes = "the Differ's report generator (property C06): yields DiffEntry objects; sorting and filtering are its own business"
    raises = []
    opts = {"yields": "DiffEntry"}


@contract("yamlpath.commands.yaml_diff.print_report", props=["C16"])
class PrintReport:
    params = {"diff": "Differ"}
    requires = ["hasattr(args, 'quiet') and hasattr(args, 'verbose') and hasattr(args, 'debug') and hasattr(args, 'onlysame') "
                "and hasattr(args, 'same') and hasattr(args, 'pathsep')"]
    raises = []
    loops = {
        "for entry in diff.get_report()": {
            "invariant": ["isinstance(changes_found, bool)"],
            "body_ensures": ["changes_found == (pre_changes_found or (entry.action is not DiffActions.SAME))"],
        },
    }
    ensures = ["isinstance(result, bool)"]
    opts = {"returns": "bool", "heap_fields": {"DiffEntry.action": "DiffActions"}}


for _attr in ("pathsep", "verbose"):
    def _mk(a):
        @contract("yamlpath.differ.diffentry.DiffEntry.%s.setter" % a, props=["C16"])
        class _S:
            __doc__ = "presentation setting of a report entry (how it prints): no effect on its action"
            assumed = True
            notes = "DiffEntry.%s setter: presentation only" % a
            raises = []
        _S.__name__ = "DiffEntrySet_" + a
        return _S
    _mk(_attr)
