"""Contracts for C10 -- the new name `rename` gives a right-hand anchor.

`Merger._calc_unique_anchor(anchor, known)` returns a name that is NOT among the names given as taken (the loop
leaves exactly when that holds) and keeps a name that is free.  Which names the caller passes as taken (both
documents' anchors), the renaming of the definition and of every alias, and the other three policies are checked
bounded by rtc/c10.py.
"""
from pyvc.dsl import contract


@contract("yamlpath.merger.merger.Merger._calc_unique_anchor", props=["C10"])
class CalcUniqueAnchor:
    params = {"anchor": "str", "known_anchors": "set"}
    raises = []
    loops = {"while anchor in known_anchors": {
        "decreases": "the finitely many names in known_anchors not yet generated (every generated name is longer than the last)",
        "invariant": ["isinstance(anchor, str)", "implies(not (name0 in known_anchors), anchor == name0)"]}}
    ghost = {"name0": "anchor"}
    ensures = ["isinstance(result, str)", "not (result in known_anchors)",
               "implies(not (name0 in known_anchors), result == name0)"]
    opts = {"returns": "str"}
