"""Contracts for C14 — parsing any text terminates in segments or a YAMLPathException."""
from pyvc.dsl import contract

YP = "yamlpath.yamlpath.YAMLPath."


@contract(YP + "_parse_path", props=["C14"])
class ParsePath:
    """For every str held in `_original` and either separator, the parser returns or raises
    YAMLPathException (subclasses included); no other exception escapes."""
    params = {"strip_escapes": "bool"}
    assume_fields = {"self._original": "str", "self._separator": "PathSeparators"}
    raises = ["YAMLPathException"]
    loops = {
        "for char_idx, char in enumerate(yaml_path)": {
            # the only fact the safety of the stack operations needs across iterations:
            # while a regular expression is being captured its delimiter is on the stack
            "invariant": ["implies(capturing_regex, len(demarc_stack) >= 1)"],
        },
    }


@contract(YP + "_expand_splats", props=["C14"])
class ExpandSplats:
    """Total on str segment ids: returns a segment or raises YAMLPathException."""
    params = {"yaml_path": "str", "segment_id": "str", "segment_type": "PathSegmentTypes"}
    raises = ["YAMLPathException"]
