"""Contracts for C14 — parsing any text terminates in segments or a YAMLPathException."""
from pyvc.dsl import contract

YP = "yamlpath.yamlpath.YAMLPath."

# Facts about parsed segments that callers of the parser rely on (`path` = the YAMLPath, `index` = position,
# `elem` = (type, attributes)).  They are ASSUMED wherever a segment is read and validated natively on every
# run by rtc/c08 + rtc/c14 over the exhaustive string space (see DESIGN §6 C15).
SEG_CLAUSES = [
    "elem[0] is seg_type(path, index)",        # the escaped and the unescaped parse agree on every segment's type
    "implies(elem[0] is PathSegmentTypes.ANCHOR, isinstance(elem[1], str))",
    "implies(elem[0] is PathSegmentTypes.SEARCH, isinstance(elem[1], SearchTerms))",
    "implies(elem[0] is PathSegmentTypes.KEYWORD_SEARCH, isinstance(elem[1], SearchKeywordTerms))",
    "implies(elem[0] is PathSegmentTypes.COLLECTOR, isinstance(elem[1], CollectorTerms))",
]


@contract(YP + "_parse_path", props=["C14"])
class ParsePath:
    """For every str held in `_original` and either separator, the parser returns or raises
    YAMLPathException (subclasses included); no other exception escapes."""
    params = {"strip_escapes": "bool"}
    assume_fields = {"self._original": "str", "self._separator": "PathSeparators"}
    raises = ["YAMLPathException"]
    # callers see: a deque of seg_count(self) segments (the same count for the escaped and the unescaped parse)
    # (an attempt to PROVE the typed-attribute clauses at the parser's append sites -- engine option "append_inv" --
    # is described in DESIGN.md section 6/C14: it refuted them on the pinned tree with real inputs ((a)x, [(a)b],
    # [a='b(c)'], a.(&a): repaired), and what remains needs a stack-discipline invariant this encoding cannot carry)
    opts = {"returns": "Deque[Tuple[PathSegmentTypes, Any]]", "len_fn": "seg_count", "result_elem_inv": SEG_CLAUSES}
    loops = {
        "for char_idx, char in enumerate(yaml_path)": {
            # the only fact the safety of the stack operations needs across iterations:
            # while a regular expression is being captured its delimiter is on the stack
            "invariant": ["implies(capturing_regex, len(demarc_stack) >= 1)"],
        },
    }


@contract(YP + "_expand_splats", props=["C14"])
class ExpandSplats:
    """Total on str segment ids: returns a segment or raises YAMLPathException."""
    params = {"yaml_path": "str", "segment_id": "str", "segment_type": "PathSegmentTypes"}
    raises = ["YAMLPathException"]
    ensures = [
        # the attribute is the given text (type unchanged), or nothing (wildcard / traversal), or a built SearchTerms
        "result[1] is segment_id or result[1] is None or isinstance(result[1], SearchTerms)",
        "implies(result[1] is segment_id, result[0] is segment_type)",
        "implies(isinstance(result[1], SearchTerms), result[0] is PathSegmentTypes.SEARCH)",
        "implies(result[1] is None, result[0] is PathSegmentTypes.MATCH_ALL or result[0] is PathSegmentTypes.TRAVERSE)",
    ]
    opts = {"returns": "Tuple[PathSegmentTypes, Any]"}


FIELDS = {"self._original": "str", "self._separator": "PathSeparators", "self._stringified": "str",
          "self._escaped": "Deque[Tuple[PathSegmentTypes, Any]]", "self._unescaped": "Deque[Tuple[PathSegmentTypes, Any]]"}


@contract(YP + "escaped", props=["C14"])
class Escaped:
    """Lazy escaped parse: returns a deque or raises YAMLPathException."""
    assume_fields = FIELDS
    raises = ["YAMLPathException"]
    opts = {"returns": "Deque[Tuple[PathSegmentTypes, Any]]"}


@contract(YP + "unescaped", props=["C14"])
class Unescaped:
    assume_fields = FIELDS
    raises = ["YAMLPathException"]
    opts = {"returns": "Deque[Tuple[PathSegmentTypes, Any]]"}


@contract(YP + "separator", props=["C14"])
class SeparatorGet:
    """Separator inference is total and returns a PathSeparators member."""
    assume_fields = FIELDS
    raises = []
    opts = {"returns": "PathSeparators", "pure": True}


@contract(YP + "separator.setter", props=["C14"])
class SeparatorSet:
    """Forcing a separator re-renders the path: total up to YAMLPathException from the (lazy) parse."""
    params = {"value": "PathSeparators"}
    assume_fields = FIELDS
    raises = ["YAMLPathException"]


@contract(YP + "original.setter", props=["C14"])
class OriginalSet:
    """Any value is stored as its text (str(value)); never raises."""
    params = {}
    assume_fields = FIELDS
    raises = []


@contract(YP + "__str__", props=["C14"])
class Str:
    assume_fields = FIELDS
    raises = ["YAMLPathException"]
    opts = {"returns": "str"}


@contract(YP + "_stringify_yamlpath_segments", props=["C14"])
class Stringify:
    """Rendering any parsed segment list is total (the term classes' __str__ have their own contracts)."""
    params = {"segments": "Deque[Tuple[PathSegmentTypes, Any]]", "separator": "PathSeparators"}
    raises = []
    opts = {"returns": "str"}


@contract(YP + "ensure_escaped", props=["C14", "C08"])
class EnsureEscaped:
    """Total for any value (it is stringified) and str symbols; a str stays a str."""
    params = {"*": "str"}
    raises = []
    opts = {"varargs": "abstract"}
    loops = {"for symbol in symbols": {"invariant": ["implies(isinstance(value, str), isinstance(escaped, str))"]}}
    ensures = ["implies(isinstance(value, str), isinstance(result, str))"]


@contract(YP + "escape_path_section", props=["C14", "C08"])
class EscapePathSection:
    """Total for any section value (keys of any scalar type are stringified); a str stays a str."""
    params = {"pathsep": "PathSeparators"}
    raises = []
    ensures = ["implies(isinstance(section, str), isinstance(result, str))"]
    opts = {"pure": True}            # a deterministic function of its arguments (callers may compare two calls)


@contract("yamlpath.enums.pathseparators.PathSeparators.infer_separator", props=["C14", "C08"])
class InferSeparator:
    """AUTO for the empty text, FSLASH iff the text starts with '/', else DOT; never raises."""
    params = {"yaml_path": "str"}
    raises = []
    ensures = ["implies(yaml_path == '', result is PathSeparators.AUTO)",
               "implies(yaml_path != '' and yaml_path[0] == '/', result is PathSeparators.FSLASH)",
               "implies(yaml_path != '' and yaml_path[0] != '/', result is PathSeparators.DOT)"]


# ---- term classes: constructors establish the field types (K5 at the parser's call sites),
# ---- __str__ is proved total under exactly those field types (data-structure invariant)
@contract("yamlpath.path.searchterms.SearchTerms.__init__", props=["C14", "C08"])
class SearchTermsInit:
    params = {"inverted": "bool", "method": "PathSearchMethods", "attribute": "str", "term": "str"}
    raises = []


@contract("yamlpath.path.searchterms.SearchTerms.__str__", props=["C14", "C08"])
class SearchTermsStr:
    assume_fields = {"self._inverted": "bool", "self._method": "PathSearchMethods", "self._attribute": "str", "self._term": "str"}
    raises = []
    opts = {"returns": "str"}


@contract("yamlpath.path.searchkeywordterms.SearchKeywordTerms.__init__", props=["C14", "C08"])
class KeywordTermsInit:
    params = {"inverted": "bool", "keyword": "PathSearchKeywords", "parameters": "str"}
    raises = []


@contract("yamlpath.path.searchkeywordterms.SearchKeywordTerms.__str__", props=["C14", "C08"])
class KeywordTermsStr:
    assume_fields = {"self._inverted": "bool", "self._keyword": "PathSearchKeywords", "self._parameters": "str"}
    raises = []
    opts = {"returns": "str"}


@contract("yamlpath.path.collectorterms.CollectorTerms.__init__", props=["C14", "C08"])
class CollectorTermsInit:
    params = {"expression": "str", "operation": "CollectorOperators"}
    raises = []


@contract("yamlpath.path.collectorterms.CollectorTerms.__str__", props=["C14", "C08"])
class CollectorTermsStr:
    assume_fields = {"self._expression": "str", "self._operation": "CollectorOperators"}
    raises = []
    opts = {"returns": "str"}


@contract(YP + "__init__", props=["C14"])
class Init:
    """Constructing a path from any text (or None) never raises: parsing is lazy."""
    params = {"yaml_path": "Union[YAMLPath, str, None]", "pathsep": "PathSeparators"}
    raises = []


@contract(YP + "pop", props=["C14", "C08", "C15"])
class Pop:
    """Removing the last segment is total up to YAMLPathException (an empty path, or a text that does not parse)."""
    assume_fields = FIELDS
    raises = ["YAMLPathException"]
    inline = [YP + "escaped", YP + "unescaped"]


@contract(YP + "append", props=["C14", "C08", "C15"])
class Append:
    """Appending a (pre-escaped) segment text only edits the stored text: never raises for a str segment."""
    params = {"segment": "str"}
    assume_fields = FIELDS
    raises = []
    opts = {"returns": "YAMLPath"}
