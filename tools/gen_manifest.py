#!/usr/bin/env python3
"""Regenerates /verif/MANIFEST.json from the table below (kept in one place so it is always valid)."""
import json
import os

VERIF = os.path.dirname(os.path.dirname(os.path.abspath(__file__)))

TRUST = ("Trusted: CPython/ruamel.yaml semantics as encoded in pyvc (DESIGN §3.3, assumptions A-FLT, A-CASE, A-LOG, A-RES), z3/cvc5, "
         "the assumed external contracts listed in the evidence file, and the two-line lifting meta-arguments of DESIGN §6. "
         "The bounded stand-in is labelled bounded and never counted as proved.")

BOUNDED = ("Bounded stand-in (labelled bounded, never counted as proved): run-time contract harness rtc/c%s.py drives the REAL "
           "functions over an enumerated input space with an oracle written from the statement; ")
CHECKS = {
    # id: (level, text, technique, design_ref)
    "C01": ("exploration",
            BOUNDED % "01" + "get_nodes(mustexist=True|False)/exists compared with spec.query (node identity + order, both notations) over all documents "
            "<= 4 nodes x the segment vocabulary.  Deductive part: the handlers it rests on are verified for safety under C15; functional "
            "post-conditions are discharged for the KEY handler (hash, integer-key mismatch, list index: exactly this child; pass-through: each "
            "element handed on with its own coordinates), the INDEX handler (plain index incl. negative; list slices: which elements in which order, element by "
            "element; hash / set slices select by the text range), the unfiltered wildcard (every child and nothing else), the SEARCH handler's non-descendant "
            "forms (per candidate: yielded exactly when search_matches differs from `inverted`; only the candidate loop yields, so inverted = complement), and for "
            "the ANCHOR handler's loops, the required-match driver (one dispatcher call per level, one recursive call per result on that result's own "
            "coordinates, its yields relayed unchanged: the concatenation) and the entry points exists / get_nodes (which driver runs on the whole document, "
            "results relayed unchanged, Unmatched exactly when nothing was yielded, exists <=> the required driver yields something); the traversal / "
            "filtered-wildcard handlers, descendant searches, collectors, keyword scans and the optional-match driver are not, so nothing is claimed as proved here.",
            "bounded run-time contract check of the real query API against an executable spec (stand-in for the deductive handler post-conditions)",
            "DESIGN.md §6 C01, Appendix A"),
    "C02": ("exploration",
            BOUNDED % "02" + "parent/parentref/ancestry/reported-path re-resolution of every result of every query, keys over the escapable punctuation set. "
            "Deductive part: YAMLPath.__add__ proved total and non-mutating (C15 contract); the wf_step clauses (node is parent[parentref], ancestry = incoming + "
            "(parent, ref) as a NEW list, path = incoming + rendered reference as a NEW path, recorded segment) are discharged at the yield sites of the KEY "
            "handler, the unfiltered wildcard, the SEARCH handler's candidate loops and the INDEX handler (each element of a list slice where it is appended); "
            "the remaining handlers are bounded only.",
            "bounded run-time contract check (wf + re-query of every result)",
            "DESIGN.md §6 C02"),
    "C03": ("exploration",
            BOUNDED % "03" + "set_value against a plain-data model incl. aliases, dump+strict reload, and edit histories (set/create/delete) step by step.  "
            "Deductive part (proved, 81 VCs): set_value gathers every match of ONE driver (required when mustexist, else the creating one, given the value) before "
            "changing anything and applies the change to each gathered match exactly once with the given value; the replacement itself (_apply_change) is bounded only.",
            "bounded run-time contract check against a plain-data model; histories exhaustive to length 3",
            "DESIGN.md §6 C03/C04"),
    "C04": ("exploration",
            BOUNDED % "04" + "delete_nodes/delete_gathered_nodes against the model: multi-match, nested, empty targets, negative indexes, double matches, root refusal.  "
            "Deductive part (proved, 67 VCs): delete_nodes yields and gathers every match of the required driver, deletes nothing meanwhile, and hands exactly the "
            "gathered list to the deletion once; the deletion itself (_delete_nodes) is bounded only.",
            "bounded run-time contract check against a plain-data model",
            "DESIGN.md §6 C03/C04"),
    "C05": ("exploration",
            BOUNDED % "05" + "Merger.merge_with vs spec.merge over document pairs x all 180 policy mixes x per-path rules (containers and scalars) / identity keys; any "
            "non-MergeException is a violation.  Deductive part (proved, 230 VCs): the configuration the policies go through -- MergerConfig._get_config_for "
            "(a rule governs exactly the node it names: equal value, SAME parent object, same reference; iteration by iteration), the four policy ladders "
            "(per-path rule > command line > [defaults] > built-in) and aoh_merge_key.  The merge algorithms themselves are bounded only.",
            "bounded run-time contract check against an executable merge spec",
            "DESIGN.md §6 C05, Appendix C"),
    "C06": ("exploration",
            BOUNDED % "06" + "Differ reports checked clause by clause (entry truth, coverage, reflexivity, exactly-once accounting, non-SAME iff data differ) over document pairs x modes.  "
            "Deductive part (proved, 162 VCs): DifferConfig._get_config_for (rule scope), the array / AoH mode ladders and aoh_diff_key; the comparison "
            "algorithms are bounded only.",
            "bounded run-time contract check of the diff clauses",
            "DESIGN.md §6 C06"),
    "C07": ("exploration",
            BOUNDED % "07" + "search_for_paths vs spec.search (sound, complete, at most once) and re-query of every printed path, anchors/aliases/merge keys included.",
            "bounded run-time contract check against an executable search spec",
            "DESIGN.md §6 C07"),
    "C08": ("exploration",
            BOUNDED % "08" + "independent renderer -> parse round trip for all short segment sequences in both notations, canonical fixed point, ==, append/pop, also along the history parse -> switch the notation -> compare / extend.  "
            "Deductive part (shared with C14): ensure_escaped / escape_path_section / infer_separator / term __str__ proved total with their type post-conditions.",
            "bounded round-trip check; totality of the stringifier functions proved by pyvc",
            "DESIGN.md §6 C08"),
    "C09": ("exploration",
            BOUNDED % "09" + "deep snapshot before/after every read call incl. collector expressions (the same hash collected twice included); creation of missing "
            "tails against a plain-data model (padding length and padding-node identity); anchor names the notation escapes, fed back as the library reports them.  Deductive part: the creation driver _get_optional_nodes is verified for "
            "safety under C15 with its heap writes modelled; its functional post-condition (exactly the missing tail) is not discharged.",
            "bounded run-time contract check (snapshot purity, creation model)",
            "DESIGN.md §6 C09"),
    "C10": ("exploration",
            BOUNDED % "10" + "anchor conflicts: all pairs over the name pool {x, y} x 4 policies x merge policies, dump + strict reload (exhaustive small space); "
            "anchored scalars with falsy values inside sequences; the policy taken from the command line or from the INI file's [defaults], the right-hand document as a file, as `-` or waiting on STDIN (yaml-merge "
            "in-process).  Deductive part (proved, 50 VCs): Merger._calc_unique_anchor (the rename loop ends with a name no document uses) and "
            "MergerConfig.anchor_merge_mode (command line > [defaults] > stop).  The conflict resolution itself is bounded only.",
            "bounded run-time contract check, exhaustive over the small anchor space",
            "DESIGN.md §6 C05/C10/C11"),
    "C11": ("exploration",
            BOUNDED % "11" + "merge aimed at a path: target subtree equals the policy merge, complement unchanged, missing targets created, uncreatable targets refused; "
            "[rules] entries below the merge point, naming it, and naming nodes outside it.  Deductive part (proved): the policy look-ups of C05 (230 VCs), and "
            "yaml_merge.main: the loop over the inputs is entered with status 0 at every iteration, ends an iteration normally only with status 0 and leaves "
            "through break only with a non-zero status; the write-out happens exactly when the final status is 0, and that status is what sys.exit receives "
            "(\"no partial write-out\" after a failing input; two of its call pre-conditions are a recorded finding: inputs that hold no document).",
            "bounded run-time contract check with complement snapshots",
            "DESIGN.md §6 C05/C10/C11"),
    "C12": ("proof",
            "Every verification condition of Searches.search_matches and Nodes.typed_value is generated from the current source and discharged: "
            "result == documented typed rules for all methods, terms and values; no exception for a well-formed term; "
            "the SEARCH handler built on it is verified functionally for its non-descendant forms (per candidate: yielded exactly when search_matches differs "
            "from `inverted`; the candidate loop is the only yielder, so the inverted search yields exactly the complement, for every number of candidates). "
            "Bounded: the full operator x haystack x needle grid natively (validates the assumed literal_eval / re contracts) and inversion on small documents.",
            "contract-based deductive verification: VCs generated from the real AST (pyvc) discharged by z3/cvc5; bounded run-time contract grid as stand-in",
            "DESIGN.md §6 C12"),
    "C13": ("exploration",
            BOUNDED % "13" + "definitional oracle for max/min/unique/distinct/has_child/parent/name over all short same-kind sequences, AoH and hashes-of-hashes. "
            "Deductive part: the keyword dispatcher, SearchKeywordTerms.parameters, has_child (with its two helpers: Array-of-Hashes pass-through with each element's own "
            "coordinates), name and parent (climb loop invariant) are verified for safety; max / min / unique / distinct are assumed there (bounded only).",
            "bounded run-time contract check against definitional oracles",
            "DESIGN.md §6 C13"),
    "C14": ("proof",
            "Safety (no exception other than YAMLPathException) of every raising operation in the whole parser call graph (__init__, original/separator "
            "accessors, escaped, unescaped, _parse_path, _expand_splats, __str__, _stringify_yamlpath_segments, ensure_escaped, escape_path_section, "
            "infer_separator, term-class constructors and __str__) for all strings, with one loop invariant; termination is structural (K6). "
            "Bounded: every string of length <= 4 over the 27-character syntax alphabet + random Unicode.",
            "contract-based deductive verification: loop-invariant VCs from the real AST (pyvc) discharged by z3; exhaustive bounded parse as stand-in",
            "DESIGN.md §6 C14"),
    "C15": ("other",
            "Mixed. PROVED (for all documents, paths and indexes, modulo the listed class invariants of parsed paths): the dispatcher, the KEY, INDEX/slice, "
            "ANCHOR, SEARCH, match-all (3), traversal, COLLECTOR, keyword-search relay handlers, the required-match driver AND the optional-match / creation driver "
            "_get_optional_nodes (heap writes modelled; list-padding loop invariant), node_is_aoh, YAMLPath.__add__, SearchKeywordTerms.parameters, "
            "has_child / name / parent, search_matches, typed_value raise nothing but YAMLPathException (K1 at every subscript/int()/in/ordering/attribute "
            "site); on top of that the functional clauses listed under C01 / C02 / C12.  BOUNDED only: the three collector set operations, the four keyword "
            "scans max / min / unique / distinct, the ruamel node builders (exception-type monitor over documents x generated paths, required and optional "
            "mode, every string of length <= 4 over the syntax alphabet that the parser accepts, and paths that climb back with parent() and create a member "
            "in a hash, set or list that is still being iterated; every library call is bounded in time and a call that does not return is a witness).",
            "contract-based deductive verification of the evaluator handlers (pyvc, z3+cvc5) + bounded exception-type monitor for the functions outside the subset",
            "DESIGN.md §6 C15"),
    "C16": ("exploration",
            BOUNDED % "16" + "the six console entry points run in-process (argv/stdin/stdout patched) against the library answers: output lines, files, exit codes, "
            "file vs stdin delivery, YAML and JSON, --quiet, empty --value, date leaves, negative document indexes.  Deductive part (proved): yaml_diff.print_report "
            "returns True exactly when some report entry is not SAME, whatever the print options; yaml-diff get_docs / get_doc / main (a source that does not load "
            "ends with status 1 before anything is compared, any integer document index gives that document or a reported error, the status is the report's "
            "verdict); yaml-validate process_file / main (status non-zero exactly when some document of some file failed to load; a failure is never "
            "overwritten by a later success).",
            "bounded in-process contract check of the CLI entry points",
            "DESIGN.md §6 C16"),
    "C17": ("fault_enumeration",
            "Fault enumeration (bounded): every pre-write failure cause of yaml-set / yaml-merge leaves the directory byte-identical; for successful edits a fault "
            "is injected at the k-th I/O call of the save sequence for every k (before / partial / partial-unflushed, OSError and AssertionError), with/without "
            "--backup and a stale .bak: target or .bak keeps the original bytes.  Deductive part (proved): the ORDER of the save sequences of "
            "yaml_set.write_output_document and yaml_merge.write_output_document over ghost events of the library calls (stale .bak looked for, removed only when "
            "it exists, target copied to .bak -- called in the one form whose assumed contract says the bytes are copied -- and only then the output opened / saved; "
            "no .bak touched without --backup), and yaml_merge.main (nothing is written unless every input loaded and merged: see C11).  What each call does to the "
            "disk and what a half-failed call leaves behind is the fault enumeration's part.",
            "fault enumeration at every I/O call of the real save sequences + contract-based proof of the order of those calls (ghost events, pyvc)",
            "DESIGN.md §6 C17"),
    "C18": ("proof",
            "Driver structure proved for all stream lengths: merge_condense_all, merge_across, merge_matrix and merge_docs are verified iteration by iteration "
            "(ghost events = the merge_with calls each iteration makes; loop invariants over list lengths): every iteration performs exactly the pairwise merge "
            "the mode defines, output counts are functions of mode and lengths, the mode alone selects the driver.  Relative to the merge_with contract (= C05). "
            "Bounded: streams of length 1..4 x modes x policies against the fold of spec.merge, also through yaml_merge.main() with the right-hand stream in a "
            "file, piped through STDIN, a lone stream piped in with no file argument, and files that hold no document.",
            "contract-based deductive verification of the multi-document drivers (pyvc: loop invariants, per-iteration post-conditions, ghost call events) modulo C05",
            "DESIGN.md §6 C18"),
    "C19": ("exploration",
            BOUNDED % "19" + "eyaml-rotate-keys with a deterministic stand-in eyaml executable over documents mixing plaintext (incl. timestamps with UTC offsets, compared by what the text denotes) and secrets; is_eyaml_value exhaustively "
            "over strings <= 7 from {space, newline, E, N, C, [, x}.",
            "bounded run-time contract check with a stand-in eyaml executable",
            "DESIGN.md §6 C19"),
}

NOT_YET = {}

def main():
    props = [json.loads(l) for l in open(os.path.join(VERIF, "properties.jsonl"))]
    checks = []
    na = []
    for p in props:
        pid = p["id"]
        if pid in CHECKS:
            level, text, tech, ref = CHECKS[pid]
            checks.append({
                "property_id": pid,
                "quick_cmd": "./check %s --tier quick" % pid,
                "thorough_cmd": "./check %s --tier thorough" % pid,
                "evidence_file": "evidence/%s.json" % pid,
                "replay_cmd_template": "./check %s --replay {path}" % pid,
                "engine": "pyvc+rtc",
                "level_claimed": {"category": level, "text": text, "design_ref": ref},
                "level_note": TRUST,
                "technique": tech,
            })
        else:
            na.append({"property_id": pid, "reason": NOT_YET.get(pid, "check not built yet in this round (planned, see DESIGN.md §6); not claimed until its check runs clean")})
    m = {
        "version": 1,
        "setup_cmd": "./setup.sh",
        "hooks": {"guard": "YAMLPATH_VERIF", "enable": "no source hooks are needed: contracts attach from sidecar files, harnesses wrap names at run time",
                  "baseline_off_cmd": "cd /repo && /venv/bin/python -m pytest -ra -q -p no:cacheprovider --timeout=900 --continue-on-collection-errors",
                  "source_commits": [], "add_only": True},
        "engines": [
            {"name": "pyvc", "path": "pyvc/", "serves_properties": sorted(CHECKS), "kind_free_text": "own VC generator: real Python AST -> z3 obligations (contracts in contracts/, specs in spec/)"},
            {"name": "rtc", "path": "rtc/", "serves_properties": sorted(CHECKS), "kind_free_text": "bounded run-time contract harnesses on the real functions (stand-in, never counted as proved)"},
        ],
        "checks": checks,
        "not_applicable": na,
        "notes": "Genuine defects found on the pinned tree were repaired by unguarded `fix:` commits in /repo (listed as `fixed:` entries in known_findings.jsonl); the remaining ones are `known` entries there and are described in DESIGN.md §7.",
    }
    with open(os.path.join(VERIF, "MANIFEST.json"), "w") as fh:
        json.dump(m, fh, indent=1)
    print("checks:", [c["property_id"] for c in checks], "not_applicable:", len(na))

if __name__ == "__main__":
    main()
