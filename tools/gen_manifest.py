#!/usr/bin/env python3
"""Regenerates /verif/MANIFEST.json from the table below (kept in one place so it is always valid)."""
import json
import os

VERIF = os.path.dirname(os.path.dirname(os.path.abspath(__file__)))

TRUST = ("Trusted: CPython/ruamel.yaml semantics as encoded in pyvc (DESIGN §3.3, assumptions A-FLT, A-CASE, A-LOG, A-RES), z3/cvc5, "
         "the assumed external contracts listed in the evidence file, and the two-line lifting meta-arguments of DESIGN §6. "
         "The bounded stand-in is labelled bounded and never counted as proved.")

CHECKS = {
    # id: (level, text, technique, design_ref)
    "C12": ("proof",
            "Every verification condition of Searches.search_matches and Nodes.typed_value is generated from the current source and discharged: "
            "result == documented typed rules for all methods, needles and haystacks; no exception for a well-formed term. "
            "Bounded: the full operator x haystack x needle grid natively (validates the assumed literal_eval / re contracts) and inversion on small documents.",
            "contract-based deductive verification: VCs generated from the real AST (pyvc) discharged by z3; bounded run-time contract grid as stand-in",
            "DESIGN.md §6 C12"),
    "C14": ("proof",
            "Safety (no exception other than YAMLPathException) of every raising operation in YAMLPath._parse_path and _expand_splats for all strings, "
            "with one loop invariant; termination is structural (for-loops over immutable strings, acyclic call graph). "
            "Bounded: exhaustive short strings over the syntax alphabet + random Unicode.",
            "contract-based deductive verification: loop-invariant VCs from the real AST (pyvc) discharged by z3; exhaustive bounded parse as stand-in",
            "DESIGN.md §6 C14"),
}

NOT_YET = {}

def main():
    props = [json.loads(l) for l in open(os.path.join(VERIF, "properties.jsonl"))]
    checks = []
    na = []
    for p in props:
        pid = p["id"]
        if pid in CHECKS:
            level, text, tech, ref = CHECKS[pid]
            checks.append({
                "property_id": pid,
                "quick_cmd": "./check %s --tier quick" % pid,
                "thorough_cmd": "./check %s --tier thorough" % pid,
                "evidence_file": "evidence/%s.json" % pid,
                "replay_cmd_template": "./check %s --replay {path}" % pid,
                "engine": "pyvc+rtc",
                "level_claimed": {"category": level, "text": text, "design_ref": ref},
                "level_note": TRUST,
                "technique": tech,
            })
        else:
            na.append({"property_id": pid, "reason": NOT_YET.get(pid, "check not built yet in this round (planned, see DESIGN.md §6); not claimed until its check runs clean")})
    m = {
        "version": 1,
        "setup_cmd": "./setup.sh",
        "hooks": {"guard": "YAMLPATH_VERIF", "enable": "no source hooks are needed: contracts attach from sidecar files, harnesses wrap names at run time",
                  "baseline_off_cmd": "cd /repo && /venv/bin/python -m pytest -ra -q -p no:cacheprovider --timeout=900 --continue-on-collection-errors",
                  "source_commits": [], "add_only": True},
        "engines": [
            {"name": "pyvc", "path": "pyvc/", "serves_properties": sorted(CHECKS), "kind_free_text": "own VC generator: real Python AST -> z3 obligations (contracts in contracts/, specs in spec/)"},
            {"name": "rtc", "path": "rtc/", "serves_properties": sorted(CHECKS), "kind_free_text": "bounded run-time contract harnesses on the real functions (stand-in, never counted as proved)"},
        ],
        "checks": checks,
        "not_applicable": na,
        "notes": "fix: commits in /repo: 3c85570 (C14), b0900cb (C12/C15). known_findings.jsonl lists fixed and known findings.",
    }
    with open(os.path.join(VERIF, "MANIFEST.json"), "w") as fh:
        json.dump(m, fh, indent=1)
    print("checks:", [c["property_id"] for c in checks], "not_applicable:", len(na))

if __name__ == "__main__":
    main()
