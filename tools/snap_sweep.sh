#!/bin/bash
# usage: tools/snap_sweep.sh <seed> <tier> [props...]  -- runs the COMMITTED checks (snapshot worktrees of /verif and /repo under
# /tmp/vsnap, /tmp/rsnap, created by the caller) so that work in /verif and /repo can go on meanwhile
SEED=$1; TIER=$2; shift 2
PROPS=${@:-C01 C02 C03 C04 C05 C06 C07 C08 C09 C10 C11 C12 C13 C14 C15 C16 C17 C18 C19}
cd /tmp/vsnap || exit 3
mkdir -p /verif/out/snap
for p in $PROPS; do
  VERIF_SEED=$SEED VERIF_REPO=/tmp/rsnap VERIF_OUT=/tmp/sweep/snap_s${SEED}_$TIER ./check $p --tier $TIER > /verif/out/snap/sweep_${SEED}_${TIER}_$p.log 2>&1
  echo "$p seed=$SEED $TIER exit=$? $(grep -c '^VIOLATION' /verif/out/snap/sweep_${SEED}_${TIER}_$p.log) viol $(grep -c '^UNDECIDED' /verif/out/snap/sweep_${SEED}_${TIER}_$p.log) undecided $(head -1 /verif/out/snap/sweep_${SEED}_${TIER}_$p.log | grep -o '[0-9.]*s$')"
done
