#!/usr/bin/env python3
"""Regenerates the tables of DESIGN.md section 7 (between the FINDINGS markers) from known_findings.jsonl
and the seeded-change table (between the SEEDED markers) from seeded/*/meta.json."""
import json, os, re, glob
ROOT = os.path.dirname(os.path.dirname(os.path.abspath(__file__)))

def esc(s):
    return s.replace("|", "\\|").replace("\n", " ")

def findings():
    fixed, known = [], []
    for l in open(os.path.join(ROOT, "known_findings.jsonl")):
        l = l.strip()
        if not l:
            continue
        d = json.loads(l)
        (fixed if d.get("entry") == "fixed" else known).append(d)
    out = []
    out.append("**Repaired (`fix:` commits in /repo; a fixed entry suppresses nothing)** — %d entries\n" % len(fixed))
    out.append("| property | commit | what failed on the pinned tree |")
    out.append("|---|---|---|")
    for d in fixed:
        out.append("| %s | `%s` | %s |" % (d["property"], d.get("commit", ""), esc(d["what"])[:400]))
    out.append("")
    out.append("**Recorded, not repaired (KNOWN-FINDING lines; matched by key, anything else is still a VIOLATION)** — %d entries\n" % len(known))
    out.append("| property | match | what fails | why not repaired |")
    out.append("|---|---|---|---|")
    for d in known:
        m = d.get("match", {})
        key = m.get("key") or ", ".join(m.get("keys") or []) or (m.get("key_prefix", "") + "*")
        out.append("| %s | `%s` | %s | %s |" % (d["property"], esc(key)[:90], esc(d["what"])[:400], esc(d.get("why_not_fixed", d.get("why", "")))[:300]))
    return "\n".join(out)

def seeded():
    out = ["| seeded change | property | what it needs to manifest | caught by | obligation / witness reported |", "|---|---|---|---|---|"]
    for mf in sorted(glob.glob(os.path.join(ROOT, "seeded", "*", "meta.json"))):
        d = json.load(open(mf))
        out.append("| %s | %s | %s | %s | %s |" % (os.path.basename(os.path.dirname(mf)), d["property"], esc(d["needs"])[:260],
                                              esc(d.get("caught_by", "")),
                                              (esc(d.get("reported", ""))[:200] + ((" — " + esc(d["note"])) if d.get("note") else ""))))
    return "\n".join(out)

def splice(text, tag, body):
    a, b = "<!-- %s:BEGIN -->" % tag, "<!-- %s:END -->" % tag
    if a not in text:
        return text
    return re.sub(re.escape(a) + ".*?" + re.escape(b), lambda _: a + "\n" + body + "\n" + b, text, flags=re.S)

if __name__ == "__main__":
    p = os.path.join(ROOT, "DESIGN.md")
    t = open(p).read()
    t = splice(t, "FINDINGS", findings())
    t = splice(t, "SEEDED", seeded())
    open(p, "w").write(t)
