#!/usr/bin/env python3
"""Runs the pinned test suite (guards off) and compares the passing set with /root/.vp/BASELINE.json."""
import json, subprocess, sys, tempfile, os, xml.etree.ElementTree as ET
b = json.load(open("/root/.vp/BASELINE.json"))
with tempfile.TemporaryDirectory() as d:
    x = os.path.join(d, "j.xml")
    repo = os.environ.get("VERIF_REPO", "/repo")
    subprocess.run("cd %s && PYTHONPATH=%s /venv/bin/python -m pytest -ra -q -p no:cacheprovider --timeout=900 --continue-on-collection-errors --junitxml=%s" % (repo, repo, x),
                   shell=True, capture_output=True)
    passed = set()
    for tc in ET.parse(x).getroot().iter("testcase"):
        if not any(c.tag in ("failure", "error", "skipped") for c in tc):
            passed.add("%s::%s" % (tc.get("classname"), tc.get("name")))
want = set(b["stable_pass"])
missing = sorted(want - passed)
print("baseline stable_pass=%d, passing now=%d, missing=%d" % (len(want), len(passed), len(missing)))
for m in missing[:20]:
    print("  MISSING", m)
sys.exit(1 if missing else 0)
