#!/usr/bin/env python3
import json, sys, glob, os
for prop in sys.argv[1:]:
    for f in sorted(glob.glob('/verif/out/replay/%s/rtc_*.json' % prop)):
        c = json.load(open(f))
        print('== %s  (count %s)' % (c['witness_key'], c.get('count')))
        print('   what:', str(c.get('what'))[:300])
        print('   input:', json.dumps((c.get('inputs') or [None])[0])[:500])
        print('   observed:', str(c.get('observed'))[:300])
        print('   expected:', str(c.get('expected'))[:300])
