#!/bin/bash
# usage: tools/seed_eval2.sh <prop-id> <n> <prop> [more props...]
# Like seed_eval.sh but on the seed's own scratch worktree (/tmp/seed/<id>), so several can run at once:
# VERIF_REPO points the checks at that worktree, VERIF_OUT keeps their output apart.  /repo is not touched.
set -u
ID=$1; N=$2; shift 2
ROOT=${SEED_ROOT:-/tmp/seed}; OFF=${SEED_NUM_OFFSET:-0}
WT=$ROOT/$ID; PATCH=$WT/mutant_$N/patch.diff; DEMO=$WT/mutant_$N/demo.py
TAG=$ID-$((N+OFF))
RES=/verif/out/seed_$TAG.txt; : > $RES
cd $WT || exit 3
git checkout -q -- . ; git merge -q --ff-only $(git -C /repo rev-parse HEAD) 2>/dev/null || git checkout -q --detach $(git -C /repo rev-parse HEAD)
echo "== $TAG (worktree at $(git rev-parse --short HEAD))" | tee -a $RES
PYTHONPATH=$WT timeout 1200 /venv/bin/python $DEMO > /tmp/seed_demo_clean_$TAG.txt 2>&1 < /dev/null; echo "demo on clean tree: exit $?" | tee -a $RES
if ! git apply --check $PATCH 2>/dev/null; then echo "patch does not apply" | tee -a $RES; exit 2; fi
git apply $PATCH
PYTHONPATH=$WT timeout 1200 /venv/bin/python $DEMO > /tmp/seed_demo_mut_$TAG.txt 2>&1 < /dev/null; echo "demo on mutated tree: exit $?" | tee -a $RES
tail -3 /tmp/seed_demo_mut_$TAG.txt | cut -c1-200 | tee -a $RES
VERIF_REPO=$WT python3 /verif/tools/baseline_check.py | head -3 | tee -a $RES
for P in "$@"; do
  (cd ${VERIF_ROOT:-/verif} && VERIF_REPO=$WT VERIF_OUT=/tmp/seedout/$TAG VERIF_JOBS=${SEED_JOBS:-6} ./check $P > /verif/out/seed_${TAG}_$P.log 2>&1; echo "check $P exit=$?  $(grep -c '^VIOLATION' /verif/out/seed_${TAG}_$P.log) violation line(s)") | tee -a $RES
  grep '^VIOLATION' /verif/out/seed_${TAG}_$P.log | head -4 | cut -c1-220 | tee -a $RES
done
git checkout -q -- . ; rm -f /tmp/seed_demo_clean_$TAG.txt /tmp/seed_demo_mut_$TAG.txt
