#!/usr/bin/env python3
"""Stores a confirmed seeded change under /verif/seeded/<tag>/ (patch.diff, demo.py, README.txt, meta.json).
usage: seed_store.py <tag e.g. C06-2>  -- reads /tmp/seed/<id>/mutant_<n>/ and out/seed_<tag>.txt (the evaluation log)."""
import json, os, re, shutil, sys
ROOT = os.path.dirname(os.path.dirname(os.path.abspath(__file__)))
NEEDS = json.load(open(os.path.join(ROOT, "tools", "seed_needs.json")))

def main(tag):
    pid, n = tag.split("-")
    off = int(os.environ.get("SEED_NUM_OFFSET", "0"))
    src = "%s/%s/mutant_%d" % (os.environ.get("SEED_ROOT", "/tmp/seed"), pid, int(n) - off)
    dst = os.path.join(ROOT, "seeded", tag)
    os.makedirs(dst, exist_ok=True)
    for f in ("patch.diff", "demo.py", "README.txt"):
        if os.path.exists(os.path.join(src, f)):
            shutil.copy(os.path.join(src, f), os.path.join(dst, f))
    log = open(os.path.join(ROOT, "out", "seed_%s.txt" % tag)).read()
    demo_clean = re.search(r"demo on clean tree: exit (\d+)", log)
    demo_mut = re.search(r"demo on mutated tree: exit (\d+)", log)
    base = re.search(r"baseline stable_pass=(\d+), passing now=(\d+), missing=(\d+)", log)
    checks = re.findall(r"check (C\d\d) exit=(\d+)\s+(\d+) violation", log)
    viol = re.findall(r"^VIOLATION property=(C\d\d) replay=(\S+)(.*)$", log, flags=re.M)
    caught = [c for c, ex, _ in checks if ex == "1"]
    meta = {
        "property": pid,
        "seed": tag,
        "needs": NEEDS.get(tag, {}).get("needs", ""),
        "site": NEEDS.get(tag, {}).get("site", ""),
        "confirmed": {
            "demo_exit_clean_tree": int(demo_clean.group(1)) if demo_clean else None,
            "demo_exit_mutated_tree": int(demo_mut.group(1)) if demo_mut else None,
            "baseline_tests": ("stable_pass=%s passing_with_patch=%s missing=%s" % base.groups()) if base else None,
        },
        "ran": ["git apply patch.diff (on /repo or a scratch worktree of its HEAD)", "demo.py on the clean and on the mutated tree",
                "tools/baseline_check.py (pinned 988-test baseline)"] + ["./check %s (quick) -> exit %s, %s VIOLATION line(s)" % c for c in checks],
        "caught_by": ", ".join("%s quick" % c for c in caught) if caught else "NOT CAUGHT",
        "reported": "; ".join(sorted({os.path.basename(v[1]) for v in viol}))[:600],
        "note": NEEDS.get(tag, {}).get("note", ""),
    }
    json.dump(meta, open(os.path.join(dst, "meta.json"), "w"), indent=1)
    print(tag, meta["caught_by"], meta["confirmed"])

if __name__ == "__main__":
    for t in sys.argv[1:]:
        main(t)
