#!/bin/bash
# usage: tools/clean_sweep.sh <seed> [tier]   -- every check on the unchanged tree with that seed; summary on stdout
SEED=$1; TIER=${2:-quick}
cd /verif
for p in C01 C02 C03 C04 C05 C06 C07 C08 C09 C10 C11 C12 C13 C14 C15 C16 C17 C18 C19; do
  VERIF_SEED=$SEED VERIF_OUT=/tmp/sweep/s${SEED}_$TIER ./check $p --tier $TIER > out/sweep_${SEED}_${TIER}_$p.log 2>&1
  echo "$p seed=$SEED $TIER exit=$? $(grep -c '^VIOLATION' out/sweep_${SEED}_${TIER}_$p.log) viol $(grep -c '^UNDECIDED' out/sweep_${SEED}_${TIER}_$p.log) undecided $(head -1 out/sweep_${SEED}_${TIER}_$p.log | grep -o '[0-9.]*s$')"
done
