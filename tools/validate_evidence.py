#!/usr/bin/env python3
"""python3-vt tools/validate_evidence.py -- validates MANIFEST.json and every evidence/<id>.json against the schemas in /root/.vp."""
import glob, json, sys
import jsonschema
ok = True
jsonschema.validate(json.load(open("/verif/MANIFEST.json")), json.load(open("/root/.vp/MANIFEST.schema.json")))
sch = json.load(open("/root/.vp/EVIDENCE.schema.json"))
for f in sorted(glob.glob("/verif/evidence/C*.json")):
    try:
        d = json.load(open(f))
        jsonschema.validate(d, sch)
        cov = d["coverage"]
        print(f.split("/")[-1], d["level"], d["tier"], "obligations=%s discharged=%s evaluations=%s head=%s" % (
            cov.get("obligations"), cov.get("discharged"), cov.get("evaluations"), d.get("repo_head")))
    except Exception as e:
        ok = False
        print("INVALID", f, str(e)[:300])
sys.exit(0 if ok else 1)
