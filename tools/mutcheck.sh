#!/bin/bash
# usage: tools/mutcheck.sh <prop> <relative file> <sed expression>   -- applies a text mutation to a scratch copy of /repo/yamlpath and runs pyvc on it
set -e
D=$(mktemp -d /tmp/pyvc-mut.XXXXXX)
cp -r /repo/yamlpath $D/yamlpath
sed -i "$3" $D/yamlpath/$2
diff -r /repo/yamlpath $D/yamlpath | grep '^[<>]' | head -6
cd /verif && PYVC_REPO=$D python3-vt -m pyvc.run --prop $1 ${4:+--only $4} --jobs 4 2>&1 | cut -c1-220 | tail -${TAILN:-4}
rm -rf $D
