#!/bin/bash
# usage: tools/seed_eval.sh <seed-id> <patch.diff> <demo.py> <prop> [more props...]
# Confirms a seeded change (demo passes on clean /repo, fails with the patch, baseline tests unchanged)
# and runs the registered quick checks against it.  /repo is restored afterwards.
set -u
ID=$1; PATCH=$(realpath $2); DEMO=$(realpath $3); shift 3
cd /repo || exit 3
if [ -n "$(git status --porcelain)" ]; then echo "/repo not clean"; exit 3; fi
RES=/verif/out/seed_$ID.txt; : > $RES
echo "== $ID" | tee -a $RES
PYTHONPATH=/repo /venv/bin/python $DEMO > /tmp/seed_demo_clean.txt 2>&1; echo "demo on clean tree: exit $?" | tee -a $RES
if ! git apply --check $PATCH 2>/dev/null; then echo "patch does not apply" | tee -a $RES; exit 2; fi
git apply $PATCH
PYTHONPATH=/repo /venv/bin/python $DEMO > /tmp/seed_demo_mut.txt 2>&1; echo "demo on mutated tree: exit $?" | tee -a $RES
tail -3 /tmp/seed_demo_mut.txt | cut -c1-200 | tee -a $RES
python3 /verif/tools/baseline_check.py | head -3 | tee -a $RES
for P in "$@"; do
  (cd /verif && ./check $P > /verif/out/seed_${ID}_$P.log 2>&1; echo "check $P exit=$?  $(grep -c '^VIOLATION' /verif/out/seed_${ID}_$P.log) violation line(s)") | tee -a $RES
  grep '^VIOLATION' /verif/out/seed_${ID}_$P.log | head -4 | cut -c1-220 | tee -a $RES
done
git checkout -- . ; git status --porcelain | head -3
