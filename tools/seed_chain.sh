#!/bin/bash
# usage: seed_chain.sh <id> -- runs all jobs for that id from /tmp/seed_jobs2.txt sequentially
ID=$1
grep "^$ID " ${SEED_JOBFILE:-/tmp/seed_jobs2.txt} | while read -r line; do
  /verif/tools/seed_eval2.sh $line > /verif/out/seed_chain_$ID.log 2>&1
done
echo "chain $ID done"
