"""C12 — the documented typed comparison rules, written from the property statement.

Restricted to pyvc's subset: executed concretely by rtc (oracle) and symbolically by pyvc.
`Nodes.typed_value` is the library's string-to-native conversion; it has its own contract
(contracts/c12.py) and is used here through that contract only.
"""
from yamlpath.common import Nodes
from yamlpath.enums import PathSearchMethods
from spec.prims import re_search


def is_number(x):
    return isinstance(x, (int, float))


def search_matches(method, needle, haystack):
    th = Nodes.typed_value(haystack)
    tn = Nodes.typed_value(needle)
    # the value's own text (the statement: tests 'act on the value's text'); a boolean's text is True / False
    text = str(th) if (isinstance(th, bool) and not isinstance(haystack, str)) else str(haystack)
    term = str(needle)
    if method is PathSearchMethods.EQUALS:
        # numeric when both sides are numbers of the same kind, textual otherwise
        if isinstance(th, bool) and type(tn) is bool:
            return th == tn
        if isinstance(th, int) and type(tn) is int:
            return th == tn
        if isinstance(th, float) and type(tn) is float:
            return th == tn
        return text == term
    if method is PathSearchMethods.STARTS_WITH:
        return text.startswith(needle)
    if method is PathSearchMethods.ENDS_WITH:
        return text.endswith(needle)
    if method is PathSearchMethods.CONTAINS:
        return needle in text
    if method is PathSearchMethods.GREATER_THAN:
        if is_number(th):
            if is_number(tn):
                return th > tn
            return False
        return text > term
    if method is PathSearchMethods.LESS_THAN:
        if is_number(th):
            if is_number(tn):
                return th < tn
            return False
        return text < term
    if method is PathSearchMethods.GREATER_THAN_OR_EQUAL:
        if is_number(th):
            if is_number(tn):
                return th >= tn
            return False
        return text >= term
    if method is PathSearchMethods.LESS_THAN_OR_EQUAL:
        if is_number(th):
            if is_number(tn):
                return th <= tn
            return False
        return text <= term
    # REGEX: searched (not anchored) in the value's text
    return re_search(needle, text)
