"""spec.diff -- the C06 oracle: what it means for a diff report to be truthful and complete.

Pure Python over *plain data*; nothing of yamlpath is imported here, and nothing
here was derived from `differ.py`: the clauses are the sentences of property C06
(properties.jsonl) and DESIGN.md section 6-C06 / Appendix C; the meaning of the
modes is taken from the enum docstrings (`ArrayDiffOpts`, `AoHDiffOpts`) and
the `yaml-diff --help` epilog.

Plain data:  dict -> mapping, list -> sequence, any tuple/set/frozenset -> YAML
!!set (rtc.gen.SetT is a tuple), None -> null, bool/int/float/str -> scalars.

An *entry* is `(action, path, lhs_value, rhs_value)` with action one of
"ADD" "CHANGE" "DELETE" "SAME"; `path` is either the entry's path text (dot
notation, as `str(DiffEntry.path)` gives it) or an already parsed segment list
`[("key", text) | ("idx", int), ...]`.

Public:
    parse_path(text)                      -> segments        (ValueError when not key/index only)
    resolve(doc, segments)                -> (found, value)  (own resolver, no Processor)
    leaves(doc)                           -> [(segments, leaf_token)]
    strict_equal(l, r)                    -> equality as data, positional in sequences
    data_equal(l, r, array_mode, aoh_mode, aoh_key=None, **readings)
    diff_truth(entries, lhs, rhs, modes)  -> [failed clause, ...]   ([] = the report is fine)
"""
from collections import Counter

ACTIONS = ("ADD", "CHANGE", "DELETE", "SAME")
LEFT_SIDED = ("SAME", "CHANGE", "DELETE")
RIGHT_SIDED = ("SAME", "CHANGE", "ADD")
ARRAY_MODES = ("position", "value")
AOH_MODES = ("position", "dpos", "value", "key", "deep")
#: AoH modes in which records are matched up irrespective of their position
AOH_SYNC = ("value", "key", "deep")
#: AoH modes documented as "compared as whole units (no deep traversal)"
AOH_WHOLE_UNIT = ("position", "value", "key")


# --------------------------------------------------------------------------- kinds
def kind(x):
    if x is None:
        return "null"
    if isinstance(x, dict):
        return "map"
    if isinstance(x, list):
        return "seq"
    if isinstance(x, (tuple, set, frozenset)):
        return "set"
    return "scalar"


def _scalar_token(x):
    """Type-strict, hashable token of a scalar (true is not 1, "1" is not 1)."""
    if x is None:
        return ("null",)
    if isinstance(x, bool):
        return ("bool", x)
    if isinstance(x, int):
        return ("int", x)
    if isinstance(x, float):
        return ("float", repr(x))
    if isinstance(x, str):
        return ("str", x)
    return (type(x).__name__, repr(x))


def canon(x, seq_sorted=False):
    """Hashable canonical form; mappings and sets are unordered, sequences ordered
    (or sorted when seq_sorted: order-free comparison everywhere)."""
    k = kind(x)
    if k == "map":
        return ("map", frozenset((_scalar_token(kk), canon(v, seq_sorted)) for kk, v in x.items()))
    if k == "seq":
        items = [canon(v, seq_sorted) for v in x]
        if seq_sorted:
            items = sorted(items, key=repr)
        return ("seq", tuple(items))
    if k == "set":
        return ("set", frozenset(_scalar_token(m) for m in x))
    return _scalar_token(x)


def strict_equal(l, r):
    """Equality as data: mapping key order and set order immaterial, sequence
    order material, scalar types distinct (bool/int/float/str/null)."""
    return canon(l) == canon(r)


def loose_equal(l, r):
    """Python `==` on the plain data with sets as sets (true == 1, 1 == 1.0).
    Only used to *classify* a disagreement, never to decide one."""
    kl, kr = kind(l), kind(r)
    if kl != kr:
        return False
    if kl == "map":
        return set(l) == set(r) and all(loose_equal(l[k], r[k]) for k in l)
    if kl == "seq":
        return len(l) == len(r) and all(loose_equal(a, b) for a, b in zip(l, r))
    if kl == "set":
        return set(l) == set(r)
    return l == r


# --------------------------------------------------------------------------- paths
def parse_path(text):
    """Parse the dot-notation text of a report path made only of key and [index]
    segments (that is all a diff report may contain); both `a.b[0]` and the raw
    concatenation `a.b.[0]` are accepted.  Backslash escapes the next character;
    a leading separator is allowed.  Raises ValueError on anything else."""
    if isinstance(text, (list, tuple)):
        return [tuple(s) for s in text]
    segs = []
    buf = []
    have = False          # a key segment is being collected
    after_sep = False     # the previous token was a separator
    i = 0
    n = len(text)
    sep = "/" if text.startswith("/") else "."
    if text.startswith(sep):
        i = 1
    while i < n:
        c = text[i]
        if c == "\\":
            if i + 1 >= n:
                raise ValueError("dangling escape in %r" % (text,))
            buf.append(text[i + 1])
            have = True
            after_sep = False
            i += 2
        elif c == sep:
            if after_sep or (not have and not segs):
                raise ValueError("empty segment in %r" % (text,))
            if have:
                segs.append(("key", "".join(buf)))
                buf, have = [], False
            after_sep = True
            i += 1
        elif c == "[":
            if have:
                segs.append(("key", "".join(buf)))
                buf, have = [], False
            j = text.find("]", i)
            if j < 0:
                raise ValueError("unterminated [ in %r" % (text,))
            inner = text[i + 1:j]
            if not (inner.isascii() and inner.isdigit()):
                raise ValueError("not an index segment [%s] in %r" % (inner, text))
            segs.append(("idx", int(inner)))
            after_sep = False
            i = j + 1
        elif c in "]()^$%'\" ":
            # the escape set of a report path: these never appear bare in a key segment
            raise ValueError("unescaped %r in %r" % (c, text))
        else:
            buf.append(c)
            have = True
            after_sep = False
            i += 1
    if after_sep:
        raise ValueError("trailing separator in %r" % (text,))
    if have:
        segs.append(("key", "".join(buf)))
    return segs


def path_text(segs):
    out = []
    for k, v in segs:
        if k == "idx":
            out.append("[%d]" % v)
        else:
            out.append(("." if out else "") + str(v).replace("\\", "\\\\").replace(".", "\\."))
    return "".join(out)


def resolve(doc, segs):
    """(found, value) of `segs` in plain data.  A key segment selects the mapping
    key whose text is the segment (keys are unique by text in the generated
    documents) or the set member of that text (whose value is the member);
    an index segment selects a sequence element."""
    cur = doc
    for k, v in segs:
        kc = kind(cur)
        if k == "idx":
            if kc != "seq" or not 0 <= v < len(cur):
                return (False, None)
            cur = cur[v]
        else:
            if kc == "map":
                hits = [kk for kk in cur if _key_text(kk) == v]
                if len(hits) != 1:
                    return (False, None)
                cur = cur[hits[0]]
            elif kc == "set":
                hits = [m for m in cur if _key_text(m) == v]
                if len(hits) != 1:
                    return (False, None)
                cur = hits[0]
            else:
                return (False, None)
    return (True, cur)


def _key_text(k):
    if k is None:
        return "null"
    if k is True:
        return "True"
    if k is False:
        return "False"
    return str(k)


def leaf_token(x):
    """Token of a leaf: scalars by type and value, empty containers by kind."""
    k = kind(x)
    if k in ("map", "seq", "set"):
        assert len(x) == 0
        return ("empty", k)
    return _scalar_token(x)


def leaves(doc, prefix=()):
    """Every leaf of the document tree with its path: scalars (null included),
    set members, and containers without children."""
    k = kind(doc)
    if k == "map" and doc:
        out = []
        for kk, v in doc.items():
            out.extend(leaves(v, prefix + (("key", _key_text(kk)),)))
        return out
    if k == "seq" and doc:
        out = []
        for i, v in enumerate(doc):
            out.extend(leaves(v, prefix + (("idx", i),)))
        return out
    if k == "set" and doc:
        return [(prefix + (("key", _key_text(m)),), leaf_token(m)) for m in doc]
    return [(prefix, leaf_token(doc))]


def erase(segs):
    """Path with the sequence indexes forgotten (the synchronised modes disregard them)."""
    return tuple(("idx", "*") if k == "idx" else (k, v) for k, v in segs)


# --------------------------------------------------------------------------- equality as data
def list_class(x):
    """'empty' | 'aoh' (every member a hash) | 'array' (no member a hash) | 'mixed'."""
    if not x:
        return "empty"
    n = sum(1 for e in x if isinstance(e, dict))
    if n == len(x):
        return "aoh"
    if n == 0:
        return "array"
    return "mixed"


def has_mixed_list(doc):
    k = kind(doc)
    if k == "map":
        return any(has_mixed_list(v) for v in doc.values())
    if k == "seq":
        return list_class(doc) == "mixed" or any(has_mixed_list(v) for v in doc)
    return False


def data_equal(l, r, array_mode="position", aoh_mode="position", aoh_key=None,
               mixed="aoh", whole_unit="recursive", scalars="strict"):
    """Do two documents hold the same data, sequence order disregarded wherever
    the mode in force synchronises the sequence (multiset-wise, recursively)?

    array_mode governs sequences none of whose members is a hash, aoh_mode those
    all of whose members are hashes.  Readings the documentation leaves open are
    parameters, so that a caller can see whether a verdict depends on them:
      mixed       "aoh" | "array": which mode governs a sequence with both kinds
                  of member (the property keeps key/deep off such lists anyway);
      whole_unit  "recursive": order inside a record compared "as a whole unit"
                  (aoh position/value/key) still follows the modes (the
                  statement: order disregarded in the synchronised modes);
                  "plain": a whole unit is compared by plain equality.
      scalars     "strict": true is not 1;  "loose": Python `==` on scalars (only
                  ever used to *name* the cause of a disagreement).
    aoh_key is accepted for signature completeness: multiset equality of records
    does not depend on which field identifies them (see identity_key_issues for
    the cases where matching *by key* cannot realise that multiset equality)."""
    if array_mode not in ARRAY_MODES or aoh_mode not in AOH_MODES:
        raise ValueError("unknown mode %r/%r" % (array_mode, aoh_mode))

    def eq(a, b):
        ka, kb = kind(a), kind(b)
        if ka != kb:
            return False
        if ka == "map":
            if set(map(_scalar_token, a)) != set(map(_scalar_token, b)):
                return False
            return all(eq(a[k], b[k]) for k in a)
        if ka == "set":
            return canon(a) == canon(b)
        if ka != "seq":
            if scalars == "loose":
                return a == b
            return _scalar_token(a) == _scalar_token(b)
        if len(a) != len(b):
            return False
        if not a:
            return True
        ca, cb = list_class(a), list_class(b)
        if {ca, cb} == {"aoh", "array"}:
            return False                      # a hash never equals a non-hash
        if ca == "mixed" or cb == "mixed":
            cls = mixed
        else:
            cls = ca
        if cls == "array":
            return pairwise(a, b, eq) if array_mode == "position" else multiset(a, b, eq)
        rec_eq = eq
        if whole_unit == "plain" and aoh_mode in AOH_WHOLE_UNIT:
            rec_eq = strict_equal if scalars == "strict" else loose_equal
        if aoh_mode in AOH_SYNC:
            return multiset(a, b, rec_eq)
        return pairwise(a, b, rec_eq)

    return eq(l, r)


def pairwise(a, b, eq):
    return len(a) == len(b) and all(eq(x, y) for x, y in zip(a, b))


def multiset(a, b, eq):
    """Multiset equality under an equivalence `eq` (greedy matching is exact then)."""
    if len(a) != len(b):
        return False
    rest = list(b)
    for x in a:
        for j, y in enumerate(rest):
            if eq(x, y):
                del rest[j]
                break
        else:
            return False
    return True


def identity_key_issues(l, r, aoh_key=None):
    """For key/deep: which all-hash sequences of the two documents cannot be
    matched *by identity key* in a well defined way?  Sequences are grouped by
    their index-free path; the identity field of a group is `aoh_key` or
    (--help epilog) "the first attribute of the first record" -- of either
    document's sequence, the epilog does not say which.  Returns a subset of
      {"missing":   some record of a group lacks (one of) the identity field(s),
       "duplicate": two records of one sequence share an identity value,
       "bool-int":  two identity values of one sequence are distinct only as true/1,
       "uninferable": a first record is {} (no field to infer), "ambiguous": the two documents' first records
                    suggest different fields -- with either, matching by key is not defined by the documentation}.
    Only used to *name* the cause of a disagreement."""
    groups = {}

    def walk(x, path):
        k = kind(x)
        if k == "map":
            for kk, v in x.items():
                walk(v, path + (("key", _key_text(kk)),))
        elif k == "seq":
            if list_class(x) == "aoh":
                groups.setdefault(path, []).append(x)
            for v in x:
                walk(v, path + (("idx", "*"),))

    walk(l, ())
    walk(r, ())
    issues = set()
    for seqs in groups.values():
        fields = [aoh_key] if aoh_key is not None else []
        if aoh_key is None:
            for s in seqs:
                f = next(iter(s[0]), None)
                if f is None:
                    issues.add("missing")       # first record is {}: no field to infer
                    issues.add("uninferable")
                elif f not in fields:
                    fields.append(f)
        if aoh_key is None and len(fields) > 1:
            issues.add("ambiguous")             # the first records of the two documents suggest different fields
        for s in seqs:
            for f in fields:
                vals = []
                for rec in s:
                    if f not in rec:
                        issues.add("missing")
                    else:
                        vals.append(canon(rec[f]))
                if len(set(vals)) != len(vals):
                    issues.add("duplicate")
                raw = [rec[f] for rec in s if f in rec]
                for i in range(len(raw)):
                    for j in range(i + 1, len(raw)):
                        if loose_equal(raw[i], raw[j]) and not strict_equal(raw[i], raw[j]):
                            issues.add("bool-int")
    return issues


# --------------------------------------------------------------------------- the clauses
def _fail(clause, path, detail, **kw):
    d = {"clause": clause, "path": list(path) if path is not None else None, "detail": detail}
    d.update(kw)
    return d


def positional(modes):
    return modes.get("arrays", "position") == "position" and modes.get("aoh", "position") in ("position", "dpos")


def diff_truth(entries, lhs, rhs, modes):
    """The clauses of C06 against one report.  Returns the failed clauses (dicts
    with `clause`, `path` (segments or None), `detail`); [] when all hold.

    modes: {"arrays": "position"|"value", "aoh": one of AOH_MODES, "aoh_key": str|None}

    Clauses
      path-form        (all modes)   the entry's path is made of key/index segments
      left-true        (positional)  SAME/CHANGE/DELETE: lhs document holds entry.lhs at entry.path
      right-true       (positional)  SAME/CHANGE/ADD:    rhs document holds entry.rhs at entry.path
      same-equal       (positional)  SAME  => values equal as data
      change-differ    (positional)  CHANGE => values differ as data
      leaf-covered     (positional)  every leaf of either document has an entry at its path or an ancestor's
      differ-no-entry  (all modes)   documents differ as data  => some entry is not SAME
      equal-but-entry  (all modes)   documents equal as data   => every entry is SAME   (reflexivity when lhs is rhs)
      left-once        (all modes)   every left sequence element is accounted for exactly once by SAME/CHANGE/DELETE
      right-once       (all modes)   every right sequence element is accounted for exactly once by SAME/CHANGE/ADD
    An element that is traversed deeply is accounted for by the entries of its leaves,
    so the exactly-once clauses are checked leaf by leaf, over the leaves that are or
    lie within a sequence element (the statement speaks of elements; a leaf outside any
    sequence is subject to leaf-covered only).  In the synchronised modes an entry's
    index may name either document's position: index-free paths are compared there.
    A container without children counts as a leaf, except where the other document
    holds a non-empty container of the same kind in its place: then the entries about
    that one's children say all there is to say (`{}` vs `{a: 1}` needs only ADD a)."""
    arrays = modes.get("arrays") or "position"
    aoh = modes.get("aoh") or "position"
    aoh_key = modes.get("aoh_key")
    pos = positional({"arrays": arrays, "aoh": aoh})
    fails = []

    parsed = []
    for n, (action, path, lv, rv) in enumerate(entries):
        if action not in ACTIONS:
            raise ValueError("unknown action %r" % (action,))
        try:
            segs = tuple(parse_path(path))
        except ValueError as ex:
            fails.append(_fail("path-form", None, str(ex), entry=n))
            segs = None
        parsed.append((action, segs, lv, rv))

    # ---- truth of each entry (positional comparison only)
    if pos:
        for n, (action, segs, lv, rv) in enumerate(parsed):
            if segs is None:
                continue
            if action in LEFT_SIDED:
                found, val = resolve(lhs, segs)
                if not found:
                    fails.append(_fail("left-true", segs, "%s entry: the left document has nothing at this path" % action, entry=n))
                elif not strict_equal(val, lv):
                    fails.append(_fail("left-true", segs, "%s entry: left value is not what the left document holds" % action,
                                       entry=n, loose=loose_equal(val, lv)))
            if action in RIGHT_SIDED:
                found, val = resolve(rhs, segs)
                if not found:
                    fails.append(_fail("right-true", segs, "%s entry: the right document has nothing at this path" % action, entry=n))
                elif not strict_equal(val, rv):
                    fails.append(_fail("right-true", segs, "%s entry: right value is not what the right document holds" % action,
                                       entry=n, loose=loose_equal(val, rv)))
            if action == "SAME" and not strict_equal(lv, rv):
                fails.append(_fail("same-equal", segs, "SAME entry with different values", entry=n, loose=loose_equal(lv, rv)))
            if action == "CHANGE" and strict_equal(lv, rv):
                fails.append(_fail("change-differ", segs, "CHANGE entry with equal values", entry=n))

        # ---- coverage (any entry at the leaf's path or an ancestor's)
        entry_paths = set(s for (_, s, _, _) in parsed if s is not None)
        for side, doc, other in (("left", lhs, rhs), ("right", rhs, lhs)):
            for lp, tok in leaves(doc):
                if tok[0] == "empty" and _nonempty_same_kind(other, lp, tok[1]):
                    continue
                if not any(lp[:i] in entry_paths for i in range(len(lp) + 1)):
                    fails.append(_fail("leaf-covered", lp, "%s leaf has no entry at its path or an ancestor's" % side,
                                       side=side, leaf=tok))

    # ---- a non-SAME entry  <=>  the documents differ as data
    nonsame = [n for n, e in enumerate(parsed) if e[0] != "SAME"]
    equal = data_equal(lhs, rhs, arrays, aoh, aoh_key)
    if equal and nonsame:
        n = nonsame[0]
        fails.append(_fail("equal-but-entry", parsed[n][1],
                           "documents are equal as data but the report has %d non-SAME entr%s (first: %s)"
                           % (len(nonsame), "y" if len(nonsame) == 1 else "ies", parsed[n][0]),
                           entry=n, identical=canon(lhs) == canon(rhs)))
    if not equal and not nonsame:
        fails.append(_fail("differ-no-entry", None, "documents differ as data but every entry is SAME (%d entries)" % len(parsed)))

    # ---- exactly-once accounting
    other_kinds = {}
    if not pos:
        # index-free path -> kinds of non-empty containers found there, per document
        for name, doc in (("left", lhs), ("right", rhs)):
            other_kinds[name] = _container_kinds(doc)
    for side, doc, actions, col in (("left", lhs, LEFT_SIDED, 2), ("right", rhs, RIGHT_SIDED, 3)):
        other = rhs if side == "left" else lhs
        oside = "right" if side == "left" else "left"

        def skip(lp, tok):
            if not any(k == "idx" for k, _ in lp):
                return True                     # not (inside) a sequence element
            if tok[0] == "empty":
                if pos:
                    return _nonempty_same_kind(other, lp, tok[1])
                return tok[1] in other_kinds[oside].get(erase(lp), ())
            return False
        want = Counter()
        first_path = {}
        all_paths = {}
        sided_paths = set(e[1] for e in parsed if e[0] in actions and e[1] is not None)
        for lp, tok in leaves(doc):
            if skip(lp, tok):
                continue
            k = (lp if pos else erase(lp), tok)
            want[k] += 1
            all_paths.setdefault(k, []).append(lp)
            # (index-free comparison cannot tell which of several like leaves is the orphan:
            #  prefer one that no entry of this side names by its exact path)
            if k not in first_path or (
                    any(first_path[k][:i] in sided_paths for i in range(len(first_path[k]) + 1))
                    and not any(lp[:i] in sided_paths for i in range(len(lp) + 1))):
                first_path[k] = lp
        got = Counter()
        got_path = {}
        for e in parsed:
            if e[0] in actions and e[1] is not None:
                for lp, tok in leaves(e[col], e[1]):
                    if skip(lp, tok):
                        continue
                    k = (lp if pos else erase(lp), tok)
                    got[k] += 1
                    # remember the paths; one the document does not have (a phantom) first
                    if resolve(doc, lp)[0]:
                        got_path.setdefault(k, []).append(lp)
                    else:
                        got_path.setdefault(k, []).insert(0, lp)
        for k in want:
            if got[k] < want[k]:
                fails.append(_fail(side + "-once", first_path[k],
                                   "%s leaf is accounted for %d time(s) by %s entries, the document holds it %d time(s)"
                                   % (side, got[k], "/".join(actions), want[k]),
                                   side=side, leaf=k[1], got=got[k], want=want[k],
                                   candidates=[list(x) for x in all_paths[k]]))
        for k in got:
            if got[k] > want[k]:
                lp = got_path[k][0]
                fails.append(_fail(side + "-once", lp,
                                   "%s entries account %d time(s) for a leaf the document holds %d time(s)"
                                   % (side, got[k], want[k]),
                                   side=side, leaf=k[1], got=got[k], want=want[k], erased=path_text_erased(k[0]),
                                   candidates=[list(x) for x in got_path[k]]))
    return fails


def _nonempty_same_kind(doc, segs, k):
    found, val = resolve(doc, segs)
    return found and kind(val) == k and len(val) > 0


def _container_kinds(doc):
    out = {}

    def walk(x, path):
        k = kind(x)
        if k in ("map", "seq", "set") and len(x):
            out.setdefault(path, set()).add(k)
        if k == "map":
            for kk, v in x.items():
                walk(v, path + (("key", _key_text(kk)),))
        elif k == "seq":
            for v in x:
                walk(v, path + (("idx", "*"),))
    walk(doc, ())
    return out


def path_text_erased(segs):
    out = []
    for k, v in segs:
        if k == "idx":
            out.append("[%s]" % v)
        else:
            out.append(("." if out else "") + str(v))
    return "".join(out)
