"""Native meaning of the primitive predicates that pyvc treats as uninterpreted symbols.

Spec functions import them from here, so the same spec text runs concretely (rtc oracle)
and symbolically (pyvc maps every name imported from spec.prims to its built-in symbol).
"""
import re as _re
from ast import literal_eval as _literal_eval


def re_search(pattern, text):
    return _re.compile(pattern).search(text) is not None


def re_valid(pattern):
    try:
        _re.compile(pattern)
        return True
    except _re.error:
        return False


def literal_ok(value):
    try:
        _literal_eval(value)
        return True
    except (ValueError, SyntaxError, TypeError, MemoryError, RecursionError):
        return False


def literal(value):
    return _literal_eval(value)


def implies(a, b):
    return (not a) or bool(b)


def xor(a, b):
    return bool(a) != bool(b)


def same(a, b):
    return a is b or (type(a) is type(b) and a == b)
