"""C07 oracle — what `yaml-paths` must report for one search expression.

Pure function over a *plain model* of one YAML document.  Written from the
property statement (properties.jsonl C07) and the `yaml-paths --help` text, not
from `search_for_paths`; every clause that only the code defines is marked
`from-code` and is never turned into a demand (such locations are "optional").

Document model (plain dicts; the harness builds it from the loaded data, tests
may build it by hand with the constructors below):

  scalar  {"k": "scalar", "value": v,       "anchor": name|None, "alias": bool}
  seq     {"k": "seq",    "items": [node],  "anchor": ..,        "alias": ..}
  map     {"k": "map",    "entries": [entry], "merges": [anchor_name, ...], "anchor", "alias"}
  set     {"k": "set",    "members": [entry-without-val], "anchor", "alias"}
  entry   {"key": key, "key_anchor": name|None, "key_alias": bool, "merged": bool, "val": node}

`alias` is True for every occurrence of an anchored node except the first one
in document order ("An anchor is an original, reusable key or value.  All
aliases become replaced by the anchors they reference when YAML data is read").
`merged` marks an entry that is present only through a `<<: *anchor` merge key.
Scalar payloads and keys are opaque: they are only handed to the match
predicate, by default the real `Searches.search_matches` (C12 is verified
separately) XOR `inverted`.

  terms = (operator_symbol, inverted, term_text)            e.g. ("=", False, "a")
  opts  = {"search_values", "search_keys", "include_key_aliases",
           "include_value_aliases", "expand_children"}  (+ optional "predicate")

A *locator* is the tuple of concrete child steps from the root:
("k", key) into a map entry / set member, ("i", index) into a sequence,
("merge", anchor_name) for the `<<: *anchor_name` reference of a map.
`path_segments` is the same walk in rtc.pathgen's segment vocabulary
(("key", k) / ("idx", i)), i.e. the canonical way to write the path.

Rules (source in brackets):

 R1 [statement, --help -i/-k/-K]  Candidates are scalar values / sequence
    elements when value search is on and map keys when key search is on.  A
    map entry is ONE location (its path names the key and resolves to the
    value), so it is due once if the key or the scalar value matches.
    Containers themselves are not candidates [from-code: the code never tests a
    map or a sequence against the expression].
 R2 [--help "reference handling options"]  An aliased value (scalar or
    container, *including child nodes*) counts only with include_value_aliases
    (-y/-l).  A map entry whose KEY is an alias (and everything below it) counts
    only with include_key_aliases (-Y/-l): -A "discard[s] all aliased keys and
    values (including child nodes)", -y "does not permit search traversal into
    aliased keys".  "Alias" is a fact about the document (not the first
    occurrence in document order), not about what the search happened to walk;
    an excluded scalar alias whose original sits below a matched key (R4) is
    classed separately (`...-of-unvisited-anchor`) because it is borderline.
 R3 Entries that exist only through a merge key are repeats of an anchored
    node's children: [statement/-A] never counted under -A, [--help -l "all"]
    ordinary entries under -l; [from-code] also looked at when just one of -Y/-y
    is on, so there a match is tolerated but not demanded (optional).  The merge
    reference itself is neither a key nor a value: never due [statement
    "nothing else"; --refnames is the documented way to search reference names].
 R4 [from-code, comment at yaml_paths.py "No other matches within this node
    matter because they are already in the result"]  Without expansion a
    matched key stands for its whole subtree: everything below is optional.
 R5 [statement, --help -m]  With expansion a matched parent is replaced by
    exactly its leaf descendants that R2/R3 permit, each once.  A matched key
    with a scalar value is its own leaf.  [from-code] a set is a leaf (the set
    and its members are both optional); an empty container has no leaves (the
    location itself is optional).  When the value of the matched key is itself
    an alias that R2 excludes, the help text does not say whether the key match
    survives: everything there is optional.
 R6 Set members: the documentation does not say whether a member is a key or a
    value; it is one of the two, so with -k (both searched) a matching member is
    due wherever the set sits, and in the -i / -K modes it is optional
    [from-code: the code always searches the members of a set that hangs under
    a map key or is the root].  An aliased member is forbidden under -A, due
    under -l (+ -k), optional under -Y/-y.  A set that is a sequence ELEMENT is,
    from-code, tested as if it were a scalar: the element itself is optional
    when values are searched.
 R7 [statement "any document"]  A document that is a single scalar is a value.
"""
from collections import namedtuple

REQUIRED, OPTIONAL, FORBIDDEN = "required", "optional", "forbidden"

Expect = namedtuple("Expect", "path_segments locator status why tags")

_SYMBOL_TO_METHOD = None


def _default_predicate(terms):
    """Leaf predicate = real Searches.search_matches XOR inverted (C12's rules)."""
    global _SYMBOL_TO_METHOD
    from yamlpath.common import Searches
    from yamlpath.enums import PathSearchMethods
    if _SYMBOL_TO_METHOD is None:
        _SYMBOL_TO_METHOD = {str(m): m for m in PathSearchMethods}
    op, inverted, term = terms
    method = _SYMBOL_TO_METHOD[op]

    def pred(value):
        return bool(Searches.search_matches(method, term, value)) != bool(inverted)
    return pred


# ---------------------------------------------------------------- constructors
def scalar(value, anchor=None, alias=False):
    return {"k": "scalar", "value": value, "anchor": anchor, "alias": alias}


def seq(items, anchor=None, alias=False):
    return {"k": "seq", "items": list(items), "anchor": anchor, "alias": alias}


def entry(key, val=None, key_anchor=None, key_alias=False, merged=False):
    return {"key": key, "key_anchor": key_anchor, "key_alias": key_alias, "merged": merged, "val": val}


def mapping(entries, merges=(), anchor=None, alias=False):
    return {"k": "map", "entries": list(entries), "merges": list(merges), "anchor": anchor, "alias": alias}


def setnode(members, anchor=None, alias=False):
    return {"k": "set", "members": list(members), "anchor": anchor, "alias": alias}


# -------------------------------------------------------------------- the spec
def classify(doc_model, terms, opts):
    """Every location of the document, in document order, with its verdict.

    Returns a list of Expect(path_segments, locator, status, why, tags); each
    locator occurs exactly once.  status: required / optional / forbidden.
    """
    pred = opts.get("predicate") or _default_predicate(terms)
    V = bool(opts.get("search_values", True))
    K = bool(opts.get("search_keys", False))
    IK = bool(opts.get("include_key_aliases", True))
    IV = bool(opts.get("include_value_aliases", False))
    E = bool(opts.get("expand_children", False))
    out = []
    unvisited = set()     # anchors whose defining occurrence lies in a region the search need not walk
    # an anchor defined in KEY position whose alias is used in VALUE position (and the other way round): the statement
    # still calls the alias a repeat, but the tools keep one alias bookkeeping per position kind -- its own class
    key_defs, val_defs = set(), set()

    def _defs(node):
        if node is None:
            return
        if node.get("anchor") and not node.get("alias"):
            val_defs.add(node["anchor"])
        for e in node.get("entries", []) + node.get("members", []):
            if e.get("key_anchor") and not e.get("key_alias"):
                key_defs.add(e["key_anchor"])
            _defs(e.get("val"))
        for it in node.get("items", []):
            _defs(it)
    _defs(doc_model)

    def emit(segs, loc, status, why, tags, node=None, ent=None):
        if status == REQUIRED and "merged" in tags and not (IK and IV):
            status = OPTIONAL                         # R3: which single option "asks" is from-code
        if status == FORBIDDEN and node is not None and node.get("alias") and node.get("anchor") in key_defs \
                and node.get("anchor") not in val_defs and "aliased-value" in why:
            why += "/alias-of-a-key-anchor"
        if status == FORBIDDEN and ent is not None and ent.get("key_alias") and ent.get("key_anchor") in val_defs \
                and ent.get("key_anchor") not in key_defs and "aliased-key" in why:
            why += "/alias-of-a-value-anchor"
        out.append(Expect(tuple(segs), tuple(loc), status, why, tuple(sorted(tags))))

    def children(node, segs, loc):
        """(kind, child_node_or_None, entry_or_None, segs, loc) of the direct children."""
        k = node["k"]
        if k == "map":
            for e in node["entries"]:
                yield "entry", e["val"], e, segs + [("key", e["key"])], loc + [("k", e["key"])]
            for m in node["merges"]:
                yield "merge", None, None, segs + [("anchor", m)], loc + [("merge", m)]
        elif k == "seq":
            for i, it in enumerate(node["items"]):
                yield "item", it, None, segs + [("idx", i)], loc + [("i", i)]
        elif k == "set":
            for e in node["members"]:
                yield "member", None, e, segs + [("key", e["key"])], loc + [("k", e["key"])]

    def mark_below(node, segs, loc, status, why, tags):
        """Give every location strictly below `node` the same verdict."""
        if node is None:
            return
        for kind, child, e_, s2, l2 in children(node, segs, loc):
            if e_ is not None and e_["key_anchor"] and not e_["key_alias"]:
                unvisited.add(e_["key_anchor"])
            if child is not None and child["anchor"] and not child["alias"]:
                unvisited.add(child["anchor"])
            if kind == "merge":
                emit(s2, l2, FORBIDDEN, "merge-reference", tags)     # R3
                continue
            emit(s2, l2, status, why, tags)
            mark_below(child, s2, l2, status, why, tags)

    # ---- ordinary search ------------------------------------------------
    def search(node, segs, loc, tags):
        k = node["k"]
        if k == "map":
            for e in node["entries"]:
                s2 = segs + [("key", e["key"])]
                l2 = loc + [("k", e["key"])]
                t = set(tags)
                if e["merged"]:
                    if not (IK or IV):                                   # R3 from-code
                        emit(s2, l2, FORBIDDEN, "merged-entry-without-alias-option", t)
                        mark_below(e["val"], s2, l2, FORBIDDEN, "merged-entry-without-alias-option", t)
                        continue
                    t.add("merged")
                if e["key_alias"]:
                    if not IK:                                           # R2
                        emit(s2, l2, FORBIDDEN, "aliased-key-entry", t, ent=e)
                        mark_below(e["val"], s2, l2, FORBIDDEN, "aliased-key-entry", t)
                        continue
                    t.add("alias-key")
                if K and pred(e["key"]):                                 # R1
                    matched_parent(e["val"], s2, l2, t)
                    continue
                value_site(e["val"], s2, l2, t, in_seq=False, keys_off=not K)
            for m in node["merges"]:
                emit(segs + [("anchor", m)], loc + [("merge", m)], FORBIDDEN, "merge-reference", tags)
        elif k == "seq":
            for i, it in enumerate(node["items"]):
                value_site(it, segs + [("idx", i)], loc + [("i", i)], set(tags), in_seq=True, keys_off=True)
        elif k == "set":
            set_members(node, segs, loc, tags, always=(K and V))
        else:
            raise ValueError("search() on a non-container: %r" % (node,))

    def set_members(node, segs, loc, tags, always):
        for e in node["members"]:                                         # R6 from-code
            s2 = segs + [("key", e["key"])]
            l2 = loc + [("k", e["key"])]
            t = set(tags) | {"set-member"}
            if not pred(e["key"]):
                emit(s2, l2, FORBIDDEN, "no-match", t)
                continue
            due = REQUIRED if always else OPTIONAL
            if e["key_alias"]:
                t.add("alias-key")
                if not IK and not IV:
                    emit(s2, l2, FORBIDDEN, "aliased-set-member", t)
                    continue
                if not (IK and IV):
                    due = OPTIONAL
            emit(s2, l2, due, "set-member-match", t)

    def value_site(node, segs, loc, tags, in_seq, keys_off):
        k = node["k"]
        if node["alias"]:
            if not IV:                                                   # R2
                why = "aliased-value" if k == "scalar" else "aliased-value-container"
                if k == "scalar" and node["anchor"] in unvisited:
                    # the original sits below a matched key (R4) or an excluded entry: the
                    # statement still calls this occurrence a repeat, but it is its own class
                    why += "-of-unvisited-anchor"
                emit(segs, loc, FORBIDDEN, why, tags, node=node)
                mark_below(node, segs, loc, FORBIDDEN, why, tags)
                return
            tags = set(tags) | {"alias-value"}
        if k in ("map", "seq"):
            emit(segs, loc, FORBIDDEN, "container-not-a-candidate", tags)  # R1 from-code
            search(node, segs, loc, tags)
        elif k == "set":
            if in_seq:                                                   # R6 from-code anomaly
                t = set(tags) | {"set-in-seq"}
                emit(segs, loc, OPTIONAL if V else FORBIDDEN, "set-element-tested-as-scalar", t)
                set_members(node, segs, loc, t, always=(K and V))
            else:
                emit(segs, loc, FORBIDDEN, "container-not-a-candidate", tags)
                search(node, segs, loc, tags)
        else:
            if not V:
                emit(segs, loc, FORBIDDEN, "values-not-searched", tags)
            elif pred(node["value"]):
                emit(segs, loc, REQUIRED, "value-match", tags)            # R1
            else:
                emit(segs, loc, FORBIDDEN, "no-match", tags)

    # ---- a key matched ---------------------------------------------------
    def matched_parent(val, segs, loc, tags):
        if not E:
            emit(segs, loc, REQUIRED, "key-match", tags)                  # R1
            mark_below(val, segs, loc, OPTIONAL, "subsumed-by-matched-key", tags)   # R4 from-code
            return
        if val["alias"] and not IV:                                       # R5: undocumented corner
            emit(segs, loc, OPTIONAL, "matched-key-with-excluded-alias-value", tags)
            mark_below(val, segs, loc, OPTIONAL, "matched-key-with-excluded-alias-value", tags)
            return
        expand(val, segs, loc, set(tags) | {"expanded"}, top=True)

    def expand(node, segs, loc, tags, top=False):
        k = node["k"]
        if node["alias"] and not top:
            if not IV:                                                   # R5 + R2
                why = "expanded-aliased-value"
                if k == "scalar" and node["anchor"] in unvisited:
                    why += "-of-unvisited-anchor"      # original sits below a discarded aliased key
                emit(segs, loc, FORBIDDEN, why, tags, node=node)
                mark_below(node, segs, loc, FORBIDDEN, why, tags)
                return
            tags = set(tags) | {"alias-value"}
        if k == "scalar":
            emit(segs, loc, REQUIRED, "key-match" if top else "expanded-leaf", tags)
            return
        if k == "set":                                                   # from-code: a set is a leaf
            emit(segs, loc, OPTIONAL, "expanded-leaf-set", tags)
            mark_below(node, segs, loc, OPTIONAL, "member-of-expanded-leaf-set", tags)
            return
        empty = not (node["entries"] if k == "map" else node["items"])
        if empty and not (k == "map" and node["merges"]):
            emit(segs, loc, OPTIONAL, "expanded-empty-container", tags)   # from-code: vanishes
            return
        emit(segs, loc, FORBIDDEN, "expanded-parent-is-replaced", tags)   # R5 "replaced by"
        if k == "map":
            for e in node["entries"]:
                s2 = segs + [("key", e["key"])]
                l2 = loc + [("k", e["key"])]
                t = set(tags)
                if e["merged"]:
                    if not (IK or IV):                                   # R3 from-code
                        emit(s2, l2, FORBIDDEN, "merged-entry-without-alias-option", t)
                        mark_below(e["val"], s2, l2, FORBIDDEN, "merged-entry-without-alias-option", t)
                        continue
                    t.add("merged")
                if e["key_alias"]:
                    if not IK:                                           # R2
                        emit(s2, l2, FORBIDDEN, "expanded-aliased-key-entry", t, ent=e)
                        mark_below(e["val"], s2, l2, FORBIDDEN, "expanded-aliased-key-entry", t)
                        continue
                    t.add("alias-key")
                expand(e["val"], s2, l2, t)
            for m in node["merges"]:
                emit(segs + [("anchor", m)], loc + [("merge", m)], FORBIDDEN, "merge-reference", tags)
        else:
            for i, it in enumerate(node["items"]):
                expand(it, segs + [("idx", i)], loc + [("i", i)], set(tags))

    # ---- root --------------------------------------------------------------
    k = doc_model["k"]
    if k == "scalar":                                                     # R7
        if V and pred(doc_model["value"]):
            emit([], [], REQUIRED, "value-match", {"root-scalar"})
        else:
            emit([], [], FORBIDDEN, "no-match" if V else "values-not-searched", {"root-scalar"})
    else:
        emit([], [], FORBIDDEN, "container-not-a-candidate", set())
        search(doc_model, [], [], set())
    return out


def spec_search(doc_model, terms, opts):
    """Ordered (document order) list of what must be reported.

    Each item unpacks as (path_segments, node_locator, ...): an
    Expect(path_segments, locator, status, why, tags) with status "required".
    Use `classify` for the optional / forbidden locations as well.
    """
    return [e for e in classify(doc_model, terms, opts) if e.status == REQUIRED]
