"""Executable oracle of the documented yaml-merge policies, over PLAIN Python data.

    dict -> Hash (ordered),  list -> Array / Array-of-Hashes,  rtc.gen.SetT -> Set,
    None / bool / int / float / str -> Scalar.

Written from the documentation, NOT from yamlpath/merger/merger.py:

  [H]  yamlpath/merger/enums/hashmergeopts.py   (HashMergeOpts docstring)
  [A]  yamlpath/merger/enums/arraymergeopts.py  (ArrayMergeOpts docstring)
  [O]  yamlpath/merger/enums/aohmergeopts.py    (AoHMergeOpts docstring)
  [E]  yamlpath/merger/enums/setmergeopts.py    (SetMergeOpts docstring)
  [M]  yamlpath/merger/enums/multidocmodes.py   (MultiDocModes docstring)
  [help] `yaml-merge --help` (yamlpath/commands/yaml_merge.py: option help + epilog)
  [S]  the statements of C05 / C11 / C18 in /verif/properties.jsonl
  [C]  /verif/DESIGN.md Appendix C (the table of left kind x right kind)

Where none of these says what happens and only the code defines the behaviour
the clause is marked `from-code`; evaluating such a clause appends
("from-code", <name>) to the optional `trace`, so that a harness can refuse to
call a disagreement there a witness.

Where the documentation leaves two readings open, the reading is selected by a
named *liberty* (a member of `cfg.liberties`); every time a liberty is
consulted ("liberty", <name>) is appended to `trace`.  `spec_outcomes`
enumerates every outcome reachable through the liberties; the real result is
acceptable iff it equals one of them.

This module imports nothing of yamlpath (SetT is a plain tuple subclass).
"""
import itertools

from rtc.gen import SetT

HASH_MODES = ("deep", "left", "right")
ARRAY_MODES = ("all", "left", "right", "unique")
AOH_MODES = ("all", "left", "right", "unique", "deep")
SET_MODES = ("left", "right", "unique")
BUILTIN_DEFAULTS = {"hashes": "deep", "arrays": "all", "aoh": "all", "sets": "unique"}  # [help] default=...
_OPT_OF_KIND = {"hash": "hashes", "array": "arrays", "aoh": "aoh", "set": "sets"}
MODES_OF_KIND = {"hash": HASH_MODES, "array": ARRAY_MODES, "aoh": AOH_MODES, "set": SET_MODES}

# Readings the documentation leaves open.  Absent = the first reading, present = the second.
LIBERTIES = (
    # [A] "Only unique RHS Array elements are appended": are duplicates INSIDE the
    # right-hand array appended once or each time?  ([C]: both accepted.)
    "array_unique_dedups_rhs",        # absent: `[1] <- [2,2]` = [1,2,2]; present: [1,2]
    # [O] UNIQUE: is a right-hand record compared with right-hand records appended
    # earlier in the same merge (absent: yes) or only with the original left ones (present)?
    # (DEEP has no such liberty: records are matched by identity against the whole result so far.)
    "aoh_rhs_dups_kept",
    # An EMPTY right-hand sequence is neither visibly an Array nor an Array-of-Hashes:
    "empty_seq_is_aoh",               # absent: the --arrays policy governs it; present: --aoh
    # [C] an empty right-hand sequence over a non-sequence: "no change" or a merge error
    "empty_seq_into_nonseq_error",
    # [H][A][O][E] LEFT = "not overwritten", RIGHT = "fully replace": when the kinds clash and
    # the policy for the right-hand kind is LEFT/RIGHT, keeping the left value / taking the
    # right value is accepted as well as the merge error (absent: merge error).
    "clash_short_circuit",
    # [help] "the first attribute of the first record in the Array-of-Hashes": of the
    # right-hand (absent) or of the left-hand (present) Array-of-Hashes?
    "idkey_from_lhs",
    # [O] DEEP over a right-hand element that is not a Hash (mixed sequence): appended
    # (absent) or a merge error (present).
    "aoh_deep_nonhash_error",
)


class SpecMergeError(Exception):
    """The documented policies define no merged document: a merge error is due.

    `cell` classifies which impossible shape was met (stable, for witness keys).
    """

    def __init__(self, cell, path=()):
        Exception.__init__(self, "%s at %r" % (cell, tuple(path)))
        self.cell = cell
        self.path = tuple(path)      # where in the RESULT document the impossible merge was met


class SpecConfig:
    """Effective policy: defaults + per-path overrides.

    hashes/arrays/aoh/sets : the document-wide modes (lower-case names).
    mode_for(path, kind)   : per-path rule; `path` is the tuple of keys/indices of the
                             RIGHT-hand node being merged (from-code: the [rules] paths
                             are matched against the right-hand document; for a root
                             merge that is the same path in the result); kind in
                             {"hash","array","aoh","set"}; returns a mode name or None.
    key_for(path)          : identity key configured in [keys] for the AoH at `path`, or None.
    liberties              : frozenset of names from LIBERTIES.
    """

    def __init__(self, hashes=None, arrays=None, aoh=None, sets=None,
                 mode_for=None, key_for=None, liberties=frozenset()):
        self.hashes = hashes or BUILTIN_DEFAULTS["hashes"]
        self.arrays = arrays or BUILTIN_DEFAULTS["arrays"]
        self.aoh = aoh or BUILTIN_DEFAULTS["aoh"]
        self.sets = sets or BUILTIN_DEFAULTS["sets"]
        self.mode_for = mode_for
        self.key_for = key_for
        self.liberties = frozenset(liberties)

    @classmethod
    def from_sources(cls, cli=None, ini_defaults=None, rules=None, keys=None, liberties=frozenset()):
        """[help] precedence: [rules] per path > command line > [defaults] of the INI file > built-in.

        cli / ini_defaults: {"hashes"|"arrays"|"aoh"|"sets": mode or None}
        rules: {path_tuple: mode}   keys: {path_tuple: identity key}
        """
        cli = cli or {}
        ini_defaults = ini_defaults or {}
        eff = {}
        for opt in ("hashes", "arrays", "aoh", "sets"):
            eff[opt] = cli.get(opt) or ini_defaults.get(opt) or BUILTIN_DEFAULTS[opt]
        rules = dict(rules or {})
        keys = dict(keys or {})
        return cls(mode_for=(lambda p, kind: rules.get(tuple(p))) if rules else None,
                   key_for=(lambda p: keys.get(tuple(p))) if keys else None,
                   liberties=liberties, **eff)

    def with_liberties(self, libs):
        c = SpecConfig(self.hashes, self.arrays, self.aoh, self.sets, self.mode_for, self.key_for, libs)
        return c

    def mode(self, rpath, kind):
        if rpath is not None and self.mode_for is not None:
            m = self.mode_for(rpath, kind)
            if m:
                return m
        return getattr(self, _OPT_OF_KIND[kind])


# --------------------------------------------------------------------------- values

def kind(v):
    if isinstance(v, dict):
        return "map"
    if isinstance(v, SetT):
        return "set"
    if isinstance(v, (list, tuple)):
        return "seq"
    return "scalar"


def veq(a, b):
    """Equality of YAML values: `true` is not `1`, `1` is not `1.0`; Hashes compare without
    regard to key order, Arrays with, Sets without."""
    ka, kb = kind(a), kind(b)
    if ka != kb:
        return False
    if ka == "scalar":
        return type(a) is type(b) and (a == b or (a != a and b != b))
    if ka == "map":
        if len(a) != len(b):
            return False
        for k, v in a.items():
            hit = [k2 for k2 in b if veq(k, k2)]
            if not hit or not veq(v, b[hit[0]]):
                return False
        return True
    if ka == "set":
        return len(a) == len(b) and all(any(veq(x, y) for y in b) for x in a)
    return len(a) == len(b) and all(veq(x, y) for x, y in zip(a, b))


def _has(seq, e):
    return any(veq(e, x) for x in seq)


def _ev(trace, *event):
    if trace is not None:
        trace.append(tuple(event))


def _lib(cfg, trace, name):
    _ev(trace, "liberty", name)
    return name in cfg.liberties


# --------------------------------------------------------------------------- node merges

def _clash(l, r, mode, cfg, trace, cell, respath=()):
    """Right-hand container `r` meets a left value of another kind."""
    _ev(trace, "cell", kind(l), kind(r), mode, "clash")
    if kind(l) == "scalar":
        # [S] lists array->hash, scalar->hash, hash->set as impossible; a container over a
        # scalar/null is not mentioned anywhere: the code refuses it, [C] follows.
        _ev(trace, "from-code", "container-into-scalar")
    if mode in ("left", "right") and _lib(cfg, trace, "clash_short_circuit"):
        return l if mode == "left" else r
    raise SpecMergeError(cell, respath)


def _merge_maps(l, r, cfg, rpath, respath, trace):
    """[H] DEEP: "RHS Hashes are deeply merged into LHS Hashes (full merge)".

    [S] left-hand content not named by the right keeps its value and relative order;
    [C] new right-hand keys are inserted before the right-hand key that follows them (the
    canonical result puts them IMMEDIATELY before it), the remaining ones are appended.
    ("hash-deep", respath, left keys, right keys) is traced so that a harness can check
    the order clauses on the real result instead of demanding the canonical order.
    """
    _ev(trace, "hash-deep", tuple(respath), tuple(l.keys()), tuple(r.keys()))
    vals = dict(l)
    order = list(l.keys())
    pending = []
    for k, rv in r.items():
        if k in l:
            i = order.index(k)
            order[i:i] = pending
            pending = []
            vals[k] = _merge_value(l[k], rv, cfg, None if rpath is None else rpath + (k,), respath + (k,), trace)
        else:
            pending.append(k)
            vals[k] = rv
    order.extend(pending)
    return {k: vals[k] for k in order}


def _merge_arrays(l, r, cfg, rpath, trace):
    """[A] l, r sequences; r is not an Array-of-Hashes."""
    mode = cfg.mode(rpath, "array")
    _ev(trace, "cell", "seq", "array", mode)
    if mode == "left":
        return l                      # "LHS Arrays are not overwritten/appended by RHS Arrays"
    if mode == "right":
        return r                      # "RHS Arrays fully replace LHS Arrays"
    if mode == "all":
        return list(l) + list(r)      # "All RHS Arrays elements are appended ... (no deduplication)"
    out = list(l)                     # UNIQUE: "Only unique RHS Array elements are appended"
    dedup_rhs = None
    for e in r:
        if _has(l, e):
            continue
        if _has(out[len(l):], e):
            if dedup_rhs is None:
                dedup_rhs = _lib(cfg, trace, "array_unique_dedups_rhs")
            if dedup_rhs:
                continue
        out.append(e)
    return out


def _identity_key(l, r, cfg, rpath, trace):
    """[help] [keys]: configured per path, else "the first attribute of the first record"."""
    if rpath is not None and cfg.key_for is not None:
        k = cfg.key_for(rpath)
        if k is not None:
            return k
    first_r = next(iter(r[0]), None) if r and kind(r[0]) == "map" else None
    first_l = next(iter(l[0]), None) if l and kind(l[0]) == "map" else None
    if first_l is not None and first_l != first_r and _lib(cfg, trace, "idkey_from_lhs"):
        return first_l
    return first_r


def _merge_aoh(l, r, cfg, rpath, respath, trace, epath=None):
    """[O] l a sequence, r an Array-of-Hashes.  epath(i) = right-hand path of record i."""
    mode = cfg.mode(rpath, "aoh")
    _ev(trace, "cell", "seq", "aoh", mode)
    if epath is None:
        epath = (lambda i: None) if rpath is None else (lambda i: rpath + (i,))
    if mode == "left":
        return l          # "RHS Hashes are neither merged with nor appended to LHS Hashes"
    if mode == "right":
        return r          # "LHS Hashes are discarded and fully replaced by RHS Hashes"
    if mode == "all":
        return list(l) + list(r)   # "appended to the LHS Array (shallow merge with no de-duplication)"
    out = list(l)
    n_l = len(l)
    if mode == "unique":
        # "RHS Hashes which do not already exist IN FULL within LHS are appended"
        for e in r:
            if _has(l, e):
                continue
            if _has(out[n_l:], e) and not _lib(cfg, trace, "aoh_rhs_dups_kept"):
                continue
            out.append(e)
        return out
    # DEEP: "RHS Hashes are deeply merged into LHS Hashes (full merge)", records matched by
    # the identity key; a record without a left-hand match is appended.
    idkey = _identity_key(l, r, cfg, rpath, trace)
    for i, e in enumerate(r):
        if kind(e) != "map":
            _ev(trace, "from-code", "mixed-sequence")
            if _lib(cfg, trace, "aoh_deep_nonhash_error"):
                raise SpecMergeError("aoh-deep/non-hash-element", respath)
            out.append(e)
            continue
        if idkey is None or idkey not in e:
            # "an identity key is required in both LHS and RHS records" / [C] missing identity key
            raise SpecMergeError("aoh-deep/missing-identity-key", respath)
        hit = None
        for j, le in enumerate(out):
            if kind(le) == "map" and idkey in le and veq(le[idkey], e[idkey]):
                # "deep by identity key": a record appended earlier in this merge is a record of the result like
                # any other, so a later right-hand record with the same identity combines with it (no liberty:
                # two records with one identity in the result would not be a merge BY identity)
                hit = j
                break
        if hit is None:
            out.append(e)
        else:
            out[hit] = _merge_maps(out[hit], e, cfg, epath(i), respath + (hit,), trace)
    return out


def _merge_seqs(l, r, cfg, rpath, respath, trace, cell, epath=None):
    """Right-hand sequence `r` over left value `l` (any kind)."""
    if len(r) == 0:
        # Nothing to add.  Which policy governs an empty sequence is open (liberty).
        k = "aoh" if _lib(cfg, trace, "empty_seq_is_aoh") else "array"
        mode = cfg.mode(rpath, k)
        _ev(trace, "cell", kind(l), "empty-seq", mode)
        if kind(l) != "seq":
            if mode in ("left", "right") and _lib(cfg, trace, "clash_short_circuit"):
                return l if mode == "left" else r
            if _lib(cfg, trace, "empty_seq_into_nonseq_error"):
                raise SpecMergeError(cell + "/empty", respath)
            return l                  # [C] "no change (there is nothing to add)"
        if mode == "right":
            return r                  # [A]/[O] RIGHT: "fully replace"
        return l
    # from-code: a sequence is an Array-of-Hashes iff its FIRST element is a Hash
    is_aoh = kind(r[0]) == "map"
    if any((kind(e) == "map") != is_aoh for e in r):
        _ev(trace, "from-code", "mixed-sequence")
    if kind(l) != "seq":
        return _clash(l, r, cfg.mode(rpath, "aoh" if is_aoh else "array"), cfg, trace, cell, respath)
    # The RIGHT-hand sequence selects the policy: [O] speaks of "RHS Hashes ... appended to the
    # LHS Array", [A] of "RHS Array elements ... appended to LHS Arrays".
    if is_aoh:
        return _merge_aoh(l, r, cfg, rpath, respath, trace, epath)
    return _merge_arrays(l, r, cfg, rpath, trace)


def _merge_sets(l, r, cfg, rpath, trace):
    """[E] l, r sets."""
    mode = cfg.mode(rpath, "set")
    _ev(trace, "cell", "set", "set", mode)
    if mode == "left":
        return l
    if mode == "right":
        return r
    # UNIQUE: "Only RHS Set elements not alread in LHS Sets are appended to LHS Sets"
    return SetT(tuple(l) + tuple(e for e in r if not _has(l, e)))


def _merge_value(l, r, cfg, rpath, respath, trace):
    """Value `r` of the right-hand document meets value `l` under the same key."""
    kr = kind(r)
    if kr == "scalar":
        # a per-path rule NAMING this scalar: `left` keeps the left value (the only mode that can differ
        # from overriding); document-wide defaults never apply to scalars
        if rpath is not None and cfg.mode_for is not None and cfg.mode_for(rpath, "scalar") == "left":
            _ev(trace, "cell", kind(l), "scalar", "rule-left")
            return l
        _ev(trace, "cell", kind(l), "scalar", "override")
        return r                      # [S][help] right-hand scalars override ([C]: whatever was there)
    if kr == "map":
        mode = cfg.mode(rpath, "hash")
        if kind(l) != "map":
            return _clash(l, r, mode, cfg, trace, "hash-into-" + kind(l), respath)
        _ev(trace, "cell", "map", "map", mode)
        if mode == "left":
            return l                  # [H] "LHS Hashes are not overwritten by RHS Hashes"
        if mode == "right":
            return r                  # [H] "RHS Hashes fully replace LHS Hashes"
        return _merge_maps(l, r, cfg, rpath, respath, trace)
    if kr == "seq":
        return _merge_seqs(l, r, cfg, rpath, respath, trace, "array-into-" + kind(l))
    # set
    if kind(l) != "set":
        return _clash(l, r, cfg.mode(rpath, "set"), cfg, trace, "set-into-" + kind(l), respath)
    return _merge_sets(l, r, cfg, rpath, trace)


# --------------------------------------------------------------------------- documents

def spec_merge(lhs, rhs, cfg=None, trace=None):
    """The document `lhs` after the document `rhs` was merged into it (at the root).

    Raises SpecMergeError where the policies define no result.
    """
    cfg = cfg or SpecConfig()
    if rhs is None:
        # An empty right-hand document carries nothing to merge ([S]-C18 counts empty
        # documents among the inputs; there is no content that could override anything).
        _ev(trace, "cell", kind(lhs), "empty", "-")
        return lhs
    if lhs is None:
        _ev(trace, "cell", "empty", kind(rhs), "-")
        return rhs                    # an empty left document receives the right one
    kl, kr = kind(lhs), kind(rhs)
    root = ()
    if kl == "scalar":
        if kr == "scalar":
            _ev(trace, "cell", "scalar", "scalar", "override")
            return rhs                # [S] right-hand scalars override
        if kr == "seq" and len(rhs) == 0:
            return _merge_seqs(lhs, rhs, cfg, root, root, trace, "array-into-scalar")
        mode = cfg.mode(root, {"map": "hash", "set": "set"}.get(kr) or
                        ("aoh" if kind(rhs[0]) == "map" else "array"))
        return _clash(lhs, rhs, mode, cfg, trace, {"map": "hash", "seq": "array", "set": "set"}[kr] + "-into-scalar")
    if kl == kr:
        return _merge_value(lhs, rhs, cfg, root, root, trace)
    if kr == "map":
        if kl == "seq":
            # from-code ([C] "target seq receives the map as one AoH record (AoH mode)"):
            # the record is the whole right-hand document, so its members have the
            # right-hand paths (key,); the wrapping one-element list has no path.
            _ev(trace, "from-code", "root-hash-into-array")
            return _merge_aoh(lhs, [rhs], cfg, None, root, trace, epath=lambda i: root)
        # kl == "set": [S] "hash into set" is a merge error
        return _clash(lhs, rhs, cfg.mode(root, "hash"), cfg, trace, "hash-into-set")
    if kr == "seq":
        if kl == "map":
            # [S] "array into hash" is a merge error
            return _merge_seqs(lhs, rhs, cfg, root, root, trace, "array-into-map")
        # kl == "set": from-code, the members join the set under the set policy
        _ev(trace, "from-code", "root-array-into-set")
        if any(kind(e) != "scalar" for e in rhs):
            raise SpecMergeError("array-of-containers-into-set")
        members = []
        for e in rhs:
            if not _has(members, e):
                members.append(e)
        return _merge_sets(lhs, SetT(tuple(members)), cfg, root, trace)
    if kr == "set":
        if kl == "seq":
            _ev(trace, "from-code", "root-set-into-array")      # members appended by the array policy
            if len(rhs) == 0:
                return lhs
            return _merge_arrays(lhs, list(rhs), cfg, None, trace)
        # kl == "map": from-code, the members become keys with null values
        _ev(trace, "from-code", "root-set-into-hash")
        return _merge_maps(lhs, {m: None for m in rhs}, cfg, root, root, trace)
    # kr == "scalar" (not null)
    if kl == "map":
        _ev(trace, "cell", "map", "scalar", "clash")
        raise SpecMergeError("scalar-into-map")     # [S] "scalar into hash" is a merge error
    if kl == "seq":
        _ev(trace, "from-code", "root-scalar-into-array")       # appended
        return list(lhs) + [rhs]
    _ev(trace, "from-code", "root-scalar-into-set")             # joins the set under the set policy
    return _merge_sets(lhs, SetT((rhs,)), cfg, root, trace)


def spec_outcomes(lhs, rhs, cfg=None, merge=None):
    """Every outcome the documentation admits: list of (liberties, outcome, trace) with
    outcome = ("ok", document) | ("error", cell, path).  The first entry uses no liberty."""
    cfg = cfg or SpecConfig()
    merge = merge or spec_merge
    res = []
    seen = set()
    consulted = []
    todo = [frozenset()]
    while todo:
        libs = todo.pop(0)
        if libs in seen:
            continue
        seen.add(libs)
        tr = []
        try:
            out = ("ok", merge(lhs, rhs, cfg.with_liberties(libs), tr))
        except SpecMergeError as e:
            out = ("error", e.cell, e.path)
        res.append((libs, out, tr))
        for ev in tr:
            if ev[0] == "liberty" and ev[1] not in consulted:
                consulted.append(ev[1])
        for n in range(1, len(consulted) + 1):
            for sub in itertools.combinations(consulted, n):
                fs = frozenset(sub)
                if fs not in seen and fs not in todo:
                    todo.append(fs)
    return res


# --------------------------------------------------------------------------- merge at a path (C11)

def get_at(doc, path):
    for p in path:
        doc = doc[p]
    return doc


def set_at(doc, path, value):
    """Functional update of plain data (sets are leaves)."""
    if not path:
        return value
    head, rest = path[0], path[1:]
    if doc is None:
        doc = {}                      # a path is created below an empty document / a missing key
    if isinstance(doc, dict):
        out = dict(doc)
        out[head] = set_at(doc.get(head), rest, value)
        return out
    out = list(doc)
    out[head] = set_at(doc[head], rest, value)
    return out


def _relay(trace, sub, t):
    """Events of a merge at target `t`, with result paths re-based on the whole document."""
    if trace is not None:
        for ev in sub:
            trace.append((ev[0], tuple(t) + tuple(ev[1])) + tuple(ev[2:]) if ev[0] == "hash-deep" else ev)


def spec_merge_at(lhs, rhs, cfg, targets, create=None, trace=None):
    """[S]-C11: each node a target path names becomes the policy merge of its old content
    with `rhs`; with no target and a creatable path `create` (a tuple of hash keys below
    existing hashes) the path is created to hold `rhs`; everything else is unchanged.

    targets: list of path tuples into `lhs` (disjoint subtrees).
    """
    if rhs is None:
        return lhs
    if not targets:
        if create is None:
            raise SpecMergeError("mergeat-matches-nothing")
        return set_at(lhs, tuple(create), rhs)
    out = lhs
    for t in targets:
        sub = []
        old = get_at(lhs, t)
        if old is None and len(t) > 0:
            # a null at the target holds nothing: it receives the right-hand document, as
            # an empty document does
            new = rhs
            _ev(sub, "from-code", "null-target-receives-rhs")
        else:
            try:
                new = spec_merge(old, rhs, cfg, sub)
            except SpecMergeError as e:
                _relay(trace, sub, t)
                raise SpecMergeError(e.cell, tuple(t) + e.path)
        _relay(trace, sub, t)
        out = set_at(out, tuple(t), new)
    return out


# --------------------------------------------------------------------------- multi-document modes (C18)

MULTIDOC_MODES = ("condense_all", "merge_across", "matrix_merge")


def spec_multidoc(lhs_docs, rhs_docs, mode, cfg=None, trace=None):
    """[S]-C18 / [M]: the output stream for a left stream (>= 1 document) and a right stream.

    condense_all : fold every document of both streams, in order, into ONE result;
    merge_across : i-th right document into the i-th left document, surplus right
                   documents appended;
    matrix_merge : every right document into every left document.
    Each step is `spec_merge`.  Raises SpecMergeError when a step has no result.
    """
    cfg = cfg or SpecConfig()
    lhs_docs = list(lhs_docs)
    rhs_docs = list(rhs_docs)
    if mode == "condense_all":
        acc = lhs_docs[0]
        for d in lhs_docs[1:] + rhs_docs:
            acc = spec_merge(acc, d, cfg, trace)
        return [acc]
    if mode == "merge_across":
        out = []
        for i in range(max(len(lhs_docs), len(rhs_docs))):
            if i < len(lhs_docs) and i < len(rhs_docs):
                out.append(spec_merge(lhs_docs[i], rhs_docs[i], cfg, trace))
            elif i < len(lhs_docs):
                out.append(lhs_docs[i])
            else:
                out.append(rhs_docs[i])
        return out
    if mode == "matrix_merge":
        out = []
        for l in lhs_docs:
            for r in rhs_docs:
                l = spec_merge(l, r, cfg, trace)
            out.append(l)
        return out
    raise ValueError("unknown multi-document mode %r" % (mode,))


def multidoc_output_count(mode, m, n):
    """[S]-C18: "The number ... of output documents is determined by the mode and the
    stream lengths alone"."""
    if mode == "condense_all":
        return 1
    if mode == "merge_across":
        return max(m, n)
    return m
