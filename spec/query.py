"""C01 oracle: what a YAML Path selects, written from the documentation.

`select(seg, node, parent, ref, traverse_lists=True)` gives the ordered results of
ONE segment on ONE node; `query(segments, root)` is the left fold with flat-map
from `[(root, None, None)]`, rule by rule as in DESIGN.md Appendix A.  Segments are
the tuples of rtc/pathgen.py.  The oracle walks the live ruamel.yaml objects, so
its results can be compared with the real Processor by `is`/`id()` and by order.
It does NOT import yamlpath.processor.  The only library code it calls is the
scalar comparison `Searches.search_matches` (C12 verifies that separately),
isolated in `match()`.

Source of every rule:  **D** = project documentation (README "Supported YAML Path
Segments"); **C** = `from-code`: the documentation is silent and the shape was
read from the code.  Every C rule is commented `# C:` below and leaves a tag
(`FROM_CODE` lists them):

* on each Result it *produced* (`Result.from_code`, inherited by everything
  derived from that result), and
* in `QueryResult.suppressed` when the rule *withheld* something (a rule of the
  form "nothing (C)" cannot tag a result that is not there).

A harness must never raise a witness from a disagreement that is confined to
tagged results / suppressing rules; those are triaged and the oracle is fixed.

`defects` (a set of names from `DEFECT_MODELS`) switches single rules to the
behaviour of a known defect.  They exist only so that a harness can *classify* a
disagreement by root cause ("the failing run is exactly what defect X predicts");
the default (empty) is the documented semantics.
"""
import re

from ruamel.yaml.comments import CommentedSet, TaggedScalar

# tag -> the from-code rule it stands for
FROM_CODE = {
    "key-negative-index": "KEY with a negative integer on a sequence counts from the end",
    "key-no-traverse": "KEY pass-through is disabled when traverse_lists is false",
    "index-on-map": "INDEX on a map selects nothing",
    "index-on-set": "INDEX on a set raises YAMLPathException",
    "slice-same-bounds": "[a:a] on a sequence is a one-element virtual list (content compared only)",
    "slice-non-integer": "non-integer slice bounds on a sequence raise TypeMismatchYAMLPathException",
    "slice-on-set": "SLICE on a set selects the members between the bounds",
    "slice-nontext-key": "hash slicing compares a non-text key by its text",
    "anchor-on-map": "ANCHOR on a map: value whose key, else whose value, carries the anchor",
    "anchor-merge-source": "ANCHOR on a map yields the merged source carrying that anchor first",
    "anchor-on-set": "ANCHOR on a set selects members carrying the anchor",
    "search-attr-on-map-value": "SEARCH attr on a map having that key yields the attribute's value",
    "search-descendant-inverted": "inverted descendant search on a map (no/none matching => the map)",
    "search-on-scalar": "SEARCH on a scalar/null yields the scalar itself when it matches",
    "search-attr-on-set": "SEARCH with a named attribute on a set compares the members",
    "search-no-traverse": "SEARCH on a sequence is disabled when traverse_lists is false",
    "aoh-key-equals-term": "SEARCH on '.' over an Array-of-Hashes also matches elements having a key equal to the term",
    "matchall-filtered-set": "'*' followed by more segments has no set arm",
    "traverse-repeat": "consecutive '**' raises RecursionYAMLPathException",
    "virtual-continuation": "segments applied to a virtual (slice/collector) result treat it as a sequence",
    "collector": "collector semantics beyond 'one virtual list of the inner query'",
    "null-document": "a null document yields nothing and raises nothing",
}

DEFECT_MODELS = ("stale-matches", "traverse-duplicate", "negative-slice-bound")

OPS = ("=", "^", "$", "%", ">", "<", ">=", "<=", "=~")


class SpecRaises(Exception):
    """The oracle expects the library to raise its own exception family here (always a C rule)."""
    def __init__(self, kind, tag):
        Exception.__init__(self, kind)
        self.kind = kind
        self.tag = tag


class SpecUndefined(Exception):
    """Neither the documentation nor Appendix A defines an answer (only 'must not crash')."""


class MatchRaised(SpecUndefined):
    """The library's scalar comparison itself raised (C12/C15 territory): no answer is defined here."""


class SpecUnsupported(Exception):
    """Segment kind outside this oracle (keyword segments are C13's)."""


class DefectModelCrash(Exception):
    """A defect model predicts a non-library exception (e.g. IndexError); raised only with `defects`."""


class Result(object):
    __slots__ = ("node", "parent", "ref", "virtual", "from_code")

    def __init__(self, node, parent, ref, virtual=False, from_code=frozenset()):
        self.node = node
        self.parent = parent
        self.ref = ref
        self.virtual = virtual
        self.from_code = from_code

    def __iter__(self):      # (node, parent, ref, virtual)
        return iter((self.node, self.parent, self.ref, self.virtual))

    def __repr__(self):
        return "Result(%r, ref=%r, virtual=%r, from_code=%s)" % (
            self.node, self.ref, self.virtual, sorted(self.from_code))


class VList(list):
    """Content of a virtual result: the element nodes; `.results[i]` keeps each element's position.

    `wrapped` is False only for the `[a:a]` form (C: the element is not given coordinates of its own).
    """
    def __init__(self, results, wrapped=True):
        list.__init__(self, [r.node for r in results])
        self.results = list(results)
        self.wrapped = wrapped


class QueryResult(list):
    """Ordered Results + `suppressed` (C rules that withheld something) + `trace` (rules used)."""
    suppressed = frozenset()
    trace = frozenset()

    @property
    def from_code(self):
        s = set(self.suppressed)
        for r in self:
            s |= r.from_code
            if r.virtual:
                for e in r.node.results:
                    s |= e.from_code
        return frozenset(s)


class _Ctx(object):
    __slots__ = ("defects", "suppressed", "trace", "pending")

    def __init__(self, defects):
        self.defects = frozenset(defects)
        self.suppressed = set()
        self.trace = set()
        self.pending = None       # first SpecRaises met; raised at the end so that SpecUndefined wins


# ----------------------------------------------------------------------------- helpers

def is_map(n):
    return isinstance(n, dict)


def is_seq(n):
    return isinstance(n, list)


def is_set(n):
    return isinstance(n, (set, frozenset, CommentedSet))


def is_scalar(n):
    return not (is_map(n) or is_seq(n) or is_set(n))


_INT = re.compile(r"^[+-]?[0-9]+$")


def int_literal(text):
    """The integer a path text denotes, or None."""
    if isinstance(text, bool):
        return None
    if isinstance(text, int):
        return text
    t = str(text).strip()
    return int(t) if _INT.match(t) else None


def anchor_name(n):
    a = getattr(n, "anchor", None)
    return getattr(a, "value", None) if a is not None else None


_METHODS = None


def match(op, term, value):
    """C12's comparison `value <op> term` — the ONE place the oracle calls library code."""
    global _METHODS
    from yamlpath.common import Searches
    if _METHODS is None:
        from yamlpath.enums import PathSearchMethods as M
        _METHODS = {"=": M.EQUALS, "^": M.STARTS_WITH, "$": M.ENDS_WITH, "%": M.CONTAINS,
                    ">": M.GREATER_THAN, "<": M.LESS_THAN, ">=": M.GREATER_THAN_OR_EQUAL,
                    "<=": M.LESS_THAN_OR_EQUAL, "=~": M.REGEX}
    try:
        return bool(Searches.search_matches(_METHODS[op], str(term), value))
    except Exception as ex:          # e.g. re.error for an invalid expression
        raise MatchRaised("%s(%s)" % (type(ex).__name__, ex))


_PLAIN_PART = re.compile(r"^[A-Za-z0-9_]+$")


def attr_segments(attr):
    """The attribute of a search as a path (D: 'descendant node searches': has.descendant.with)."""
    a = str(attr)
    if a.startswith("/"):
        parts = a[1:].split("/")
    else:
        parts = a.split(".")
    if all(_PLAIN_PART.match(p) for p in parts):
        return [("key", p) for p in parts]
    if "/" not in a and "[" not in a and "(" not in a and "*" not in a and "&" not in a:
        return [("key", p) for p in parts if p != ""]
    raise SpecUnsupported("search attribute %r" % (attr,))


def glob_to_search(text):
    """D: `t*` = starts-with, `*t` = ends-with, `a*b[*c]` = the anchored regular expression."""
    t = str(text)
    parts = t.split("*")
    if len(parts) == 2 and parts[1] == "" and parts[0] != "":
        return ("search", False, ".", "^", parts[0])
    if len(parts) == 2 and parts[0] == "" and parts[1] != "":
        return ("search", False, ".", "$", parts[1])
    if len(parts) >= 2 and parts[0] != "" and parts[-1] != "":
        return ("search", False, ".", "=~", "^" + ".*".join(parts) + "$")
    raise SpecUnsupported("glob %r" % (text,))


def _children(node):
    """(child, ref) of a container in document order; parent is `node`."""
    if is_map(node):
        return [(v, k) for k, v in node.items()]
    if is_seq(node):
        return [(e, i) for i, e in enumerate(node)]
    if is_set(node):
        return [(m, m) for m in node]
    return []


def _elem_result(seq, i, base_tags):
    """Result for element i of a sequence (for a virtual list: the element's own position)."""
    if isinstance(seq, VList):
        e = seq.results[i]
        return Result(e.node, e.parent, e.ref, False, base_tags | e.from_code | _VC)
    return Result(seq[i], seq, i, False, base_tags)


_VC = frozenset(["virtual-continuation"])
_NONE = frozenset()


# ----------------------------------------------------------------------------- one segment on one node

def _select(segs, i, r, tl, ctx):
    """Results of segment i on the node of Result `r` (looks ahead only for `*`/`**`)."""
    seg = segs[i]
    kind = seg[0]
    node = r.node
    base = r.from_code | (_VC if isinstance(node, VList) else _NONE)
    ctx.trace.add(kind)

    if kind == "glob":
        seg = glob_to_search(seg[1])
        kind = "search"

    if kind == "key":
        return _key(seg[1], r, tl, ctx, base)
    if kind == "idx":
        return _index(seg[1], r, ctx, base)
    if kind == "slice":
        return _slice(seg[1], seg[2], r, ctx, base)
    if kind == "anchor":
        return _anchor(seg[1], r, ctx, base)
    if kind == "search":
        return _search(seg, r, tl, ctx, base)
    if kind == "all":
        return _match_all(segs, i, r, ctx, base)
    if kind == "trav":
        return _traverse(segs, i, r, ctx, base)
    if kind == "coll":
        return _collector(segs, i, r, ctx, base)
    if kind == "kw":
        raise SpecUnsupported("keyword segments are C13's")
    raise ValueError("unknown segment %r" % (seg,))


def _key(k, r, tl, ctx, base):
    node = r.node
    text = str(k)
    if is_map(node):
        # D: "Top-level Hash key selection"; "numbered hash key selection: exact name of a hash
        #    key which is itself a number" -> string key first, then the int key.
        if text in node:
            ctx.trace.add("key/map-str")
            return [Result(node[text], node, text, False, base)]
        n = int_literal(text)
        if n is not None and n in node:
            ctx.trace.add("key/map-int")
            return [Result(node[n], node, n, False, base)]
        return []
    if is_seq(node):
        n = int_literal(text)
        if n is not None:
            # D: "Implicit array element selection: # is the 0-based element number"
            if 0 <= n < len(node):
                ctx.trace.add("key/seq-index")
                return [_elem_result(node, n, base)]
            if -len(node) <= n < 0:
                # C: negative bare index counts from the end
                ctx.trace.add("key/seq-neg-index")
                return [_elem_result(node, n + len(node), base | frozenset(["key-negative-index"]))]
            return []
        if not tl:
            # C: pass-through is disabled when the caller forbids list traversal ('**' probe)
            if _key(k, r, True, _Ctx(()), base):
                ctx.suppressed.add("key-no-traverse")     # (only when it withheld something)
            return []
        # D: "Array-of-Hashes Pass-Through Selection": the same KEY applied to every element, in order
        ctx.trace.add("key/pass-through")
        out = []
        for idx in range(len(node)):
            out.extend(_key(k, _elem_result(node, idx, base), tl, ctx,
                            base | (_VC if isinstance(node, VList) else _NONE)))
        return out
    if is_set(node):
        # D: "Unordered Set value accessing": the member equal to the key text, once
        for m in node:
            mv = m.value if isinstance(m, TaggedScalar) else m
            if mv == text:
                ctx.trace.add("key/set")
                return [Result(m, node, m, False, base)]
        return []
    return []


def _index(i, r, ctx, base):
    node = r.node
    n = int_literal(i)
    if n is None:
        raise SpecRaises("TypeMismatchYAMLPathException", "slice-non-integer")   # C
    if is_seq(node):
        # D: "[#] ... can also be negative, causing the element to be selected from the end"
        if -len(node) <= n < len(node):
            ctx.trace.add("idx/seq")
            return [_elem_result(node, n % len(node), base)]
        return []
    if is_set(node):
        # C: indexing a set is refused with a YAMLPathException
        raise SpecRaises("YAMLPathException", "index-on-set")
    if is_map(node):
        # C: INDEX on a map selects nothing (not even a key of that number)
        if n in node or str(n) in node:
            ctx.suppressed.add("index-on-map")
        return []
    return []


def _slice(lo, hi, r, ctx, base):
    node = r.node
    if isinstance(node, VList):
        raise SpecUndefined("slice of a virtual (slice/collector) result")
    if is_seq(node):
        a, b = int_literal(lo), int_literal(hi)
        if a is None or b is None:
            # C: "is not an integer array slice"
            raise SpecRaises("TypeMismatchYAMLPathException", "slice-non-integer")
        n = len(node)
        if "negative-slice-bound" in ctx.defects:
            # defect model: the bounds are used as raw range() limits and raw subscripts
            try:
                if a == b and n > a:
                    idxs = [a]
                    node[a]
                else:
                    idxs = list(range(a, b))
                    for j in idxs:
                        node[j]
            except IndexError:
                raise DefectModelCrash("IndexError")
            idxs = [j % n for j in idxs]
        elif a == b:
            # D: "when start# and stop# are identical, it is the same as array[start#]";
            # C: delivered as a one-element virtual list, compared on content only
            idxs = [a % n] if -n <= a < n else []
            base = base | frozenset(["slice-same-bounds"])
        else:
            # D: "start# is the first inclusive ... stop# is the last exclusive element; either or
            #    both can be negative, causing the elements to be selected from the end"
            idxs = list(range(n))[a:b]
        ctx.trace.add("slice/seq")
        elems = [_elem_result(node, j, base) for j in idxs]
        return [Result(VList(elems, wrapped=(a != b)), node, a, True, base)]
    if is_map(node):
        # D: "Hash slicing: hash[min:max] ... alphanumeric terms between which the Hash's keys are compared"
        # C: a key that is not text is compared by its text (the documentation only demands "no crash")
        lo_t, hi_t = str(lo), str(hi)
        ctx.trace.add("slice/map")
        out = []
        for k, v in node.items():
            if isinstance(k, str):
                if lo_t <= k <= hi_t:
                    out.append(Result(v, node, k, False, base))
            elif lo_t <= str(k) <= hi_t:
                out.append(Result(v, node, k, False, base | frozenset(["slice-nontext-key"])))
            else:
                ctx.suppressed.add("slice-nontext-key")
        return out
    if is_set(node):
        # C: members between the bounds
        lo_t, hi_t = str(lo), str(hi)
        ctx.trace.add("slice/set")
        tags = base | frozenset(["slice-on-set"])
        return [Result(m, node, m, False, tags) for m in node if lo_t <= str(m) <= hi_t]
    return []


def _anchor(name, r, ctx, base):
    node = r.node
    name = str(name)
    if is_seq(node):
        # D: "Anchor lookups in named Arrays: array[&anchor_name]": every element carrying it
        ctx.trace.add("anchor/seq")
        return [_elem_result(node, i, base) for i, e in enumerate(node) if anchor_name(e) == name]
    if is_map(node):
        # C: (README only says "Top-level (Hash) Anchor lookups: &anchor_name")
        out = []
        tags = base | frozenset(["anchor-on-map"])
        merged = getattr(node, "merge", None)
        if merged:
            # C: a merge-key source carrying that anchor comes first, once
            for mt in merged:
                src = mt[1]
                if anchor_name(src) == name:
                    out.append(Result(src, node, name, False, tags | frozenset(["anchor-merge-source"])))
                    break
        for k, v in node.items():
            if anchor_name(k) == name or anchor_name(v) == name:
                out.append(Result(v, node, k, False, tags))
        ctx.trace.add("anchor/map")
        return out
    if is_set(node):
        # C: members carrying the anchor
        tags = base | frozenset(["anchor-on-set"])
        return [Result(m, node, m, False, tags) for m in node if anchor_name(m) == name]
    return []


def _xor(m, inv):
    return bool(m) != bool(inv)


def _is_aoh(seq):
    # C: "Array-of-Hashes" as the search handler understands it: only hashes and nulls
    if isinstance(seq, VList) and seq.wrapped:
        return False
    return all(e is None or is_map(e) for e in seq)


def _search(seg, r, tl, ctx, base):
    _, inv, attr, op, term = seg
    node = r.node
    term = str(term)
    if is_seq(node):
        if not tl:
            # C: a search never descends into a list when traversal is forbidden ('**' probe)
            if _search(seg, r, True, _Ctx(()), base):
                ctx.suppressed.add("search-no-traverse")  # (only when it withheld something)
            return []
        out = []
        if attr == ".":
            # D: "Array element searches ... via . (yields any matching elements)"
            ctx.trace.add("search/seq-dot")
            aoh = _is_aoh(node)
            for i, e in enumerate(node):
                m = match(op, term, e)
                tags = base
                if aoh and is_map(e) and term in e and not m:
                    # C (from-code, never asserted): an element of an Array-of-Hashes that has a
                    # key equal to the term also counts as matching
                    m = True
                    if inv:
                        ctx.suppressed.add("aoh-key-equals-term")
                    tags = base | frozenset(["aoh-key-equals-term"])
                if _xor(m, inv):
                    out.append(_elem_result(node, i, tags))
            return out
        # D: "Hash attribute searches" over an Array-of-Hashes: each element whose attribute (or
        #    first descendant at that sub-path) satisfies the comparison; an element that has
        #    neither does not match.
        ctx.trace.add("search/seq-attr")
        stale = "stale-matches" in ctx.defects
        m = False
        for i, e in enumerate(node):
            if is_map(e) and attr in e:
                m = match(op, term, e[attr])
            else:
                first = _first_descendant(attr, _elem_result(node, i, base), ctx)
                if first is not None:
                    m = match(op, term, first.node)
                elif not stale:
                    m = False
                # defect model "stale-matches": `m` keeps the previous element's answer
            if _xor(m, inv):
                out.append(_elem_result(node, i, base))
        return out
    if is_map(node):
        if attr == ".":
            # D: "Hash key-name searches ... via . (yields their values, not the keys themselves)"
            ctx.trace.add("search/map-dot")
            return [Result(v, node, k, False, base) for k, v in node.items()
                    if _xor(match(op, term, k), inv)]
        if attr in node:
            # C: the attribute's own value is the result
            ctx.trace.add("search/map-attr")
            v = node[attr]
            if _xor(match(op, term, v), inv):
                return [Result(v, node, attr, False, base | frozenset(["search-attr-on-map-value"]))]
            return []
        # D: "Descendent node searches": the map itself when some descendant at that sub-path matches
        ctx.trace.add("search/map-desc")
        desc = _eval(attr_segments(attr), 0, [Result(node, r.parent, r.ref, False, base)], ctx)
        hit = any(_xor(match(op, term, d.node), inv) for d in desc)
        if hit:
            tags = base | (frozenset(["search-descendant-inverted"]) if inv else _NONE)
            return [Result(node, r.parent, r.ref, False, tags)]
        if not desc and inv:
            # C: an inverted descendant search with no such descendant yields the map
            return [Result(node, r.parent, r.ref, False, base | frozenset(["search-descendant-inverted"]))]
        return []
    if is_set(node):
        # D for '.': "Unordered Set value ... searching with all above search methods";
        # C for a named attribute: the attribute is ignored, members are compared
        ctx.trace.add("search/set")
        tags = base if attr == "." else base | frozenset(["search-attr-on-set"])
        return [Result(m, node, m, False, tags) for m in node if _xor(match(op, term, m), inv)]
    # C: a scalar (or null) is compared itself and yielded in place
    ctx.trace.add("search/scalar")
    if _xor(match(op, term, node), inv):
        return [Result(node, r.parent, r.ref, False, base | frozenset(["search-on-scalar"]))]
    return []


def _probe(segs, i, r, tl, ctx):
    """_select, but an expected library exception is remembered (raised at the end of the query)."""
    try:
        return _select(segs, i, r, tl, ctx)
    except SpecRaises as sr:
        if ctx.pending is None:
            ctx.pending = sr
        return []


def _first_descendant(attr, r, ctx):
    res = _eval(attr_segments(attr), 0, [r], ctx)
    return res[0] if res else None


def _match_all(segs, i, r, ctx, base):
    node = r.node
    last = i + 1 >= len(segs)
    if last:
        # D: "it also returns every immediate child, regardless its key or value"; scalars have none
        ctx.trace.add("all/last")
        if is_seq(node):
            return [_elem_result(node, j, base) for j in range(len(node))]
        return [Result(c, node, ref, False, base) for c, ref in _children(node)]
    # D: '*' then rest = flat-map of rest over the children.  The children for which the NEXT
    # segment selects nothing contribute nothing, so withholding them (as the implementation's
    # pre-filter does) cannot change the answer; it is modelled because '**' counts these matches.
    ctx.trace.add("all/filtered")
    if is_set(node):
        # C: the filtered form has no set arm
        if len(node):
            ctx.suppressed.add("matchall-filtered-set")
        return []
    out = []
    if is_seq(node):
        kids = [_elem_result(node, j, base) for j in range(len(node))]
    else:
        kids = [Result(c, node, ref, False, base) for c, ref in _children(node)]
    for kid in kids:
        if _probe(segs, i + 1, kid, True, ctx):
            out.append(kid)
    return out


def _leaves(r, base, ctx, out):
    node = r.node
    if is_map(node):
        for v, k in _children(node):
            _leaves(Result(v, node, k, False, base), base, ctx, out)
    elif is_seq(node):
        if isinstance(node, VList) and node.wrapped:
            # C: the elements of a virtual list are not descended into
            out.extend(_elem_result(node, j, base) for j in range(len(node)))
        else:
            for j in range(len(node)):
                _leaves(_elem_result(node, j, base), base, ctx, out)
    elif is_set(node):
        out.extend(Result(m, node, m, False, base) for m in node)     # D: members are leaves
    else:
        out.append(Result(node, r.parent, r.ref, False, base))        # D: scalar or null leaf


def _traverse(segs, i, r, ctx, base):
    if i > 0 and segs[i - 1][0] == "trav":
        # C: "Repeating traversals are not allowed"
        raise SpecRaises("RecursionYAMLPathException", "traverse-repeat")
    if i + 1 >= len(segs):
        # D: "When it is the last or only segment, it selects every leaf node from the remainder
        #    of the document's tree"
        ctx.trace.add("trav/last")
        out = []
        _leaves(r, base, ctx, out)
        return out
    # D: "When another segment follows, it matches every node within the remainder of the
    #    document's tree for which the following (and subsequent) segments match": every node of
    #    the subtree in pre-order, ONCE, when the next segment selects something from it directly.
    ctx.trace.add("trav/filtered")
    dup = "traverse-duplicate" in ctx.defects
    out = []

    def walk(cur):
        hits = _probe(segs, i + 1, cur, False, ctx)
        if hits:
            # defect model "traverse-duplicate": once per match of the next segment
            out.extend([cur] * (len(hits) if dup else 1))
        n = cur.node
        if is_map(n):
            for v, k in _children(n):
                walk(Result(v, n, k, False, cur.from_code))
        elif is_seq(n):
            wrapped = isinstance(n, VList) and n.wrapped
            for j in range(len(n)):
                e = _elem_result(n, j, cur.from_code)
                if wrapped:
                    # C: elements of a virtual list are probed but not descended into
                    hits_e = _probe(segs, i + 1, e, False, ctx)
                    if hits_e:
                        out.extend([e] * (len(hits_e) if dup else 1))
                else:
                    walk(e)
        # D/C: no descent into sets (members are scalars)

    walk(Result(r.node, r.parent, r.ref, False, base))
    return out


# ----------------------------------------------------------------------------- collectors (C13/C15 helpers)

def _plain_eq_in(value, pool):
    for p in pool:
        try:
            if value == p:
                return True
        except Exception:      # comparison of exotic nodes
            pass
    return False


def collector_span(segs, i):
    """Number of adjacent collector segments combined with the one at i."""
    n = 1
    while i + n < len(segs) and segs[i + n][0] == "coll" and segs[i + n][1] != "":
        n += 1
    return n


def _expand(results):
    out = []
    for x in results:
        if x.virtual:
            out.extend(x.node.results)
        elif is_seq(x.node):
            out.extend(_elem_result(x.node, j, x.from_code) for j in range(len(x.node)))
        else:
            out.append(x)
    return out


def _collector(segs, i, r, ctx, base):
    """D: "(YAML Path) defines a virtual list collector; concatenation, exclusion, and intersection
    operators are supported -- +, -, and &"; everything finer is C (tag `collector`)."""
    tags = base | frozenset(["collector"])
    _, op, inner = segs[i]
    here = Result(r.node, r.parent, r.ref, False, tags)
    if op != "":
        # C: an operator collector that is not adjacent to a plain one passes its input through
        return [here]
    ctx.trace.add("coll")
    acc = _eval(list(inner), 0, [here], ctx)
    if len(acc) == 1 and (acc[0].virtual or is_seq(acc[0].node)):
        acc = _expand(acc)                       # C: [[value]] is unwrapped to [value]
    for k in range(1, collector_span(segs, i)):
        _, op2, inner2 = segs[i + k]
        rhs = _eval(list(inner2), 0, [here], ctx)
        if op2 == "+":
            acc = acc + _expand(rhs)
        elif op2 == "-":
            pool = []
            for x in rhs:
                if x.virtual or is_seq(x.node) or is_set(x.node):
                    pool.extend(list(x.node))
                elif is_map(x.parent):
                    pool.append({x.ref: x.node})
                else:
                    pool.append(x.node)
            acc = [x for x in acc if not _plain_eq_in(x.node, pool)]
        elif op2 == "&":
            pool = []
            for x in rhs:
                if x.virtual or is_seq(x.node) or isinstance(x.node, set):
                    pool.extend(list(x.node))
                else:
                    pool.append(x.node)
            acc = [x for x in acc if _plain_eq_in(x.node, pool)]
        else:
            raise SpecRaises("YAMLPathException", "collector")
    if not acc:
        return []
    return [Result(VList(acc), r.node, None, True, tags)]


# ----------------------------------------------------------------------------- the fold

def _eval(segs, i, results, ctx):
    while i < len(segs) and results:
        step = collector_span(segs, i) if segs[i][0] == "coll" and segs[i][1] == "" else 1
        nxt = []
        for r in results:
            nxt.extend(_probe(segs, i, r, True, ctx))
        results = nxt
        i += step
    return results


def select(seg, node, parent=None, ref=None, traverse_lists=True, defects=()):
    """Ordered Results of ONE segment on ONE node (`*`/`**` as the last segment)."""
    ctx = _Ctx(defects)
    out = QueryResult(_probe([seg], 0, Result(node, parent, ref), traverse_lists, ctx))
    if ctx.pending is not None:
        raise ctx.pending
    out.suppressed = frozenset(ctx.suppressed)
    out.trace = frozenset(ctx.trace)
    return out


def query(segments, root, defects=()):
    """Left fold with flat-map from [(root, None, None)] -> QueryResult of Result(node, parent, ref, virtual)."""
    ctx = _Ctx(defects)
    segs = [tuple(s) if not isinstance(s, tuple) else s for s in segments]
    if root is None:
        # C: a null document yields nothing (and the library raises nothing for it)
        out = QueryResult()
        out.suppressed = frozenset(["null-document"])
        return out
    out = QueryResult(_eval(segs, 0, [Result(root, None, None)], ctx))
    if ctx.pending is not None:
        raise ctx.pending
    out.suppressed = frozenset(ctx.suppressed)
    out.trace = frozenset(ctx.trace)
    return out
