"""Oracle of the nine search operators (property C12), written from the statement.

    spec_search_matches(method_name, needle, haystack) -> bool

`method_name` is the NAME of a yamlpath.enums.PathSearchMethods member
("EQUALS", "STARTS_WITH", "ENDS_WITH", "CONTAINS", "GREATER_THAN", "LESS_THAN",
"GREATER_THAN_OR_EQUAL", "LESS_THAN_OR_EQUAL", "REGEX").  The test is always
"haystack OP needle" (README: `hash[access_level>0]`).

Numeric rules look at the values the operands stand for (`typed`); every textual
rule (prefix/suffix/substring, regular expression, textual equality, lexicographic
order) acts on the value's own text `str(haystack)`.

Pre-condition (the statement's "well-formed term"): `needle` is a `str`; for the
five order/equality methods it may also be any scalar (the keyword scans pass
document values); for REGEX it is a valid pattern.

This module must not import yamlpath.  It is also read by the prover: the body
of `spec_search_matches` is straight-line if/elif code over its three arguments
and the helper `typed`.
"""
import re
from ast import literal_eval

METHOD_NAMES = (
    "EQUALS", "STARTS_WITH", "ENDS_WITH", "CONTAINS",
    "GREATER_THAN", "LESS_THAN", "GREATER_THAN_OR_EQUAL", "LESS_THAN_OR_EQUAL",
    "REGEX",
)


def typed(x):
    """The value a scalar stands for.

    A `str` that spells a literal int / float / bool (true/false in any case) /
    None is that value; everything else (other text, values that are not `str`)
    is itself.  Never raises.
    """
    if not isinstance(x, str):
        return x
    low = x.lower()
    if low == "true":
        return True
    if low == "false":
        return False
    try:
        value = literal_eval(x)
    except Exception:  # not a literal at all: plain text
        return x
    if value is None or isinstance(value, (bool, int, float)):
        return value
    return x            # spells some other literal (list, quoted str, ...): plain text


def is_number(v):
    """bool counts as an int, as Python does."""
    return isinstance(v, (int, float))


def spec_search_matches(method_name, needle, haystack):
    th = typed(haystack)
    tn = typed(needle)
    # the value's own text: textual rules never see the typed value (a boolean VALUE reads True / False,
    # also when ruamel wraps an anchored boolean in its int subclass)
    text = str(th) if (isinstance(th, bool) and not isinstance(haystack, str)) else str(haystack)
    if method_name == "EQUALS":
        if isinstance(th, bool) and isinstance(tn, bool):
            return th == tn
        elif isinstance(th, int) and isinstance(tn, int) and not isinstance(tn, bool):
            return th == tn
        elif isinstance(th, float) and isinstance(tn, float):
            return th == tn
        else:
            return text == str(needle)
    elif method_name == "STARTS_WITH":
        return text.startswith(needle)
    elif method_name == "ENDS_WITH":
        return text.endswith(needle)
    elif method_name == "CONTAINS":
        return needle in text
    elif method_name == "GREATER_THAN":
        if is_number(th):
            if is_number(tn):
                return th > tn
            else:
                return False
        else:
            return text > str(needle)
    elif method_name == "LESS_THAN":
        if is_number(th):
            if is_number(tn):
                return th < tn
            else:
                return False
        else:
            return text < str(needle)
    elif method_name == "GREATER_THAN_OR_EQUAL":
        if is_number(th):
            if is_number(tn):
                return th >= tn
            else:
                return False
        else:
            return text >= str(needle)
    elif method_name == "LESS_THAN_OR_EQUAL":
        if is_number(th):
            if is_number(tn):
                return th <= tn
            else:
                return False
        else:
            return text <= str(needle)
    elif method_name == "REGEX":
        return re.search(needle, text) is not None
    else:
        raise ValueError("unknown search method %r" % (method_name,))
