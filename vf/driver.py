#!/usr/bin/env python3
"""./check <Cxx> [--tier quick|thorough] [--replay FILE]

Decides one property on /repo's CURRENT working tree:
  1. deductive core: pyvc generates the verification conditions of every contract tagged with the
     property from the real source and discharges them (z3; cvc5 takes z3's unknowns);
  2. bounded stand-in: rtc/cNN.py checks the same property on the real functions over an enumerated
     input space (labelled bounded, never counted as proved);
  3. every failed obligation is replayed natively; every violation is matched against
     known_findings.jsonl (listed -> KNOWN-FINDING line, exit 0; unlisted -> VIOLATION line, exit 1).
Exit: 0 held on everything explored / 1 violation / 3 the machinery itself failed (never a verdict).
Runs under python3-vt (z3); executes yamlpath only in /venv/bin/python subprocesses.
"""
import argparse
import json
import os
import subprocess
import sys
import time
import traceback

VERIF = os.path.dirname(os.path.dirname(os.path.abspath(__file__)))
sys.path.insert(0, VERIF)
VENV_PY = os.environ.get("VERIF_REPO_PYTHON", "/venv/bin/python")
# VERIF_REPO / VERIF_OUT: evaluate another checkout of the library (seeded-change evaluation on scratch worktrees,
# several at a time) without touching /repo, out/ and evidence/; the registered commands never set them
REPO = os.environ.get("VERIF_REPO", "/repo")
os.environ["PYVC_REPO"] = REPO
OUT = os.environ.get("VERIF_OUT") or os.path.join(VERIF, "out")
EVID = os.path.join(OUT, "evidence") if os.environ.get("VERIF_OUT") else os.path.join(VERIF, "evidence")


def load_manifest_claim(prop):
    try:
        with open(os.path.join(VERIF, "MANIFEST.json")) as fh:
            m = json.load(fh)
        for c in m.get("checks", []):
            if c["property_id"] == prop:
                return c
    except (OSError, ValueError):
        pass
    return None


def load_known():
    known, fixed = [], []
    p = os.path.join(VERIF, "known_findings.jsonl")
    if os.path.exists(p):
        with open(p) as fh:
            for line in fh:
                line = line.strip()
                if not line:
                    continue
                e = json.loads(line)
                (fixed if e.get("entry") == "fixed" else known).append(e)
    return known, fixed


def git_head(path):
    try:
        return subprocess.run(["git", "-C", path, "rev-parse", "--short", "HEAD"], capture_output=True, text=True).stdout.strip()
    except OSError:
        return "?"


def run_pyvc(prop, tier, jobs):
    from pyvc import run as pr
    timeout_ms = 10000 if tier == "quick" else 30000
    rep = pr.run(prop=prop, jobs=jobs, timeout_ms=timeout_ms)
    return rep


def run_rtc(prop, tier, seed, jobs):
    mod = "rtc.c%s" % prop[1:]
    if not os.path.exists(os.path.join(VERIF, "rtc", "c%s.py" % prop[1:])):
        return None
    os.makedirs(OUT, exist_ok=True)
    outp = os.path.join(OUT, "rtc_%s_%s.json" % (prop, tier))
    if os.path.exists(outp):
        os.remove(outp)
    env = dict(os.environ)
    env["PYTHONPATH"] = VERIF if REPO == "/repo" else VERIF + os.pathsep + REPO
    env["PYTHONDONTWRITEBYTECODE"] = "1"
    cmd = [VENV_PY, os.path.join(VERIF, "vf", "rtc_run.py"), mod, tier, str(seed), str(jobs), outp]
    t0 = time.time()
    p = subprocess.run(cmd, cwd=VERIF, env=env, capture_output=True, text=True)
    if p.returncode != 0 or not os.path.exists(outp):
        raise RuntimeError("rtc harness %s failed (exit %s):\n%s\n%s" % (mod, p.returncode, p.stdout[-3000:], p.stderr[-6000:]))
    with open(outp) as fh:
        res = json.load(fh)
    res["wall_s"] = round(time.time() - t0, 2)
    return res


def native_replay(prop, payload):
    """Ask the repo interpreter to replay a counter-model / witness input.  -> dict or None."""
    os.makedirs(OUT, exist_ok=True)
    env = dict(os.environ)
    env["PYTHONPATH"] = VERIF if REPO == "/repo" else VERIF + os.pathsep + REPO
    env["PYTHONDONTWRITEBYTECODE"] = "1"
    p = subprocess.run([VENV_PY, os.path.join(VERIF, "vf", "replay.py"), prop], input=json.dumps(payload),
                       cwd=VERIF, env=env, capture_output=True, text=True, timeout=600)
    if p.returncode != 0:
        return {"error": "replay helper failed: " + p.stderr[-2000:]}
    try:
        return json.loads(p.stdout.strip().splitlines()[-1])
    except (ValueError, IndexError):
        return {"error": "replay helper printed no JSON: " + p.stdout[-500:]}


def obligation_key(o):
    return "%s|%s|%s|%s" % (o["func"], o["kind"], o["text"], o.get("clause") or "")


def match_known(known, prop, kind, key):
    for e in known:
        if e.get("property") != prop:
            continue
        m = e.get("match", {})
        if m.get("kind") != kind:
            continue
        if m.get("key") == key or key in (m.get("keys") or ()) or (m.get("key_prefix") and key.startswith(m["key_prefix"])):
            return e
    return None


def clear_replays(prop):
    d = os.path.join(OUT, "replay", prop)
    if os.path.isdir(d):
        for f in os.listdir(d):
            try:
                os.remove(os.path.join(d, f))
            except OSError:
                pass


def write_replay(prop, name, content):
    d = os.path.join(OUT, "replay", prop)
    os.makedirs(d, exist_ok=True)
    safe = "".join(ch if ch.isalnum() or ch in "-_." else "_" for ch in name)[:120]
    p = os.path.join(d, safe + ".json")
    with open(p, "w") as fh:
        json.dump(content, fh, indent=1, default=str)
    return os.path.relpath(p, VERIF)


def do_replay_file(path):
    with open(path) as fh:
        c = json.load(fh)
    prop = c["property"]
    payload = c.get("replay_payload")
    if payload is None:
        print("replay file carries no native input (obligation %s); solver output:\n%s" % (c.get("obligation_key"), json.dumps(c.get("model"), indent=1)))
        return 1
    r = native_replay(prop, payload)
    print(json.dumps(r, indent=1))
    if r and r.get("reproduced"):
        print("VIOLATION property=%s replay=%s" % (prop, path))
        return 1
    print("not reproduced on the current tree")
    return 0


def main():
    ap = argparse.ArgumentParser()
    ap.add_argument("prop")
    ap.add_argument("--tier", default=os.environ.get("VERIF_TIER", "quick"), choices=["quick", "thorough"])
    ap.add_argument("--replay")
    ap.add_argument("--jobs", type=int, default=int(os.environ.get("VERIF_JOBS", "0")) or os.cpu_count() or 4)
    ap.add_argument("--no-rtc", action="store_true")
    ap.add_argument("--no-pyvc", action="store_true")
    a = ap.parse_args()
    if a.replay:
        sys.exit(do_replay_file(a.replay))
    prop = a.prop
    seed = int(os.environ.get("VERIF_SEED", "0") or 0)
    t0 = time.time()
    claim = load_manifest_claim(prop) or {}
    claimed_level = (claim.get("level_claimed") or {}).get("category", "other")
    known, fixed = load_known()
    clear_replays(prop)
    violations = []      # (line, replay path)
    known_lines = []
    notes = []
    # ---------------------------------------------------------------- deductive core
    pv = None
    tot = dis = sat = und = 0
    funcs = []
    failed_obls = []
    assumptions = set()
    samples = []
    solver_time = 0.0
    backends = {}
    if not a.no_pyvc:
        pv = run_pyvc(prop, a.tier, a.jobs)
        for r in pv["results"]:
            if r.get("error"):
                print("pyvc engine error in %s:\n%s" % (r["function"], r["error"]), file=sys.stderr)
                sys.exit(3)
            n = len(r["obligations"])
            d = sum(1 for o in r["obligations"] if o["status"] == "unsat")
            s_ = [o for o in r["obligations"] if o["status"] == "sat"]
            u = n - d - len(s_)
            tot, dis, sat, und = tot + n, dis + d, sat + len(s_), und + u
            solver_time += r.get("solver_time_s", 0)
            status = "proved" if (d == n and not r["unsupported"] and n > 0) else ("refuted" if s_ else "partial")
            funcs.append({"function": r["function"], "contract": r["contract"], "status": status, "paths": r["paths"],
                          "obligations": n, "discharged": d, "sat": len(s_), "undecided": u,
                          "outside_subset": ["%s:%s %s" % (x[0].split(".")[-1], x[1], x[2]) for x in r["unsupported"]][:12],
                          "mode": r.get("mode"), "time_s": r["time_s"], "notes": r.get("notes", [])})
            for o in r["obligations"]:
                if o["status"] == "unsat":
                    backends[o.get("solver") or "z3"] = backends.get(o.get("solver") or "z3", 0) + 1
            for o in s_:
                failed_obls.append(o)
            for x in r["assumptions"]:
                assumptions.add(x)
            for o in r["obligations"][:2]:
                if len(samples) < 6:
                    samples.append({"obligation": "%s %s @%s `%s`: %s" % (o["kind"], o["func"].split(".")[-1], o["line"], o["text"][:70], o["desc"][:100]), "status": o["status"], "solver": o["solver"]})
        for ac in pv["assumed_contracts"]:
            assumptions.add("assumed contract (not verified against a body): %s — %s" % (ac["function"], ac["notes"]))
        if pv["results"] and tot == 0:
            print("pyvc produced zero obligations for %s: engine error" % prop, file=sys.stderr)
            sys.exit(3)
        vac = [o for r in pv["results"] for o in r["obligations"] if o["status"] == "vacuous"]
        if vac:
            print("vacuous contract (unsatisfiable pre-condition or no reachable exit): %s" % [obligation_key(o) for o in vac], file=sys.stderr)
            sys.exit(3)
    # ---------------------------------------------------------------- bounded stand-in
    rt = None
    if not a.no_rtc:
        rt = run_rtc(prop, a.tier, seed, a.jobs)
    # ---------------------------------------------------------------- verdicts: failed obligations
    seen_keys = set()
    for o in failed_obls:
        key = obligation_key(o)
        if key in seen_keys:
            continue
        seen_keys.add(key)
        payload = {"mode": "obligation", "obligation": o}
        rep = native_replay(prop, payload)
        reproduced = bool(rep and rep.get("reproduced"))
        # a witness found by the bounded harness at the same source line also counts as the replay
        content = {"property": prop, "obligation_key": key, "obligation": o, "model": o.get("model"),
                   "solver": o.get("solver"), "native_replay": rep,
                   "replay_payload": (rep or {}).get("payload") if reproduced else None,
                   "repo_head": git_head(REPO), "how": "./check %s --replay <this file>" % prop}
        path = write_replay(prop, "obl_" + key, content)
        k = match_known(known, prop, "obligation", key)
        if k is not None:
            known_lines.append("KNOWN-FINDING: property=%s %s" % (prop, k.get("what", key)))
            continue
        line = "VIOLATION property=%s replay=%s" % (prop, path)
        if not reproduced:
            line += " no-failing-input-found"
        violations.append(line)
    # ---------------------------------------------------------------- verdicts: bounded witnesses
    if rt is not None:
        for w in rt.get("witnesses", []):
            key = w["key"]
            k = match_known(known, prop, "rtc", key)
            content = {"property": prop, "witness_key": key, "what": w.get("what"), "inputs": w.get("inputs"),
                       "observed": w.get("observed"), "expected": w.get("expected"), "count": w.get("count"),
                       "replay_payload": {"mode": "rtc", "input": (w.get("inputs") or [None])[0]},
                       "repo_head": git_head(REPO), "how": "./check %s --replay <this file>" % prop}
            path = write_replay(prop, "rtc_" + key, content)
            if k is not None:
                known_lines.append("KNOWN-FINDING: property=%s %s" % (prop, k.get("what", key)))
            else:
                violations.append("VIOLATION property=%s replay=%s" % (prop, path))
    # ---------------------------------------------------------------- evidence
    proved_all = (pv is not None and tot > 0 and dis == tot and all(f["status"] == "proved" for f in funcs))
    level = claimed_level
    if claimed_level == "proof" and not proved_all:
        level = "other"
        notes.append("claimed level 'proof' downgraded for this run: %d of %d obligations discharged, functions not fully proved: %s"
                     % (dis, tot, [f["function"].split(".")[-1] for f in funcs if f["status"] != "proved"]))
    cov = {
        "obligations": tot, "discharged": dis, "refuted": sat, "undecided": und,
        "checker_cmd": "python3-vt -m pyvc.run --prop %s   (z3 %s; VCs regenerated from /repo's working tree on this run)" % (prop, z3_version()),
        "trusted_base": ["CPython 3.12 semantics as encoded in pyvc/vals.py + pyvc/exec.py (DESIGN §3.3)", "z3 / cvc5", "python ast module",
                         "ruamel.yaml 0.17.21 (assumed contracts listed under assumptions)"],
        "functions_under_contract": funcs,
        "solver_time_s": round(solver_time, 2),
        # which back end closed each discharged obligation: z3 / cvc5 (took a z3 unknown) / syntactic (K6 structure) /
        # concrete (decided by evaluation) / allowed (a raise the contract permits) / caught (handled by the code)
        "discharged_by_backend": backends,
        "explanation": ("Deductive core: %d verification conditions generated from the current source of %d function(s), %d discharged, %d refuted, %d undecided. "
                        % (tot, len(funcs), dis, sat, und)) +
                       ("Bounded stand-in (never counted as proved): %d evaluations of the real functions, %d distinct non-trivial cases, %d witness classes."
                        % (rt["evaluations"], rt["distinct_nontrivial"], len(rt.get("witnesses", []))) if rt else "No bounded stand-in ran."),
        "samples": samples + ([{"bounded_case": s} for s in (rt.get("samples", [])[:6] if rt else [])]),
        "notes": notes,
    }
    if rt is not None:
        cov.update({"evaluations": rt["evaluations"], "distinct_nontrivial": rt["distinct_nontrivial"], "rule": rt.get("rule", ""),
                    "exhaustive": bool(rt.get("exhaustive")), "bounded": {k: rt.get(k) for k in ("bounds", "out_of_scope", "wall_s") if k in rt},
                    "bounded_witness_keys": [w["key"] for w in rt.get("witnesses", [])]})
        for extra in ("fault_points", "io_sequences", "mutants"):
            if extra in rt:
                cov[extra] = rt[extra]
    else:
        cov.update({"evaluations": max(tot, 1), "distinct_nontrivial": max(dis, 2) if tot else 2,
                    "rule": "no bounded harness for this property; counts are the verification conditions (distinct by function, kind, anchor, path)"})
    ev = {"property_id": prop, "tier": a.tier, "seed": seed, "level": level, "coverage": cov,
          "assumptions": sorted(assumptions) + ["known-findings file: %d known, %d fixed entries" % (len(known), len(fixed))],
          "wall_s": round(time.time() - t0, 2), "violations": len(violations),
          "repo_head": git_head(REPO), "known_findings_reported": known_lines}
    os.makedirs(EVID, exist_ok=True)
    with open(os.path.join(EVID, "%s.json" % prop), "w") as fh:
        json.dump(ev, fh, indent=1, default=str)
    # ---------------------------------------------------------------- report
    print("%s tier=%s: obligations=%d discharged=%d refuted=%d undecided=%d; bounded: %s; %.1fs" % (
        prop, a.tier, tot, dis, sat, und,
        ("%d evaluations, %d witness classes" % (rt["evaluations"], len(rt.get("witnesses", [])))) if rt else "none", time.time() - t0))
    for f in funcs:
        print("  %-8s %s (%d/%d)%s" % (f["status"], f["function"], f["discharged"], f["obligations"],
                                        (" outside subset: %s" % f["outside_subset"][:2]) if f["outside_subset"] else ""))
    for ln in known_lines:
        print(ln)
    for ln in violations:
        print(ln)
    if violations:
        sys.exit(1)
    # neither held nor violated: some verification condition was left open by both solvers, or the code under
    # contract now uses a construct outside the verified subset (the contract no longer covers that statement)
    # (a function whose refuted obligations are all recorded findings is still undecided where its body left the subset)
    open_funcs = [f for f in funcs if f["status"] == "partial" or f["outside_subset"] or f["undecided"]]
    if open_funcs:
        for f in open_funcs:
            print("UNDECIDED property=%s function=%s undecided_obligations=%d outside_subset=%s" % (
                prop, f["function"], f["undecided"], f["outside_subset"][:3]))
        sys.exit(2)
    sys.exit(0)


def z3_version():
    try:
        import z3
        return z3.get_version_string()
    except Exception:
        return "?"


if __name__ == "__main__":
    try:
        main()
    except SystemExit:
        raise
    except BaseException:
        traceback.print_exc()
        sys.exit(3)
