"""Runs one bounded harness module in the repo interpreter and writes its result as JSON."""
import importlib
import json
import sys


def main():
    mod, tier, seed, jobs, outp = sys.argv[1:6]
    m = importlib.import_module(mod)
    res = m.run(tier, int(seed), int(jobs))
    res.pop("_distinct", None)
    with open(outp, "w") as fh:
        json.dump(res, fh, default=repr)


if __name__ == "__main__":
    main()
