"""Native replay of counter-models and bounded witnesses on /repo's current tree (runs in /venv/bin/python).

stdin: JSON {"mode": "rtc", "input": ...} | {"mode": "obligation", "obligation": {...}}
stdout (last line): JSON {"reproduced": bool, "payload": <input that reproduces>, "observed": "...", ...}
"""
import importlib
import itertools
import json
import re
import sys
import traceback


def z3str(lit):
    """'VStr("a\\u{5d}")' -> python str ; None if not a string value."""
    if lit is None:
        return None
    m = re.match(r'^VStr\("(.*)"\)$', lit, re.S)
    if not m:
        return None
    s = m.group(1)
    s = re.sub(r'\\u\{([0-9a-fA-F]+)\}', lambda k: chr(int(k.group(1), 16)), s)
    return s.replace('""', '"')


def innermost_repo_frame(tb):
    last = None
    for fs in traceback.extract_tb(tb):
        if "/yamlpath/" in fs.filename:
            last = fs
    return last


def replay_rtc(prop, inp):
    m = importlib.import_module("rtc.c%s" % prop[1:])
    w = m.replay(inp)
    return {"reproduced": w is not None, "payload": {"mode": "rtc", "input": inp}, "observed": (w or {}).get("observed") if isinstance(w, dict) else repr(w)}


def try_parse(text):
    """-> None if fine (result or YAMLPathException), else (exc type name, innermost repo line text)."""
    from yamlpath import YAMLPath
    from yamlpath.exceptions import YAMLPathException
    from yamlpath.enums import PathSeparators
    for sep in (None, PathSeparators.DOT, PathSeparators.FSLASH):
        for what in ("escaped", "unescaped", "str"):
            try:
                p = YAMLPath(text)
                if sep is not None:
                    p.separator = sep
                if what == "str":
                    str(p)
                else:
                    getattr(p, what)
            except YAMLPathException:
                pass
            except Exception as ex:   # noqa: the point of the replay
                fr = innermost_repo_frame(ex.__traceback__)
                return (type(ex).__name__, (fr.line or "").strip() if fr else "", "sep=%s %s" % (sep, what))
    return None


def replay_c14(o):
    model = o.get("model") or {}
    text = z3str(model.get("fld_YAMLPath__original")) or z3str(model.get("in_yaml_path")) or z3str(model.get("in_segment_id"))
    want_line = (o.get("text") or "").strip()
    tried = []
    if text is not None:
        r = try_parse(text)
        tried.append(text)
        if r is not None:
            return {"reproduced": True, "payload": {"mode": "c14-text", "text": text}, "observed": "%s at `%s` (%s)" % r, "from": "counter-model"}
    # the model is a loop pre-state, not an input: search short strings for an exception at the same source line
    alphabet = "[]()'\"\\/.&*!=^$%<>~:, +-ab1"
    for n in range(1, 5):
        for tup in itertools.product(alphabet, repeat=n):
            s = "".join(tup)
            r = try_parse(s)
            if r is not None and (not want_line or r[1] == want_line or o.get("kind") != "K1"):
                return {"reproduced": True, "payload": {"mode": "c14-text", "text": s}, "observed": "%s at `%s` (%s)" % r,
                        "from": "bounded search (strings <= 4 over the syntax alphabet) restricted to the failed obligation's source line"}
    return {"reproduced": False, "tried": tried, "searched": "all strings of length <= 4 over %r" % alphabet}


def replay_c12(o):
    from yamlpath.common import Searches, Nodes
    from yamlpath.enums import PathSearchMethods
    import spec.c12 as S
    from spec.prims import re_valid
    fn = o.get("func", "")
    pool = [None, True, False, 0, 1, -1, 2, 10, 1.0, 1.5, -0.5, "", "a", "A", "ab", "b", "1", "2", "10", "1.0", "1.5", "01", " 1",
            "true", "True", "TRUE", "false", "null", "None", "[1]", "{a}", "'x'", "(1,)", "{[1]:2}", "1_000", "1e3", ".", "^a", "a$"]
    if fn.endswith("typed_value"):
        for v in pool + ["{[1]:2}", "(" * 500 + ")" * 500, "1" * 5000]:
            try:
                Nodes.typed_value(v)
            except Exception as ex:
                return {"reproduced": True, "payload": {"mode": "c12-typed", "value": v if len(repr(v)) < 200 else repr(v)[:200]},
                        "observed": "%s: %s" % (type(ex).__name__, ex)}
        return {"reproduced": False, "searched": "typed_value over %d pool values" % len(pool)}
    for method in PathSearchMethods:
        for hay in pool:
            for needle in pool:
                if not isinstance(needle, str):
                    continue
                if method is PathSearchMethods.REGEX and not re_valid(needle):
                    continue
                try:
                    real = Searches.search_matches(method, needle, hay)
                except Exception as ex:
                    return {"reproduced": True, "payload": {"mode": "c12-grid", "method": method.name, "needle": needle, "haystack": repr(hay)},
                            "observed": "%s: %s" % (type(ex).__name__, ex)}
                want = S.search_matches(method, needle, hay)
                if bool(real) != bool(want):
                    return {"reproduced": True, "payload": {"mode": "c12-grid", "method": method.name, "needle": needle, "haystack": repr(hay)},
                            "observed": "search_matches=%r, documented rules=%r" % (real, want)}
    return {"reproduced": False, "searched": "grid 9 methods x %d haystacks x str needles" % len(pool)}


def replay_payload(prop, payload):
    mode = payload.get("mode")
    if mode == "rtc":
        return replay_rtc(prop, payload.get("input"))
    if mode == "c14-text":
        r = try_parse(payload["text"])
        return {"reproduced": r is not None, "payload": payload, "observed": ("%s at `%s` (%s)" % r) if r else "parses or raises YAMLPathException"}
    if mode in ("c12-grid", "c12-typed"):
        return replay_c12({"func": "typed_value" if mode == "c12-typed" else "search_matches"})
    if mode == "obligation":
        o = payload["obligation"]
        fn = o.get("func", "")
        if ".yamlpath.YAMLPath." in fn or "pathseparators" in fn or "/path/" in fn:
            return replay_c14(o)
        if fn.endswith("search_matches") or fn.endswith("typed_value"):
            return replay_c12(o)
        return {"reproduced": False, "reason": "no native replayer for obligations of %s; the bounded harness of the property is the replay engine" % fn}
    return {"reproduced": False, "reason": "unknown payload mode %r" % mode}


def main():
    prop = sys.argv[1]
    payload = json.loads(sys.stdin.read())
    try:
        res = replay_payload(prop, payload)
    except Exception:
        res = {"reproduced": False, "error": traceback.format_exc()[-1500:]}
    print(json.dumps(res, default=repr))


if __name__ == "__main__":
    main()
