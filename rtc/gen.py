"""Exhaustive / random generators of YAML documents for the bounded stand-ins.

Templates are plain Python data:  dict -> mapping, list -> sequence,
SetT(members) -> YAML !!set, None/bool/int/float/str -> scalars.
`to_yaml(t)` renders a template as flow-style YAML text; `load(text)` loads it
with yamlpath's own round-trip editor, so every harness works on the very
ruamel.yaml object types the library sees in production.
Bounds are parameters and are reported by the callers in their evidence.
"""
import itertools
import random
import re

KEYS_DEFAULT = ("a", "b", 1, "x.y")
SCALARS_SMALL = (None, True, 1, "a")
SCALARS_FULL = (None, True, 1, 2, 1.5, "a", "b", "1", "")


class SetT(tuple):
    """Template of a YAML set (ordered tuple of scalar members)."""
    def __repr__(self):
        return "SetT(%s)" % (tuple.__repr__(self),)


_PLAIN = re.compile(r"^[A-Za-z_][A-Za-z0-9_]*$")
_RESERVED = {"null", "true", "false", "yes", "no", "on", "off", "y", "n", "~"}


def scalar_yaml(v):
    if v is None:
        return "null"
    if v is True:
        return "true"
    if v is False:
        return "false"
    if isinstance(v, int):
        return str(v)
    if isinstance(v, float):
        if v != v:
            return ".nan"
        if v in (float("inf"), float("-inf")):
            return ".inf" if v > 0 else "-.inf"
        return repr(v)
    s = str(v)
    if _PLAIN.match(s) and s.lower() not in _RESERVED:
        return s
    return '"' + s.replace("\\", "\\\\").replace('"', '\\"').replace("\n", "\\n").replace("\t", "\\t") + '"'


def to_yaml(t):
    if isinstance(t, dict):
        return "{" + ", ".join("%s: %s" % (scalar_yaml(k), to_yaml(v)) for k, v in t.items()) + "}"
    if isinstance(t, SetT):
        return "!!set {" + ", ".join("%s: null" % scalar_yaml(m) for m in t) + "}"
    if isinstance(t, (list, tuple)):
        return "[" + ", ".join(to_yaml(v) for v in t) + "]"
    return scalar_yaml(t)


def size(t):
    if isinstance(t, dict):
        return 1 + sum(size(v) for v in t.values())
    if isinstance(t, SetT):
        return 1 + len(t)
    if isinstance(t, (list, tuple)):
        return 1 + sum(size(v) for v in t)
    return 1


def _compositions(total, parts):
    """All tuples of `parts` positive ints summing to <= total."""
    if parts == 0:
        yield ()
        return
    for first in range(1, total - (parts - 1) + 1):
        for rest in _compositions(total - first, parts - 1):
            yield (first,) + rest


def trees(max_nodes, max_depth, keys=KEYS_DEFAULT, scalars=SCALARS_SMALL,
          sets=True, exact=None, _memo=None):
    """Yield every template with at most `max_nodes` nodes and depth <= max_depth.

    Map keys are taken as ordered subsets of `keys` (in the given order), so the
    enumeration is canonical up to key permutation.  `exact` (internal) asks for
    trees of exactly that many nodes.
    """
    if _memo is None:
        _memo = {}
    out = []
    for n in range(1, max_nodes + 1):
        out.extend(_trees_exact(n, max_depth, keys, scalars, sets, _memo))
    return out


def _trees_exact(n, depth, keys, scalars, sets, memo):
    key = (n, depth)
    if key in memo:
        return memo[key]
    res = []
    if n == 1:
        res.extend(scalars)
        if depth >= 1:
            res.append({})
            res.append([])
    elif depth >= 1:
        # containers with k children whose sizes sum to n-1
        for k in range(1, n):
            for comp in _compositions(n - 1, k):
                if sum(comp) != n - 1:
                    continue
                child_lists = [_trees_exact(c, depth - 1, keys, scalars, sets, memo) for c in comp]
                for children in itertools.product(*child_lists):
                    res.append(list(children))
                    if k <= len(keys):
                        for ks in itertools.combinations(keys, k):
                            res.append(dict(zip(ks, children)))
        if sets and n - 1 <= 3:
            strs = [s for s in scalars if isinstance(s, str) and s != ""] or ["a"]
            pool = list(dict.fromkeys(list(strs) + ["b", "c"]))
            for ms in itertools.combinations(pool, n - 1):
                res.append(SetT(ms))
    memo[key] = res
    return res


def random_tree(rng, max_nodes=14, max_depth=5, keys=("a", "b", "c", 1, 2, "x.y", "k e"),
                scalars=SCALARS_FULL):
    budget = [rng.randint(1, max_nodes)]

    def rec(depth):
        budget[0] -= 1
        if depth >= max_depth or budget[0] <= 0 or rng.random() < 0.35:
            return rng.choice(scalars)
        kind = rng.choice(("map", "seq", "seq", "map", "set"))
        if kind == "set":
            k = rng.randint(0, 3)
            budget[0] -= k
            return SetT(rng.sample(["a", "b", "c", "d"], k))
        k = rng.randint(0, 4)
        if kind == "map":
            ks = rng.sample(list(keys), min(k, len(keys)))
            return {kk: rec(depth + 1) for kk in ks}
        return [rec(depth + 1) for _ in range(k)]
    return rec(0)


def plain(node):
    """ruamel/yamlpath data -> plain Python data (sets become SetT)."""
    from ruamel.yaml.comments import CommentedSet, TaggedScalar
    if isinstance(node, CommentedSet):
        return SetT(tuple(plain(m) for m in node))
    if isinstance(node, dict):
        return {plain(k): plain(v) for k, v in node.items()}
    if isinstance(node, (list, tuple)):
        return [plain(v) for v in node]
    if isinstance(node, TaggedScalar):
        return plain(node.value)
    if node is None or isinstance(node, bool):
        return node if node is None else bool(node)
    try:
        from ruamel.yaml.scalarbool import ScalarBoolean
        if isinstance(node, ScalarBoolean):
            return bool(node)
    except ImportError:
        pass
    if isinstance(node, int):
        return int(node)
    if isinstance(node, float):
        return float(node)
    if isinstance(node, str):
        return str(node)
    return node


_EDITOR = None


def editor():
    global _EDITOR
    if _EDITOR is None:
        from yamlpath.common import Parsers
        _EDITOR = Parsers.get_yaml_editor()
    return _EDITOR


class QuietLog:
    """Stand-in for ConsolePrinter: silent, `critical` raises SystemExit like the real one."""
    def __init__(self):
        self.msgs = []
    def info(self, *a, **k): pass
    def verbose(self, *a, **k): pass
    def debug(self, *a, **k): pass
    def warning(self, m, *a, **k): self.msgs.append(("warning", str(m)))
    def error(self, m, *a, **k):
        self.msgs.append(("error", str(m)))
    def critical(self, m, exit_code=1, *a, **k):
        self.msgs.append(("critical", str(m)))
        raise SystemExit(exit_code)


def quiet_logger():
    from types import SimpleNamespace
    from yamlpath.wrappers import ConsolePrinter
    return ConsolePrinter(SimpleNamespace(quiet=True, verbose=False, debug=False))


def load(text):
    """Load YAML text with yamlpath's round-trip editor; returns the ruamel data."""
    from yamlpath.common import Parsers
    data, ok = Parsers.get_yaml_data(editor(), QuietLog(), text, literal=True)
    if not ok:
        raise ValueError("generator produced unloadable YAML: %r" % (text,))
    return data


def load_template(t):
    return load(to_yaml(t))
