"""C14 bounded stand-in: parsing ANY text as a YAML Path ends in segments or a YAML Path error.

Contract (from the property statement): for every `s: str`

    YAMLPath(s).escaped, YAMLPath(s).unescaped, str(YAMLPath(s))

and the same three after forcing `p.separator = PathSeparators.DOT` / `FSLASH` (the
only public way to force a separator: the constructor's `pathsep` argument is discarded)
terminate and either return (a deque of 2-tuples / a str) or raise
`yamlpath.exceptions.YAMLPathException` (or a subclass) whose `str()` works.  Any other
exception type, a result of another type, or a case that does not finish within
CASE_TIMEOUT seconds is a witness.  In addition, `SearchKeywordTerms.parameters` (the lazy
second half of parsing a `[keyword(parameters)]` segment) is evaluated on every keyword
segment that a parse produced; the same contract is applied to it, with one exception: the
accessor's own deliberate `raise ValueError` for unmatched demarcation marks inside the parameters
is pinned by the project's test-suite (tests/test_path_searchkeywordterms.py::
test_unmatched_demarcation) and is an evaluation-time concern (C15); such cases are counted with
out_of_scope("C14/keyword-parameters-valueerror-pinned-by-tests") (once per input string), any
other exception type from `.parameters` is a witness.

Input space
  A. every string of length <= L over the 27-character syntax alphabet ALPHA (complete
     enumeration; quick L=4, thorough L=5), generated inside the workers from index ranges;
  B. every `[has_child(X)]` and `a[!max(X)]` with X over ALPHA, |X| <= LP (quick 3,
     thorough 4) -- strings of length <= 5 cannot contain a keyword segment, so the
     keyword-parameter parser would otherwise never be reached exhaustively;
  C. seeded random strings of length 6..40: alphabet-only, alphabet mixed with arbitrary
     Unicode code points (0..0x10FFFF incl. NUL, controls, lone surrogates, astral), pure
     Unicode, and "token soup" over the alphabet + keyword names and multi-char operators.

Witness key:  C14/<ExceptionType>@<file under the yamlpath package>:<function>#<sha1[:8] of the
stripped source line of the innermost frame inside the yamlpath package plus the two non-blank
lines above it>   (line TEXT with context, not the line number: the key survives unrelated edits
and still tells the six `demarc_stack.pop()` sites of _parse_path apart);  C14/timeout@<file>:<function> for
non-termination;  C14/bad-result-type@<op> if a call returns something that is not a segment
deque / str.
"""
import hashlib
import json
import linecache
import os
import random
import signal
import sys
from collections import deque

import yamlpath
from yamlpath import YAMLPath
from yamlpath.enums import PathSeparators, PathSegmentTypes
from yamlpath.exceptions import YAMLPathException
from yamlpath.path import SearchKeywordTerms

from rtc import harness

ALPHA = "[]()'\"\\/.&*!=^$%<>~:, +-ab1"
assert len(ALPHA) == 27 and len(set(ALPHA)) == 27
NA = len(ALPHA)
CASE_TIMEOUT = float(os.environ.get("C14_CASE_TIMEOUT", "5.0"))   # seconds; one parse of a <= 40 character string takes microseconds
PKG_DIR = os.path.dirname(os.path.abspath(yamlpath.__file__))
PKG_PREFIX = PKG_DIR + os.sep

TOKENS = list(ALPHA) + ["has_child", "name", "max", "min", "parent", "unique", "distinct",
                        "()", "[.", "=~", "**", "\\\\", "[&", ")]", "](", ")+(", "!=", "ab", "12"]

_DOT = PathSeparators.DOT
_FSLASH = PathSeparators.FSLASH
_KW = PathSegmentTypes.KEYWORD_SEARCH


class CaseTimeout(BaseException):
    """Raised by the SIGALRM handler inside the library call (BaseException: cannot be swallowed
    by an `except Exception`)."""


def _on_alarm(signum, frame):
    raise CaseTimeout()


# ----------------------------------------------------------------------------------------------
# index <-> string of part A
def _offsets(L):
    offs = [0]
    for k in range(L + 1):
        offs.append(offs[-1] + NA ** k)
    return offs          # offs[k] = number of strings shorter than k; offs[L+1] = total


def nth_string(i, offs):
    k = 0
    while offs[k + 1] <= i:
        k += 1
    r = i - offs[k]
    out = []
    for _ in range(k):
        r, d = divmod(r, NA)
        out.append(ALPHA[d])
    return "".join(reversed(out))


# ----------------------------------------------------------------------------------------------
# the check of ONE string
_FRAME_CACHE = {}


def _frame_key(tb):
    """(file relative to the package, function, hash of the line text, lineno, line text) of the
    innermost frame inside the yamlpath package; None if the traceback never enters the package."""
    inner = None
    while tb is not None:
        code = tb.tb_frame.f_code
        if code.co_filename.startswith(PKG_PREFIX):
            inner = (code.co_filename, code.co_name, tb.tb_lineno)
        tb = tb.tb_next
    if inner is None:
        return None
    fk = _FRAME_CACHE.get(inner)
    if fk is None:
        fn, func, lineno = inner
        text = (linecache.getline(fn, lineno) or "").strip()
        # hash of the failing line together with the two non-blank lines above it: `demarc_stack.pop()`
        # occurs six times in _parse_path, the context tells the sites apart, and the hash still
        # survives edits elsewhere in the file (a line number would not)
        ctx = [text]
        k = lineno - 1
        while k > 0 and len(ctx) < 3:
            t = (linecache.getline(fn, k) or "").strip()
            if t:
                ctx.append(t)
            k -= 1
        fk = (os.path.relpath(fn, PKG_DIR), func, hashlib.sha1("\n".join(ctx).encode()).hexdigest()[:8], lineno, text)
        _FRAME_CACHE[inner] = fk
    return fk


def _classify(exc, tb):
    fk = _frame_key(tb)
    if isinstance(exc, CaseTimeout):
        if fk is None:
            return "C14/timeout@<outside-package>", None
        return "C14/timeout@%s:%s" % (fk[0], fk[1]), fk
    if fk is None:
        # the exception was raised outside the package (e.g. by the harness itself): harness bug
        return None, None
    return "C14/%s@%s:%s#%s" % (type(exc).__name__, fk[0], fk[1], fk[2]), fk


def _msg_stem(e):
    m = getattr(e, "user_message", "")
    return "".join(c for c in m[:28] if not c.isdigit())


OOS_KWPARAMS = "C14/keyword-parameters-valueerror-pinned-by-tests"


def _run_op(opname, fn, p, sig, fails, timeout, oos=None):
    """One guarded library call.  Returns the result, or _FAILED."""
    try:
        return fn(p)
    except YAMLPathException as e:
        # "the library's YAML Path exception describing the problem"
        sig.append((opname, type(e).__name__, _msg_stem(e)))
        if str(e).__class__ is not str:      # pragma: no cover
            fails.append(("C14/bad-result-type@str(exception)", opname, repr(e)))
    except CaseTimeout as e:
        key, fk = _classify(e, sys.exc_info()[2])
        fails.append((key, opname, "no result after %.1f s%s" % (
            timeout, "" if fk is None else " (interrupted at line %d: %s)" % (fk[3], fk[4]))))
        sig.append((opname, "timeout"))
        signal.setitimer(signal.ITIMER_REAL, timeout)
    except Exception as e:      # noqa: BLE001 - exactly what the property forbids
        key, fk = _classify(e, sys.exc_info()[2])
        if key is None:
            raise               # raised outside the yamlpath package: harness bug
        if (fn is _get_parameters and type(e) is ValueError and fk[1] == "parameters"
                and fk[4].startswith("raise ValueError(")):
            # The accessor's own `raise ValueError` for unmatched demarcation inside keyword parameters
            # is pinned by tests/test_path_searchkeywordterms.py::test_unmatched_demarcation and is an
            # evaluation-time concern (C15): not a C14 witness.  Any other exception type -- or a
            # ValueError that is not this deliberate raise -- from `.parameters` stays a witness.
            if oos is not None:
                oos.append(OOS_KWPARAMS)
            sig.append((opname, "ValueError-pinned"))
            return _FAILED
        fails.append((key, opname, "%s: %s (line %d: %s)" % (
            type(e).__name__, str(e)[:120], fk[3], fk[4])))
        sig.append((opname, type(e).__name__))
    return _FAILED


_FAILED = object()


def _set_dot(p):
    p.separator = _DOT


def _set_fslash(p):
    p.separator = _FSLASH


def _get_escaped(p):
    return p.escaped


def _get_unescaped(p):
    return p.unescaped


def _get_parameters(terms):
    return terms.parameters


_MODES = ((None, None), ("separator=DOT", _set_dot), ("separator=FSLASH", _set_fslash))


def check_string(s, fails, timeout=CASE_TIMEOUT, oos=None):
    """Run every observed operation on `s` (each one guarded on its own: a YAMLPathException from
    `.escaped` does not excuse `.unescaped` or `str()`).  Appends (key, op, observed) to `fails` for
    each contract breach and returns the outcome signature (a hashable tuple)."""
    sig = []
    signal.setitimer(signal.ITIMER_REAL, timeout)
    try:
        for mname, setter in _MODES:
            p = YAMLPath(s)       # constructor only stores the text (no parse); exceptions here propagate
            if setter is not None and _run_op(mname, setter, p, sig, fails, timeout) is _FAILED:
                # the setter parses with the OLD separator and failed: the forced separator is not
                # installed, the object is the same as under "auto" -- nothing new to observe
                continue
            esc = _run_op("escaped", _get_escaped, p, sig, fails, timeout)
            une = _run_op("unescaped", _get_unescaped, p, sig, fails, timeout)
            txt = _run_op("str", str, p, sig, fails, timeout)
            if txt is not _FAILED and txt.__class__ is not str:
                fails.append(("C14/bad-result-type@str", "str", repr(type(txt))))
            for segs, which in ((esc, "escaped"), (une, "unescaped")):
                if segs is _FAILED:
                    continue
                if segs.__class__ is not deque:
                    fails.append(("C14/bad-result-type@segments", which, repr(type(segs))))
                    continue
                if which == "escaped":
                    sig.append(tuple([seg[0].value for seg in segs]))
                for seg in segs:
                    if seg.__class__ is not tuple or len(seg) != 2 or seg[0].__class__ is not PathSegmentTypes:
                        fails.append(("C14/bad-result-type@segment", which, repr(seg)))
                    elif seg[0] is _KW and isinstance(seg[1], SearchKeywordTerms):
                        params = _run_op("%s[KEYWORD_SEARCH].parameters" % which, _get_parameters,
                                         seg[1], sig, fails, timeout, oos)
                        if params is not _FAILED:
                            if params.__class__ is not list:
                                fails.append(("C14/bad-result-type@parameters", which, repr(params)))
                            else:
                                sig.append(len(params))
    finally:
        signal.setitimer(signal.ITIMER_REAL, 0)
    return tuple(sig)


def _shape(s):
    return (min(len(s), 8), s[:1] == "/")


EXPECTED = "returns a segment deque / str, or raises yamlpath.exceptions.YAMLPathException"


def _record(coll, s, part, fails):
    seen = set()
    for key, op, observed in fails:
        if key in seen:       # the same root cause reached through escaped/unescaped/str/forced
            continue          # separator on one input is ONE witness occurrence
        seen.add(key)
        coll.witness(key, "%s on YAMLPath(s) does not end in segments or a YAMLPathException" % op,
                     {"s": s, "part": part, "op": op}, observed, EXPECTED)


def _finish(coll, n, sigs, samples):
    coll.evaluations += n
    coll.distinct.update(harness.stable_hash(list(map(repr, t))) for t in sigs)
    for smp in samples:
        if len(coll.samples) < coll.max_samples:
            coll.samples.append(smp)
    return coll.result(internal=True)


# ----------------------------------------------------------------------------------------------
# workers (module level, one chunk = one list of work items)
def _work_enum(chunk, L):
    """chunk: list of (lo, hi) index ranges of part A."""
    signal.signal(signal.SIGALRM, _on_alarm)
    coll = harness.Collector()
    offs = _offsets(L)
    sigs = set()
    samples = []
    n = 0
    for lo, hi in chunk:
        for i in range(lo, hi):
            s = nth_string(i, offs)
            fails = []
            oos = []
            sig = check_string(s, fails, oos=oos)
            for o in oos[:1]:
                coll.out_of_scope(o)
            n += 1
            full = (_shape(s), sig)
            if full not in sigs:
                sigs.add(full)
                if len(samples) < 2 and len(s) >= 3 and i % 7 == 0:
                    samples.append({"s": s, "outcome": repr(sig)[:160]})
            if fails:
                _record(coll, s, "A", fails)
    return _finish(coll, n, sigs, samples)


KW_FRAMES = (("[has_child(", ")]"), ("a[!max(", ")]"))


def _work_kw(chunk, LP):
    """chunk: list of (lo, hi) index ranges over strings X, |X| <= LP; each X is put into every
    KW_FRAMES frame and is also given to SearchKeywordTerms directly."""
    signal.signal(signal.SIGALRM, _on_alarm)
    coll = harness.Collector()
    offs = _offsets(LP)
    sigs = set()
    samples = []
    n = 0
    for lo, hi in chunk:
        for i in range(lo, hi):
            x = nth_string(i, offs)
            for pre, post in KW_FRAMES:
                s = pre + x + post
                fails = []
                oos = []
                sig = check_string(s, fails, oos=oos)
                for o in oos[:1]:
                    coll.out_of_scope(o)
                n += 1
                full = ("kw", len(x), sig)
                if full not in sigs:
                    sigs.add(full)
                    if len(samples) < 1 and len(x) >= 2 and i % 5 == 0:
                        samples.append({"s": s, "outcome": repr(sig)[:160]})
                if fails:
                    _record(coll, s, "B", fails)
    return _finish(coll, n, sigs, samples)


def random_string(rng):
    mode = rng.random()
    n = rng.randint(6, 40)
    if mode < 0.35:
        return "".join(rng.choice(ALPHA) for _ in range(n))
    if mode < 0.65:
        out = []
        while len("".join(out)) < n:
            out.append(rng.choice(TOKENS))
        return "".join(out)[:40]
    if mode < 0.90:
        p_uni = rng.choice((0.05, 0.2, 0.5))
        return "".join(_uni(rng) if rng.random() < p_uni else rng.choice(ALPHA) for _ in range(n))
    return "".join(_uni(rng) for _ in range(n))


# white space of every flavour, zero-width / BOM, full-width look-alikes of / . [
_ODD = "\u00a0\u2003\u2028\u200b\ufeff\u0085\t\n\r\x0b\x0c\x1c\u3000\uff0f\uff0e\uff3b"


def _uni(rng):
    r = rng.random()
    if r < 0.25:
        return chr(rng.randrange(0, 0x80))            # ASCII incl. NUL and controls
    if r < 0.45:
        return chr(rng.randrange(0x80, 0x800))
    if r < 0.65:
        return chr(rng.randrange(0x800, 0x10000))     # BMP incl. lone surrogates
    if r < 0.75:
        return chr(rng.randrange(0xD800, 0xE000))     # lone surrogate
    if r < 0.85:
        return rng.choice(_ODD)
    return chr(rng.randrange(0x10000, 0x110000))


def _work_random(chunk, seed):
    """chunk: list of (stream index, count)."""
    signal.signal(signal.SIGALRM, _on_alarm)
    coll = harness.Collector()
    sigs = set()
    samples = []
    n = 0
    for stream, count in chunk:
        rng = random.Random("c14:%d:%d" % (seed, stream))
        for j in range(count):
            s = random_string(rng)
            fails = []
            oos = []
            sig = check_string(s, fails, oos=oos)
            for o in oos[:1]:
                coll.out_of_scope(o)
            n += 1
            full = ("rnd", s[:1] == "/", sig)
            if full not in sigs:
                sigs.add(full)
                if len(samples) < 1 and j % 11 == 0:
                    samples.append({"s": s, "outcome": repr(sig)[:160]})
            if fails:
                _record(coll, s, "C", fails)
    return _finish(coll, n, sigs, samples)


# ----------------------------------------------------------------------------------------------
TIERS = {
    #            L  LP  random strings
    "quick":    (4, 3, 160_000),
    "thorough": (5, 4, 3_000_000),
}


def _ranges(total, size):
    return [(lo, min(total, lo + size)) for lo in range(0, total, size)]


def run(tier="quick", seed=0, jobs=None):
    L, LP, nrand = TIERS[tier]
    coll = harness.Collector(max_samples=8)
    total_a = _offsets(L)[-1]
    total_b = _offsets(LP)[-1]
    # small work items, handed out one by one: good load balance, tiny pickles
    for res in harness.pmap_chunks(_work_enum, _ranges(total_a, 20_000), jobs=jobs, chunk=1, extra=(L,)):
        coll.merge(res)
    for res in harness.pmap_chunks(_work_kw, _ranges(total_b, 10_000), jobs=jobs, chunk=1, extra=(LP,)):
        coll.merge(res)
    per = 5_000
    streams = [(i, min(per, nrand - i * per)) for i in range((nrand + per - 1) // per)]
    for res in harness.pmap_chunks(_work_random, streams, jobs=jobs, chunk=1, extra=(seed,)):
        coll.merge(res)
    bounds = {
        "alphabet": ALPHA, "alphabet_size": NA, "L": L, "strings_A": total_a,
        "kw_frames": ["%sX%s" % f for f in KW_FRAMES], "LP": LP, "strings_B": total_b * len(KW_FRAMES),
        "random_strings_C": nrand, "random_len": [6, 40], "seed": seed,
        "separator_settings": ["auto", "DOT (setter)", "FSLASH (setter)"],
        "operations": ["escaped", "unescaped", "str", "SearchKeywordTerms.parameters on parsed keyword segments"],
        "case_timeout_s": CASE_TIMEOUT,
    }
    rule = ("for every string s of length <= %d over the %d-character syntax alphabet (complete), every "
            "[has_child(X)] / a[!max(X)] with |X| <= %d (complete) and %d seeded random strings of length 6..40 "
            "(alphabet, token soup, arbitrary Unicode): YAMLPath(s).escaped / .unescaped / str() under the "
            "inferred separator and after p.separator = DOT / FSLASH, and .parameters of every parsed keyword "
            "segment, finish within %.0f s and return or raise YAMLPathException; nothing else"
            % (L, NA, LP, nrand, CASE_TIMEOUT))
    return coll.result(rule=rule, exhaustive=True, bounds=bounds)


def replay(inp):
    """Re-run one witness input natively; the witness dict if it still fails, else None."""
    old = signal.signal(signal.SIGALRM, _on_alarm)
    try:
        fails = []
        check_string(inp["s"], fails)
    finally:
        signal.signal(signal.SIGALRM, old)
    if not fails:
        return None
    coll = harness.Collector()
    _record(coll, inp["s"], inp.get("part", "replay"), fails)
    ws = list(coll.witnesses.values())
    return ws[0] if len(ws) == 1 else {"key": ws[0]["key"], "all": ws, **{k: v for k, v in ws[0].items() if k != "key"}}


if __name__ == "__main__":
    a = sys.argv[1:]
    if a and a[0] == "replay":
        print(json.dumps(replay(json.loads(a[1])), indent=1, default=repr))
    else:
        tier = a[0] if a else "quick"
        seed = int(a[1]) if len(a) > 1 else int(os.environ.get("VERIF_SEED", "0"))
        jobs = int(a[2]) if len(a) > 2 else None
        print(json.dumps(run(tier, seed, jobs), indent=1, default=repr))
