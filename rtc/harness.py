"""Shared plumbing of the bounded stand-ins (rtc): parallel map, result collection.

Every harness module `rtc/cNN.py` exposes

    run(tier: str, seed: int, jobs: int) -> dict      # see README.md
    replay(inp: dict) -> dict | None                  # re-run ONE case natively

and returns plain JSON-able data.  Nothing here decides a verdict; the driver
(`vf/driver.py`) matches witnesses against known_findings.jsonl.
"""
import hashlib
import json
import multiprocessing as mp
import os
import time
import traceback


def stable_hash(obj):
    return hashlib.sha1(json.dumps(obj, sort_keys=True, default=repr).encode()).hexdigest()[:16]


class Collector:
    """Accumulates what one harness run covered."""

    def __init__(self, max_samples=6, max_inputs_per_key=3):
        self.evaluations = 0
        self.distinct = set()
        self.samples = []
        self.witnesses = {}          # key -> witness dict (first seen) with "inputs": [...]
        self.oos = {}                # out-of-scope observations: key -> count
        self.max_samples = max_samples
        self.max_inputs_per_key = max_inputs_per_key
        self.t0 = time.time()

    def case(self, nontrivial_sig=None, sample=None):
        self.evaluations += 1
        if nontrivial_sig is not None:
            self.distinct.add(nontrivial_sig if isinstance(nontrivial_sig, str) else stable_hash(nontrivial_sig))
        if sample is not None and len(self.samples) < self.max_samples:
            self.samples.append(sample)

    def witness(self, key, what, inp, observed=None, expected=None):
        w = self.witnesses.get(key)
        if w is None:
            w = {"key": key, "what": what, "inputs": [], "observed": observed, "expected": expected, "count": 0}
            self.witnesses[key] = w
        w["count"] += 1
        if len(w["inputs"]) < self.max_inputs_per_key:
            w["inputs"].append(inp)

    def out_of_scope(self, key):
        self.oos[key] = self.oos.get(key, 0) + 1

    def merge(self, other):
        """Merge the dict produced by another Collector's `result()` (from a worker)."""
        self.evaluations += other["evaluations"]
        self.distinct.update(other["_distinct"])
        for s in other["samples"]:
            if len(self.samples) < self.max_samples:
                self.samples.append(s)
        for w in other["witnesses"]:
            mine = self.witnesses.get(w["key"])
            if mine is None:
                self.witnesses[w["key"]] = dict(w)
            else:
                mine["count"] += w["count"]
                for i in w["inputs"]:
                    if len(mine["inputs"]) < self.max_inputs_per_key:
                        mine["inputs"].append(i)
        for k, v in other.get("out_of_scope", {}).items():
            self.oos[k] = self.oos.get(k, 0) + v

    def result(self, rule="", exhaustive=False, bounds=None, internal=False, **extra):
        r = {
            "evaluations": self.evaluations,
            "distinct_nontrivial": len(self.distinct),
            "rule": rule,
            "samples": self.samples,
            "exhaustive": exhaustive,
            "bounds": bounds or {},
            "witnesses": list(self.witnesses.values()),
            "out_of_scope": self.oos,
            "wall_s": round(time.time() - self.t0, 2),
        }
        if internal:
            r["_distinct"] = sorted(self.distinct)
        r.update(extra)
        return r


def _worker(args):
    fn, chunk, extra = args
    try:
        return ("ok", fn(chunk, *extra))
    except BaseException:  # harness bug: report, never turn into a verdict
        return ("crash", traceback.format_exc())


def pmap_chunks(fn, items, jobs=None, chunk=200, extra=()):
    """Run fn(list_of_items, *extra) over chunks of `items` in a process pool.

    fn must be a module-level function returning a JSON-able value.  A crash in
    a worker raises RuntimeError in the parent (exit 3 in the driver), it is
    never reported as a violation.
    """
    jobs = jobs or int(os.environ.get("VERIF_JOBS", "0")) or os.cpu_count() or 4
    items = list(items)
    chunks = [items[i:i + chunk] for i in range(0, len(items), chunk)]
    if not chunks:
        return []
    if jobs <= 1 or len(chunks) == 1:
        outs = [_worker((fn, c, extra)) for c in chunks]
    else:
        ctx = mp.get_context("fork")
        with ctx.Pool(min(jobs, len(chunks))) as pool:
            outs = pool.map(_worker, [(fn, c, extra) for c in chunks], chunksize=1)
    res = []
    for status, val in outs:
        if status != "ok":
            raise RuntimeError("rtc worker crashed:\n" + val)
        res.append(val)
    return res
