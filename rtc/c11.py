"""C11 — a merge aimed at a path (--mergeat) changes only what lies under that path.

Real:   Merger(log, lhs, MergerConfig(log, Namespace(mergeat=PATH, hashes=.., arrays=.., aoh=.., sets=..))).merge_with(rhs)
Oracle: spec.merge.spec_merge_at — every node the path names becomes spec_merge(old content, rhs);
        with no match and a creatable path (Hash keys below existing Hashes) the path is created to hold
        rhs; everything else is unchanged; otherwise a merge error and the left document is untouched.
        Which nodes a path names is decided by this harness (the generator builds path and target set
        together), not by the Processor, so that path evaluation defects (C01) do not leak in: only
        plain key paths, `[N]` on an existing element, `*` below a Hash and `[a=V]` over an
        Array-of-Hashes whose records ALL carry `a` are generated.

"merge error" = MergeException or YAMLPathException (README "Merging Documents": merge_with is shown
guarded by both).  Anything else escaping is a witness (C11/crash/...).

Keys
  C11/crash/<Exc>(detail)@file:function
  C11/outside-of-target-changed/<path kind>          the complement of the matched subtrees differs from the snapshot
  C11/partial-change-after-error/<path kind>         unmatched+uncreatable: error raised but merger.data changed
  C11/no-merge-error/<path kind>/...                 a document although no reading defines one
  C11/merge-error-where-result-defined/<path kind>/<slug>/<policies>
  C11/inherited-from-root-merge/<C05 key tail>       the very same (old content, rhs, policy) fails as a plain root merge (C05)
  C11/created-path-does-not-hold-rhs/<path kind>/<scalar|container>/<policies>
  C11/target-merge-differs/<path kind>/<target class><-<rhs class>/<policies>
                                                      the root merge of (old content, rhs) is right, the merge at the path is not
"""
import itertools
import json
import random
import shutil
import sys
import time
import traceback
from types import SimpleNamespace

from rtc import c05, gen
from rtc.c05 import OPTS, DEFAULT_POLICY, AXIS_POLICIES, ALL_POLICIES, plain, plain_of, loaded, path_text
from rtc.gen import SetT
from rtc.harness import Collector, pmap_chunks, stable_hash
from spec import merge as S

PROP = "C11"
PLACEHOLDER = "⌂target"


# --------------------------------------------------------------------------- real side

def run_real(case, fresh=False):
    """-> ("ok", doc) | ("error", text, exception type, data afterwards) | ("crash", info)"""
    from yamlpath.merger import Merger, MergerConfig
    from yamlpath.merger.exceptions import MergeException
    from yamlpath.exceptions import YAMLPathException
    if fresh:
        lhs, rhs = gen.load(case["lhs"]), gen.load(case["rhs"])
    else:
        lhs, rhs = loaded(case["lhs"]), loaded(case["rhs"])
    log = gen.QuietLog()
    kw = {}
    if case.get("rules"):
        kw["rules"] = dict(case["rules"])
    merger = None
    try:
        merger = Merger(log, lhs, MergerConfig(log, c05.make_args(case, None, mergeat=case["mergeat"]), **kw))
        merger.merge_with(rhs)
        return ("ok", plain(merger.data))
    except (MergeException, YAMLPathException) as ex:
        return ("error", str(getattr(ex, "user_message", ex)), type(ex).__name__,
                plain(merger.data) if merger is not None else None)
    except (KeyboardInterrupt, MemoryError):
        raise
    except BaseException as ex:
        at, line = c05._innermost_frame(ex)
        return ("crash", {"type": type(ex).__name__, "at": at, "line": line,
                          "detail": c05._exc_detail(ex), "msg": str(ex)[:200]})


# --------------------------------------------------------------------------- oracle side

def _tuples(paths):
    return [tuple(p) for p in paths or []]


def rule_cfg_rules(case):
    """[rules] paths are written in left-document coordinates (prefix = the merge point); the oracle's
    per-path modes are in right-hand coordinates (from-code: mergerconfig strips the prefix)."""
    rules = {}
    mergeat = c05.parse_path(case["mergeat"].replace("/*", "/\u2217")) if case.get("mergeat") else ()
    for k, v in (case.get("rules") or {}).items():
        p = c05.parse_path(k.replace("/*", "/\u2217"))
        if p[:len(mergeat)] == mergeat:
            rules[p[len(mergeat):]] = v
    return rules


def rule_cfg(case):
    return S.SpecConfig.from_sources(cli=case["args"], rules=rule_cfg_rules(case))


def judge(case, real=None):
    lt, rt = plain_of(case["lhs"]), plain_of(case["rhs"])
    targets = _tuples(case.get("targets"))
    create = tuple(case["create"]) if case.get("create") is not None else None

    def merge(l, r, cfg, trace=None):
        return S.spec_merge_at(l, r, cfg, targets, create, trace)

    real = real if real is not None else run_real(case)
    res = c05.judge(case, real=real[:2] if real[0] == "error" else real, lt=lt, rt=rt, merge=merge, cfg=rule_cfg(case))
    res["real_full"] = real
    if res["status"] == "pass" and real[0] == "error" and res["expected"][1] == "mergeat-matches-nothing":
        if real[3] is None or not S.veq(real[3], lt):
            res["status"] = "partial-change"
    if res["status"] in ("wrong-result", "key-order") and real[0] == "ok" and targets:
        # frame clause: blank the matched subtrees on both sides and compare the rest with the snapshot
        try:
            a, b = lt, real[1]
            for t in targets:
                a = S.set_at(a, t, PLACEHOLDER)
                b = S.set_at(b, t, PLACEHOLDER)
            if not S.veq(a, b):
                res["status"] = "outside-changed"
        except (KeyError, IndexError, TypeError):
            res["status"] = "outside-changed"
    return res


COARSE_KIND = {"existing-single": "single-target", "existing-single-index": "single-target", "search-single": "single-target",
               "wildcard-single": "single-target", "wildcard-multiple": "several-targets", "search-multiple": "several-targets",
               "missing-creatable": "created", "missing-creatable-2-levels": "created",
               "missing-creatable-in-empty-document": "created-in-empty-document"}


def classify(case, res):
    status = res["status"]
    kind = COARSE_KIND.get(case["pathkind"], case["pathkind"])
    real = res["real"]
    if status == "crash":
        return ("%s/crash/%s(%s)@%s" % (PROP, real[1]["type"], real[1]["detail"], real[1]["at"]),
                "%s escapes merge_with (%s line %s): %s" % (real[1]["type"], real[1]["at"], real[1]["line"], real[1]["msg"]), case)
    if status == "outside-changed":
        return ("%s/outside-of-target-changed/%s" % (PROP, kind),
                "content outside the matched subtrees differs from the snapshot taken before the merge", case)
    if status == "partial-change":
        return ("%s/partial-change-after-error/%s" % (PROP, kind),
                "the path matches nothing and cannot be created: an error was raised but merger.data changed", case)
    if case.get("rules") and not rule_cfg_rules(case) and judge(dict(case, rules=None))["status"] == "pass":
        # every [rules] entry names a node OUTSIDE the merge point, yet it changes what the merge does
        mp = case["mergeat"].rstrip("/")
        how = "sibling-whose-name-extends-the-target" if all(k.startswith(mp) for k in case["rules"]) else "elsewhere-in-the-document"
        return ("%s/rule-for-a-path-outside-the-merge-point-takes-effect/%s" % (PROP, how),
                "a [rules] entry naming a node that does not lie at or below the merge point governs a node below it "
                "(the rule path is re-based on the merge point although the merge point is no prefix of it)", case)
    # minimal set of non-default policies
    c = dict(case, args=dict(case["args"]))
    for o in OPTS:
        if c["args"].get(o) not in (None, DEFAULT_POLICY[o]):
            c2 = dict(c, args=dict(c["args"], **{o: None}))
            if judge(c2)["status"] == status:
                c = c2
    if c.get("rules"):
        c2 = dict(c, rules=None)
        if judge(c2)["status"] == status:
            c = c2
    lt, rt = plain_of(c["lhs"]), plain_of(c["rhs"])
    targets = _tuples(c.get("targets"))
    rhs_rules = rule_cfg_rules(c)
    pol = ",".join(["%s=%s" % (o, c["args"][o]) for o in OPTS if c["args"].get(o) not in (None, DEFAULT_POLICY[o])]
                   + ["rule:%s=%s" % (c05.shape_class(S.get_at(rt, p)), v) for p, v in rhs_rules.items()]) or "default-policies"
    # does the same (old content, rhs, policy) already fail as a plain root merge (C05)?
    tcls = "absent"
    for t in targets:
        old = S.get_at(lt, t)
        tcls = c05.shape_class(old)
        if old is None and t:
            continue
        sub = {"lhs": gen.to_yaml(old), "rhs": c["rhs"], "args": c["args"]}
        if rhs_rules:
            sub["rules"] = {path_text(p): v for p, v in rhs_rules.items()}
        r5 = c05.judge(sub)
        if r5["status"] not in ("pass", "from-code"):
            return ("%s/inherited-from-root-merge/%s" % (PROP, c05.classify(sub, r5)[0].split("/", 1)[1]),
                    "the merge of the target's old content with the right-hand document already fails at the root (C05)", c)
    rcls = c05._COARSE_R.get(c05.shape_class(rt), c05.shape_class(rt))
    tcls = c05._COARSE_L.get(tcls, tcls)
    if status == "no-error":
        return ("%s/no-merge-error/%s/%s/%s" % (PROP, kind, res["expected"][1], pol),
                "a document although the merge is impossible (%s)" % res["expected"][1], c)
    if status == "unexpected-error":
        return ("%s/merge-error-where-result-defined/%s/%s<-%s/%s/%s" % (PROP, kind, tcls, rcls, c05.slug(real[1], 6), pol),
                "merge error although the target exists (or can be created) and the policies define its merge", c)
    if status == "key-order":
        return ("%s/key-order/%s" % (PROP, res["order"]), "deep Hash merge at the target: " + str(res["order"]), c)
    if not targets:
        return ("%s/created-path-does-not-hold-rhs/%s/%s/%s" % (PROP, kind, "scalar" if rcls == "scalar" else "container", pol),
                "the path matches nothing and can be created, but the result is not the left document plus the path holding "
                "the right-hand document", c)
    return ("%s/target-merge-differs/%s/%s<-%s/%s" % (PROP, kind, tcls, rcls, pol),
            "the node at the path is not the policy merge of its old content with the right-hand document "
            "(the same merge at the root is right)", c)


# --------------------------------------------------------------------------- input space

def _search_value(v):
    if isinstance(v, bool) or v is None:
        return None
    if isinstance(v, int):
        return str(v)
    if isinstance(v, str) and v.isalpha():
        return v
    return None


def target_specs(lt):
    """Every generated (path text, target set, creatable path, path kind) for a left document."""
    out = [{"mergeat": "/", "targets": [[]], "create": None, "pathkind": "root"}]

    def aoh_search(node, prefix_text, prefix):
        if isinstance(node, list) and node and all(isinstance(e, dict) and "a" in e for e in node):
            seen = []
            for e in node:
                v = _search_value(e["a"])
                if v is None or v in seen:
                    continue
                seen.append(v)
                hits = [i for i, e2 in enumerate(node) if S.veq(e2["a"], e["a"])]
                out.append({"mergeat": "%s[a=%s]" % (prefix_text, v), "targets": [list(prefix) + [i] for i in hits],
                            "create": None, "pathkind": "search-multiple" if len(hits) > 1 else "search-single"})
            out.append({"mergeat": "%s[a=zz]" % prefix_text, "targets": [], "create": None, "pathkind": "search-matching-nothing"})

    if isinstance(lt, dict):
        keys = [k for k in lt if isinstance(k, str) and k.isalpha()]
        if len(keys) >= 1 and len(keys) == len(lt):
            out.append({"mergeat": "/*", "targets": [[k] for k in lt], "create": None,
                        "pathkind": "wildcard-multiple" if len(lt) > 1 else "wildcard-single"})
        out.append({"mergeat": "/zz", "targets": [], "create": ["zz"], "pathkind": "missing-creatable"})
        out.append({"mergeat": "/zz/yy", "targets": [], "create": ["zz", "yy"], "pathkind": "missing-creatable-2-levels"})
        for k in keys:
            v = lt[k]
            out.append({"mergeat": "/" + k, "targets": [[k]], "create": None, "pathkind": "existing-single"})
            if isinstance(v, dict):
                sub = [kk for kk in v if isinstance(kk, str) and kk.isalpha()]
                if sub and len(sub) == len(v):
                    out.append({"mergeat": "/%s/*" % k, "targets": [[k, kk] for kk in v], "create": None,
                                "pathkind": "wildcard-multiple" if len(v) > 1 else "wildcard-single"})
                    out.append({"mergeat": "/%s/%s" % (k, sub[0]), "targets": [[k, sub[0]]], "create": None,
                                "pathkind": "existing-single"})
                out.append({"mergeat": "/%s/zz" % k, "targets": [], "create": [k, "zz"], "pathkind": "missing-creatable"})
            elif isinstance(v, SetT):
                pass
            elif isinstance(v, list):
                if v:
                    out.append({"mergeat": "/%s[0]" % k, "targets": [[k, 0]], "create": None, "pathkind": "existing-single-index"})
                out.append({"mergeat": "/%s/zz" % k, "targets": [], "create": None, "pathkind": "not-creatable-key-below-array"})
                aoh_search(v, "/" + k, (k,))
            elif v is not None:
                out.append({"mergeat": "/%s/zz" % k, "targets": [], "create": None, "pathkind": "not-creatable-key-below-scalar"})
    elif isinstance(lt, SetT):
        pass
    elif isinstance(lt, list):
        if lt:
            out.append({"mergeat": "/[0]", "targets": [[0]], "create": None, "pathkind": "existing-single-index"})
        out.append({"mergeat": "/zz", "targets": [], "create": None, "pathkind": "not-creatable-key-below-array"})
        aoh_search(lt, "/", ())
    elif lt is None:
        out.append({"mergeat": "/zz", "targets": [], "create": ["zz"], "pathkind": "missing-creatable-in-empty-document"})
        out.append({"mergeat": "/zz/yy", "targets": [], "create": ["zz", "yy"], "pathkind": "missing-creatable-in-empty-document"})
    else:
        out.append({"mergeat": "/zz", "targets": [], "create": None, "pathkind": "not-creatable-key-below-scalar"})
    return out


def curated_left():
    return [
        {"a": {"x": 1, "y": [1]}, "b": [{"a": 1, "b": 1}, {"a": 2}], "c": 1, "d": None},
        {"a": [{"a": 1, "b": 1}, {"a": 1, "b": 2}, {"a": 2}]},
        {"a": {"x": {"p": 1}, "y": {"p": 2}}, "b": {"x": {"p": 1}}},
        {"a": {"x": [1, 2], "y": [1, 2]}},
        {"a": {"x": SetT(("a",)), "y": SetT(("b",))}},
        [{"a": 1, "b": [1]}, {"a": 1, "b": [2]}, {"a": "q"}],
        {"a": {"x": [{"a": 1}], "y": [{"a": 2}]}},
        {"b": 1, "a": {"y": 1, "x": 2}},
    ]


def curated_right():
    return [{"x": 2}, {"p": 3, "q": 4}, [1, 3], [{"a": 1, "c": 3}], [{"a": 3}], SetT(("a", "c")), "s", 7, None,
            {"b": [3]}, {"x": {"p": 9}}, [], {},
            # text that LOOKS like a number / a boolean (written quoted): still text after the merge
            "5", "true", "1.5"]


_POOLS = {}


def pools():
    if _POOLS:
        return _POOLS["p"]
    d3s = gen.trees(3, 2, keys=("a", "b"), scalars=(None, 1, "a"))
    d4 = gen.trees(4, 3, keys=("a", "b"), scalars=(None, 1, "a"))
    left = d4 + curated_left()
    right = d3s + curated_right()
    p = {"left": left, "right": right,
         "left_text": [gen.to_yaml(t) for t in left], "right_text": [gen.to_yaml(t) for t in right],
         "specs": [target_specs(t) for t in left]}
    _POOLS["p"] = p
    return p


def mk_case(p, li, si, ri, pol, rules=None):
    spec = p["specs"][li][si]
    c = {"lhs": p["left_text"][li], "rhs": p["right_text"][ri], "args": dict(pol)}
    c.update(spec)
    if rules:
        c["rules"] = rules
    return c


def _sig(case, res):
    lt = plain_of(case["lhs"])
    tcls = sorted({c05.shape_class(S.get_at(lt, t)) for t in _tuples(case.get("targets"))})
    return stable_hash([case["pathkind"], tcls, c05.shape_class(plain_of(case["rhs"])), res["status"],
                        res["expected"][0], res["real"][0], res["cells"], res["liberties"], res["from_code"],
                        bool(case.get("rules"))])


def eval_case(col, case):
    res = judge(case)
    st = res["status"]
    sample = None
    if st == "pass" and len(col.samples) < col.max_samples and col.evaluations % 53 == 0 and case["pathkind"] != "root":
        sample = {"input": case, "result": c05._jsonable(res["real"])}
    col.case(_sig(case, res), sample)
    if st == "pass":
        return
    if st == "from-code":
        col.out_of_scope("from-code-clause-disagrees/" + "+".join(res["from_code"]))
        return
    key, what, minimal = classify(case, res)
    col.witness(key, what, minimal, observed=c05._jsonable(res["real_full"]), expected=c05._jsonable(res["expected"]))


def policies_for(mode, li, ri, seed, k):
    if mode == "axis":
        return AXIS_POLICIES
    if mode == "all":
        return ALL_POLICIES
    rng = random.Random((seed * 1000003 + li * 7919 + ri) & 0xFFFFFFFF)
    return [DEFAULT_POLICY] + rng.sample(ALL_POLICIES, k)


def work(chunk, seed, polmode, k, with_rules):
    p = pools()
    col = Collector()
    t0 = time.process_time()
    for li, ri in chunk:
        rt = p["right"][ri]
        for si, spec in enumerate(p["specs"][li]):
            if spec["pathkind"] == "root" and (li + ri) % 5:
                continue          # the root path is C05's subject; keep a fifth as a control
            for pol in policies_for(polmode, li, ri, seed, k):
                eval_case(col, mk_case(p, li, si, ri, pol))
            if (with_rules and len(spec["targets"]) == 1 and spec["mergeat"] != "/"
                    and S.kind(S.get_at(p["left"][li], tuple(spec["targets"][0]))) == S.kind(rt)):
                # one [rules] entry that names the merge point itself (right-hand root after prefix stripping); only where
                # target and right-hand document have the same kind, so the mode is a valid one for the ladder consulted
                for m in c05.RULE_MODES.get(c05.shape_class(rt), ()):
                    for pol in ({}, c05.CONTRARY):
                        eval_case(col, mk_case(p, li, si, ri, pol, {spec["mergeat"]: m}))
            if with_rules and len(spec["targets"]) == 1 and isinstance(rt, dict):
                # one [rules] entry, written in left coordinates below the merge point
                for cp, cls in c05.container_paths(rt, through_lists=False):
                    for m in c05.RULE_MODES.get(cls, ()):
                        rule = {spec["mergeat"].rstrip("/") + path_text(cp): m}
                        for pol in ({}, c05.CONTRARY):
                            eval_case(col, mk_case(p, li, si, ri, pol, rule))
    return col.result(internal=True, cpu_s=time.process_time() - t0)


def hand_rule_cases():
    """[rules] entries that name nodes OUTSIDE the merge point: they must not govern anything below it."""
    out = []
    base = {"args": {}, "mergeat": "/a", "targets": [["a"]], "create": None, "pathkind": "existing-single"}
    for lhs, rhs, rules in (
            ("{a: {b: [1]}, ab: {b: [1]}}", "{b: [2]}", {"/ab": "left"}),              # /a is no prefix of /ab
            ("{a: {b: [1]}, ab: {b: [1]}}", "{b: [2]}", {"/ab": "right"}),
            ("{a: {b: {x: 1}}, ab: 2}", "{b: {x: 2}}", {"/ab": "left"}),
            ("{a: {b: [1]}, b: [1]}", "{b: [2]}", {"/b": "left"}),                     # a top-level node with the same name
            ("{a: {b: [1]}, c: {b: [1]}}", "{c: {b: [2]}}", {"/c/b": "left"}),
            ("{a: {b: [1]}, ab: {b: [1]}}", "{b: [2]}", {"/a/b": "left"}),             # control: a rule below the merge point
    ):
        out.append(dict(base, lhs=lhs, rhs=rhs, rules=rules))
    return out


def run(tier="quick", seed=0, jobs=None):
    p = pools()
    for t, text in zip(p["left"] + p["right"], p["left_text"] + p["right_text"]):
        if not S.veq(plain(gen.load(text)), t):
            raise AssertionError("generator/loader mismatch for %r" % (text,))
    nl, nr = len(p["left"]), len(p["right"])
    rng = random.Random(seed)
    cur_l = list(range(nl - len(curated_left()), nl))
    cur_r = list(range(nr - len(curated_right()), nr))
    if tier == "smoke":
        small = [i for i, t in enumerate(p["left"]) if gen.size(t) <= 2]
        ls = sorted(set(rng.sample(range(nl), 30) + cur_l + small))
        rs = sorted(set(rng.sample(range(nr), 8) + cur_r))
        stages = [("smoke", [(l, r) for l in ls for r in rs], ("sample", 2, True))]
        exhaustive = False
    elif tier == "quick":
        small = [i for i, t in enumerate(p["left"]) if gen.size(t) <= 2]      # every root kind, incl. the empty document
        ls = sorted(set(rng.sample(range(nl), 120) + cur_l + small))
        rs = sorted(set(rng.sample(range(nr), 28) + cur_r))
        stages = [("sampled left x sampled right x every generated path x (default + 3 sampled of 180)",
                   [(l, r) for l in ls for r in rs], ("sample", 3, True)),
                  ("curated left x curated right x every path x all 180", [(l, r) for l in cur_l for r in cur_r], ("all", 0, True))]
        exhaustive = False
    else:
        stages = [("every left x every right x every generated path x 12 axis policies",
                   [(l, r) for l in range(nl) for r in range(nr)], ("axis", 0, False)),
                  ("sampled left x every right x every path x (default + 8 sampled of 180), with [rules]",
                   [(l, r) for l in sorted(set(rng.sample(range(nl), 200) + cur_l)) for r in range(nr)], ("sample", 8, True)),
                  ("curated left x curated right x every path x all 180", [(l, r) for l in cur_l for r in cur_r], ("all", 0, True))]
        exhaustive = True
    col = Collector()
    info = []
    for name, items, extra in stages:
        before, cpu = col.evaluations, 0.0
        for r in pmap_chunks(work, items, jobs=jobs, chunk=max(10, len(items) // 200 or 1), extra=(seed,) + extra):
            col.merge(r)
            cpu += r["cpu_s"]
        info.append({"stage": name, "pairs": len(items), "cases": col.evaluations - before, "cpu_s": round(cpu, 1)})
    for case in hand_rule_cases():
        eval_case(col, case)
    kinds = sorted({s["pathkind"] for specs in p["specs"] for s in specs})
    bounds = {
        "left": "rtc.gen.trees(4, 3, keys=(a,b), scalars=(null,1,'a')) = %d documents + %d curated" % (nl - len(cur_l), len(cur_l)),
        "right": "rtc.gen.trees(3, 2, keys=(a,b), scalars=(null,1,'a')) = %d documents + %d curated (every root kind, empty, null)" % (nr - len(cur_r), len(cur_r)),
        "paths": "per left document: / ; /k ; /k/kk ; /* and /k/* (Hash parents) ; /k[0], /[0] ; /k[a=V], /[a=V] over AoHs whose records all "
                 "have `a` ; /zz, /zz/yy, /k/zz missing ; /k/zz below a scalar or an Array, [a=zz] (not creatable)",
        "path kinds": kinds,
        "policies": "quick: default + sampled of the 180; thorough: 12 axis policies on everything, sampled/all 180 on parts",
        "rules": "one [rules] entry on a right-hand container, written below the merge point or naming the merge point itself, single-target paths; "
                 "%d hand cases with a rule naming a node outside the merge point (a sibling whose name extends the target's, a node elsewhere)" % (len(hand_rule_cases()) - 1),
        "stages": info, "tier": tier, "seed": seed,
    }
    rule = ("merge_with under args.mergeat raises only MergeException/YAMLPathException; the result equals the left document with "
            "every named node replaced by spec_merge(old content, rhs) (a missing creatable path holds rhs); the complement of the "
            "matched subtrees equals the snapshot; an unmatched, uncreatable path raises and leaves merger.data unchanged")
    cpu = round(sum(s["cpu_s"] for s in info), 1)
    return col.result(rule=rule, exhaustive=exhaustive, bounds=bounds, cpu_s=cpu,
                      note="cpu_s = summed worker CPU time; about cpu_s/16 wall seconds on 16 idle cores")


def replay(inp):
    real = run_real(inp, fresh=True)
    res = judge(inp, real=real)
    if res["status"] in ("pass", "from-code"):
        return None
    key, what, minimal = classify(inp, res)
    return {"key": key, "what": what, "inputs": [inp], "observed": c05._jsonable(res["real_full"]),
            "expected": c05._jsonable(res["expected"]), "count": 1}


if __name__ == "__main__":
    c05.main(sys.argv, sys.modules[__name__])
