"""C10 bounded stand-in: anchor conflicts in a merge follow the chosen policy and the result reloads.

Real functions under test: `yamlpath.merger.Merger(logger, lhs, MergerConfig(logger, args)).merge_with(rhs)`
on documents loaded with yamlpath's own round-trip editor, then `Parsers.get_yaml_editor().dump()` and the
strict loader `Parsers.get_yaml_data(..., literal=True)` (ReusedAnchorWarning -> failure).

Contract (property statement + AnchorConflictResolutions docstring + yaml-merge --help)
  Both documents define SCALAR anchors (name pool below).  conflicts = names defined in both documents with
  different values.
    stop    conflicts != {}  -> MergeException;            no conflict -> the merge is accepted
    left    every use (definition site and aliases: "overrides all other uses") of a conflicting name in the
            result reads the LEFT value
    right   ... reads the RIGHT value
    rename  both values are kept: left uses read the left value, right uses read the right value; the
            right-hand anchor gets a new name (the left one keeps its name), consistently
    equal-name/equal-value and disjoint names are never a conflict (never refused, under any policy)
  Expected data = MERGE(resolve(lhs, env_l), resolve(rhs, env_r), hashes, arrays) where resolve turns
  every definition/alias into the value its name has under the policy, and MERGE is the plain-data
  merge of the option docstrings (hash DEEP/LEFT/RIGHT, array ALL/LEFT/RIGHT/UNIQUE, right scalars override):
  spec.merge.spec_outcomes (every reading its documented liberties admit) when /verif/spec/merge.py is
  importable, cross-checked on every case against the local 30-line model_merge (a disagreement of the two
  oracles raises = harness bug); the local model alone otherwise.
  Map key ORDER is not compared here (that is C05); only data.
  In every accepted case: dump works; the text has no anchor defined twice and no alias without an earlier
  definition; the strict reload succeeds and plain(reload) == plain(Merger.data).
  Any exception other than MergeException out of merge_with / dump is a witness.

  from-code clause (documentation silent): array UNIQUE with duplicates INSIDE the right-hand array that are
  not in the left one ("only unique RHS elements are appended"): both `lhs + [e for e in rhs if e not in
  lhs]` (the code) and the additionally de-duplicated variant are accepted.

Input space
  E. complete enumeration: SHAPES (templates with slots) x every valid filling of the slots with the leaf
     tokens {1, 2, &x 1, &x 2, &y 1, &y 2, *x, *y} (an alias only after its definition, every name defined
     at most once => 0..2 anchors per document), all pairs of documents of the same root kind, x style
     pairs (block/block, flow/flow [, mixed]) x 4 anchor policies x MERGE_POLICIES.  See TIERS.
  R. seeded random bigger documents (nested maps to depth 3, scalar lists, lists of records, up to 3 anchors from
     {x, y, x_1} -- x_1 is the name `rename` would pick for x --, values {1, 2, 3, p, q}, several aliases per
     anchor, independent or structure-sharing pairs, random styles) x 4 anchor policies x 2 random merge policies.
  Generated documents never clash structurally (a key name determines the kind of its value; lists hold
  only scalars or only records and are never empty; record lists merge with the default aoh=all = append),
  so a MergeException can only come from the anchor policy.

Witness keys
  C10/crash/<Exc>@<file>:<function>            merge_with raised something that is not a MergeException
  C10/stop/accepted-a-conflict                 stop did not refuse
  C10/refused-without-conflict/<policy>/<relation>   MergeException although no conflict (or policy != stop)
  C10/data/<policy>/<relation>                 Merger.data differs from the expected data.  relation = strongest
                                               relation of the two anchor sets (conflict | equal | no-shared-name)
  C10/rename/<what>                            naming clause of rename broken on the merged object graph
  C10/dump-crash/<Exc>@<file>:<function>
  C10/dump/duplicate-anchor/<name class>[/<policy>], C10/dump/undefined-alias/<name class>[/<policy>]
                                               text-level check; name class of the offending anchor = conflict-name |
                                               equal-name (policy omitted) | unshared-name | new-name
  C10/reload-fails/<message class>/<relation>/<policy>   strict loader rejects the dumped text for a reason the text
                                               scan did not already report
  C10/reload-differs/<relation>/<policy>       reload gives other data than the merge computed
"""
import io
import itertools
import json
import os
import random
import re
import sys
import traceback
from types import SimpleNamespace

import yamlpath
from yamlpath.common import Parsers
from yamlpath.merger import Merger, MergerConfig
from yamlpath.merger.exceptions import MergeException

from rtc import gen, harness

try:                                    # the shared documented-policy oracle (plain data), if present
    from spec import merge as _spec
except ImportError:                     # pragma: no cover
    _spec = None

PKG_DIR = os.path.dirname(os.path.abspath(yamlpath.__file__))

ANCHOR_POLICIES = ("stop", "left", "right", "rename")
# (hashes, arrays)
MERGE_POLICIES = (("deep", "all"), ("deep", "unique"), ("left", "all"), ("right", "all"),
                  ("deep", "left"), ("deep", "right"))

LITS = ("1", "2")
DEFS = ("&x 1", "&x 2", "&y 1", "&y 2")
ALIASES = ("*x", "*y")

# ----------------------------------------------------------------------------------------------
# templates: dict -> map, list -> seq, str -> leaf token in YAML source form ("1", "&x 1", "*x", "p")
SLOT = "_"

SHAPES_MAP2 = (
    {"a": SLOT, "b": SLOT},
    {"b": SLOT, "c": SLOT},
    {"s": [SLOT], "b": SLOT},
    {"a": SLOT, "s": [SLOT]},
    {"s": [SLOT, SLOT]},
    {"m": {"a": SLOT}, "a": SLOT},
)
# a sequence that is directly an element of another sequence (anchor replacement has its own arm for it)
SHAPES_NESTED = (
    {"a": SLOT, "s": [[SLOT]]},
    {"s": [[SLOT], SLOT]},
)
SHAPES_SEQ2 = ([SLOT, SLOT],)
SHAPES_MAP3 = (
    {"a": SLOT, "b": SLOT, "s": [SLOT]},
    {"s": [SLOT], "b": SLOT, "c": SLOT},
)
SHAPES_SEQ3 = ([SLOT, SLOT, SLOT],)
SHAPES_MAP4 = (
    {"a": SLOT, "b": SLOT, "s": [SLOT, SLOT]},
)


def _scal(s):
    if re.fullmatch(r"-?\d+", s):
        return int(s)
    if s in ("true", "false"):
        return s == "true"
    if re.fullmatch(r"-?\d+\.\d+", s):
        return float(s)
    if s == "''":
        return ""
    return s


def leaf(tok):
    """token -> (kind, anchor name, literal value)"""
    if tok.startswith("&"):
        name, val = tok[1:].split(" ", 1)
        return ("def", name, _scal(val))
    if tok.startswith("*"):
        return ("ali", tok[1:], None)
    return ("lit", None, _scal(tok))


def leaves(t):
    if isinstance(t, dict):
        for v in t.values():
            yield from leaves(v)
    elif isinstance(t, list):
        for v in t:
            yield from leaves(v)
    else:
        yield t


def fill(shape, toks):
    it = iter(toks)

    def rec(t):
        if isinstance(t, dict):
            return {k: rec(v) for k, v in t.items()}
        if isinstance(t, list):
            return [rec(v) for v in t]
        return next(it)
    out = rec(shape)
    assert next(it, None) is None
    return out


def n_slots(shape):
    return sum(1 for _ in leaves(shape))


def fillings(n, lits=LITS, anchors_only=False):
    """Every valid token sequence of length n (alias after its definition, a name defined once).
    anchors_only: no literal tokens (every slot is a definition or an alias)."""
    pool = (() if anchors_only else tuple(lits)) + DEFS + ALIASES
    out = []

    def rec(prefix, defined):
        if len(prefix) == n:
            out.append(tuple(prefix))
            return
        for tok in pool:
            kind, name, _ = leaf(tok)
            if kind == "def" and name in defined:
                continue
            if kind == "ali" and name not in defined:
                continue
            rec(prefix + [tok], defined | {name} if kind == "def" else defined)
    rec([], frozenset())
    return out


def anchors_of(t):
    """name -> value, in document order; raises on an invalid template (harness bug)."""
    out = {}
    for tok in leaves(t):
        kind, name, val = leaf(tok)
        if kind == "def":
            if name in out:
                raise ValueError("template defines %s twice: %r" % (name, t))
            out[name] = val
        elif kind == "ali" and name not in out:
            raise ValueError("template aliases %s before its definition: %r" % (name, t))
    return out


def resolve(t, env):
    """Template -> plain data; every definition site and every alias reads env[name]."""
    if isinstance(t, dict):
        return {k: resolve(v, env) for k, v in t.items()}
    if isinstance(t, list):
        return [resolve(v, env) for v in t]
    kind, name, val = leaf(t)
    return val if kind == "lit" else env[name]


# ----------------------------------------------------------------------------------------------
# rendering (independent of ruamel's emitter)
def render_flow(t):
    if isinstance(t, dict):
        return "{" + ", ".join("%s: %s" % (k, render_flow(v)) for k, v in t.items()) + "}"
    if isinstance(t, list):
        return "[" + ", ".join(render_flow(v) for v in t) + "]"
    return t


def _blk(t):
    lines = []
    if isinstance(t, dict):
        for k, v in t.items():
            if isinstance(v, (dict, list)):
                if not v:
                    lines.append("%s: %s" % (k, "{}" if isinstance(v, dict) else "[]"))
                else:
                    lines.append("%s:" % k)
                    lines.extend("  " + ln for ln in _blk(v))
            else:
                lines.append("%s: %s" % (k, v))
    else:
        for v in t:
            if isinstance(v, (dict, list)):
                if not v:
                    lines.append("- %s" % ("{}" if isinstance(v, dict) else "[]"))
                else:
                    sub = _blk(v)
                    lines.append("- " + sub[0])
                    lines.extend("  " + ln for ln in sub[1:])
            else:
                lines.append("- %s" % v)
    return lines


def render(t, style):
    if style == "flow" or not t:
        return render_flow(t) + "\n"
    return "\n".join(_blk(t)) + "\n"


# ----------------------------------------------------------------------------------------------
# the model
class ModelClash(Exception):
    pass


def model_merge(l, r, hashes, arrays, dedupe_rhs=False):
    if isinstance(l, dict) and isinstance(r, dict):
        if hashes == "left":
            return l
        if hashes == "right":
            return r
        out = dict(l)
        for k, v in r.items():
            out[k] = model_merge(out[k], v, hashes, arrays, dedupe_rhs) if k in out else v
        return out
    if isinstance(l, list) and isinstance(r, list):
        if not l or not r:
            raise ModelClash("empty list: outside the generated space")
        if isinstance(r[0], dict):
            # Array-of-Hashes, mode ALL (the default; no --aoh option is passed): every RHS record is appended
            return l + r
        if arrays == "left":
            return l
        if arrays == "right":
            return r
        if arrays == "all":
            return l + r
        out = list(l)
        for e in r:
            if e in l:
                continue
            if dedupe_rhs and e in out:     # from-code clause, see module docstring
                continue
            out.append(e)
        return out
    if isinstance(l, (dict, list)) or isinstance(r, (dict, list)):
        raise ModelClash("kind clash: outside the generated space")
    return r


def expectation(lt, rt, anchors, hashes, arrays):
    """-> dict(refuse=bool, accept=[acceptable plain results], conflicts, relation, envs)"""
    al, ar = anchors_of(lt), anchors_of(rt)
    shared = [n for n in ar if n in al]
    conflicts = [n for n in shared if al[n] != ar[n]]
    equal = [n for n in shared if al[n] == ar[n]]
    relation = ("conflict" if conflicts else "") + ("+equal" if equal else "") or (
        "disjoint" if al and ar else "one-sided" if al or ar else "none")
    env_l, env_r = dict(al), dict(ar)
    if anchors == "left":
        for n in conflicts:
            env_r[n] = al[n]
    elif anchors == "right":
        for n in conflicts:
            env_l[n] = ar[n]
    exp = {"refuse": anchors == "stop" and bool(conflicts), "conflicts": conflicts, "equal": equal,
           "relation": relation.lstrip("+"), "al": al, "ar": ar, "accept": []}
    if not exp["refuse"]:
        pl, pr = resolve(lt, env_l), resolve(rt, env_r)
        a1 = model_merge(pl, pr, hashes, arrays, False)
        exp["accept"].append(a1)
        a2 = model_merge(pl, pr, hashes, arrays, True)
        if a2 != a1:
            exp["accept"].append(a2)
        if _spec is not None:
            # spec.merge.spec_outcomes is the oracle of record; the local model must agree with it on the
            # generated space (no kind clashes, no empty lists, no from-code cell) -- else an ORACLE bug: raise
            outs = _spec.spec_outcomes(pl, pr, _spec.SpecConfig(hashes=hashes, arrays=arrays))
            docs = []
            for _libs, out, trace in outs:
                if out[0] != "ok" or any(ev[0] == "from-code" for ev in trace):
                    raise ModelClash("spec.merge leaves the documented space on %r <- %r: %r" % (pl, pr, out))
                if not any(_same(out[1], d) for d in docs):
                    docs.append(out[1])
            if (any(not any(_same(a, d) for d in docs) for a in exp["accept"])
                    or any(not any(_same(a, d) for a in exp["accept"]) for d in docs)):
                raise AssertionError("spec.merge and the local model disagree on %r <- %r (%s/%s): %r vs %r"
                                     % (pl, pr, hashes, arrays, docs, exp["accept"]))
            exp["accept"] = docs
    return exp


def _same(a, b):
    """data equality (map key order ignored): spec.merge.veq when available (type-strict), else =="""
    return _spec.veq(a, b) if _spec is not None else a == b


def _strongest(exp):
    """relation of the two anchor sets reduced to its strongest component"""
    if exp["conflicts"]:
        return "conflict"
    if exp["equal"]:
        return "equal"
    return "no-shared-name"


def _name_class(name, exp):
    if name in exp["conflicts"]:
        return "conflict-name"
    if name in exp["equal"]:
        return "equal-name"
    if name in exp["al"] or name in exp["ar"]:
        return "unshared-name"
    return "new-name"


# ----------------------------------------------------------------------------------------------
# observation
_LOG = None
_EDITOR = None
_RELOAD_CACHE = {}


def _logger():
    global _LOG
    if _LOG is None:
        _LOG = gen.quiet_logger()
    return _LOG


def _editor():
    global _EDITOR
    if _EDITOR is None:
        _EDITOR = Parsers.get_yaml_editor()
    return _EDITOR


def _frame(tb):
    inner = None
    for fs in traceback.extract_tb(tb):
        fn = os.path.abspath(fs.filename)
        if fn.startswith(PKG_DIR + os.sep):
            inner = "%s:%s" % (os.path.relpath(fn, PKG_DIR), fs.name)
    return inner


_ANCHOR_TOK = re.compile(r"(?:^|(?<=[\s\[{,]))([&*])([A-Za-z0-9_]+)", re.M)


def text_anchor_faults(text):
    """(duplicates, undefined) by a token scan of the dumped text (values are ints / bare words only)."""
    seen, dup, undef = set(), [], []
    for sigil, name in _ANCHOR_TOK.findall(text):
        if sigil == "&":
            if name in seen:
                dup.append(name)
            seen.add(name)
        elif name not in seen:
            undef.append(name)
    return dup, undef


def graph_anchors(node, out=None, seen=None):
    """anchor name -> list of (id(node), plain value) of the distinct scalar nodes carrying that name."""
    if out is None:
        out, seen = {}, set()
    if isinstance(node, dict):
        for v in node.values():
            graph_anchors(v, out, seen)
    elif isinstance(node, list):
        for v in node:
            graph_anchors(v, out, seen)
    else:
        anc = getattr(node, "anchor", None)
        name = getattr(anc, "value", None)
        if name and id(node) not in seen:
            seen.add(id(node))
            out.setdefault(str(name), []).append(gen.plain(node))
    return out


def _strict_reload(text):
    """Parsers.get_yaml_data on the dumped text.  A failure is confirmed with a brand-new editor and the
    shared one is dropped: after a failed load ruamel's composer keeps its anchor table, the next load with
    the same YAML() object would report phantom duplicate anchors (not this property's business)."""
    global _EDITOR
    hit = _RELOAD_CACHE.get(text)
    if hit is None:
        log = gen.QuietLog()
        data, ok = Parsers.get_yaml_data(_editor(), log, text, literal=True)
        if not ok:
            _EDITOR = None
            log = gen.QuietLog()
            data, ok = Parsers.get_yaml_data(Parsers.get_yaml_editor(), log, text, literal=True)
        hit = (ok, gen.plain(data) if ok else None, "; ".join(m for _, m in log.msgs))
        if len(_RELOAD_CACHE) < 200000:
            _RELOAD_CACHE[text] = hit
    return hit


def _msg_class(msg):
    m = msg.lower()
    if "duplicate yaml anchor" in m:
        return "duplicate-anchor"
    if "undefined alias" in m:
        return "undefined-alias"
    if "composition error" in m:
        return "composition-error"
    if "duplicate hash key" in m:
        return "duplicate-key"
    return "other"


def evaluate(inp):
    """Run ONE case.  Returns dict(fails=[(key, what, observed, expected)], sig, sample)."""
    lt, rt = inp["lhs"], inp["rhs"]
    sl, sr = inp.get("styles", ["block", "block"])
    anchors, hashes, arrays = inp["anchors"], inp["hashes"], inp["arrays"]
    ltext, rtext = render(lt, sl), render(rt, sr)
    exp = expectation(lt, rt, anchors, hashes, arrays)
    fails = []
    ctx = {"lhs_yaml": ltext, "rhs_yaml": rtext}

    ldata, rdata = gen.load(ltext), gen.load(rtext)       # ValueError = generator bug -> raises
    # the loader itself must agree with the model about what the inputs mean (else harness bug)
    if gen.plain(ldata) != resolve(lt, exp["al"]) or gen.plain(rdata) != resolve(rt, exp["ar"]):
        raise AssertionError("renderer/model disagree with the loader on %r / %r" % (ltext, rtext))

    log = _logger()
    merger = Merger(log, ldata, MergerConfig(log, SimpleNamespace(anchors=anchors, hashes=hashes, arrays=arrays)))
    outcome = "accepted"
    try:
        merger.merge_with(rdata)
    except MergeException as ex:
        outcome = "refused"
        refusal = str(ex)
    except (Exception, SystemExit) as ex:      # noqa: BLE001
        fr = _frame(sys.exc_info()[2])
        if fr is None:
            raise
        fails.append(("C10/crash/%s@%s" % (type(ex).__name__, fr),
                      "merge_with raised a non-MergeException",
                      "%s: %s" % (type(ex).__name__, str(ex)[:160]),
                      "MergeException" if exp["refuse"] else "accepted merge"))
        return {"fails": fails, "sig": _sig(inp, exp, "crash", 0, 0), "ctx": ctx, "outcome": "crash",
                "relation": exp["relation"]}

    if outcome == "refused":
        if not exp["refuse"]:
            fails.append(("C10/refused-without-conflict/%s/%s" % (anchors, _strongest(exp)),
                          "merge refused although the anchor policy must accept it",
                          "MergeException: " + refusal[:160], "accepted merge: %r" % (exp["accept"][0],)))
        return {"fails": fails, "sig": _sig(inp, exp, "refused", 0, 0), "ctx": ctx, "outcome": "refused",
                "relation": exp["relation"]}

    if exp["refuse"]:
        fails.append(("C10/stop/accepted-a-conflict", "policy stop accepted a merge with conflicting anchors %s"
                      % exp["conflicts"], "result %r" % (gen.plain(merger.data),), "MergeException"))
        return {"fails": fails, "sig": _sig(inp, exp, "accepted", 0, 0), "ctx": ctx, "outcome": "accepted",
                "relation": exp["relation"]}

    got = gen.plain(merger.data)
    if not any(_same(got, d) for d in exp["accept"]):
        fails.append(("C10/data/%s/%s" % (anchors, _strongest(exp)),
                      "merged data differs from the policy-defined result (relation %s, hashes=%s arrays=%s)"
                      % (exp["relation"], hashes, arrays), repr(got), repr(exp["accept"][0])))

    # naming clause of rename / no invented names, on the merged object graph
    ganch = graph_anchors(merger.data)
    orig = set(exp["al"]) | set(exp["ar"])
    fresh = sorted(n for n in ganch if n not in orig)
    if anchors == "rename":
        for n in exp["conflicts"]:
            vals = ganch.get(n, [])
            if any(v != exp["al"][n] for v in vals):
                fails.append(("C10/rename/left-name-carries-other-value",
                              "after rename the original anchor name must still be the LEFT anchor",
                              "&%s -> %r" % (n, vals), "&%s -> %r" % (n, exp["al"][n])))
        right_vals = [exp["ar"][n] for n in exp["conflicts"]]
        if len(fresh) > len(exp["conflicts"]) or any(v not in right_vals for n in fresh for v in ganch[n]):
            fails.append(("C10/rename/unexpected-new-names", "new anchor names that are not renamed right-hand conflicts",
                          repr({n: ganch[n] for n in fresh}), "at most %d new names holding %r"
                          % (len(exp["conflicts"]), right_vals)))
    elif fresh:
        fails.append(("C10/%s/invented-anchor-names" % anchors, "anchor names of neither document appear",
                      repr(fresh), "subset of %r" % sorted(orig)))

    # serialization
    buf = io.StringIO()
    try:
        _editor().dump(merger.data, buf)
    except Exception as ex:      # noqa: BLE001
        tb = sys.exc_info()[2]
        last = traceback.extract_tb(tb)[-1]
        fails.append(("C10/dump-crash/%s@%s:%s" % (type(ex).__name__, os.path.basename(last.filename), last.name),
                      "dumping the merged document raised", "%s: %s" % (type(ex).__name__, str(ex)[:160]),
                      "YAML text"))
        return {"fails": fails, "sig": _sig(inp, exp, "dump-crash", len(ganch), len(fresh)), "ctx": ctx,
                "outcome": "dump-crash", "relation": exp["relation"]}
    text = buf.getvalue()
    ctx["dumped"] = text
    dup, undef = text_anchor_faults(text)

    def _cls(names):
        c = sorted({_name_class(n, exp) for n in names})[0]
        return c if c == "equal-name" else "%s/%s" % (c, anchors)
    if dup:
        fails.append(("C10/dump/duplicate-anchor/" + _cls(dup), "the dumped result defines anchor %s twice"
                      % ", ".join(sorted(set(dup))), text, "every anchor defined once"))
    if undef:
        fails.append(("C10/dump/undefined-alias/" + _cls(undef), "the dumped result uses alias %s before/without "
                      "its definition" % ", ".join(sorted(set(undef))), text, "every alias defined earlier"))
    ok, redata, msg = _strict_reload(text)
    if not ok:
        mc = _msg_class(msg)
        # a duplicate/undefined anchor already reported from the text scan is the same fault: one witness
        if not ((mc == "duplicate-anchor" and dup) or (mc in ("undefined-alias", "composition-error") and undef)):
            fails.append(("C10/reload-fails/%s/%s/%s" % (mc, _strongest(exp), anchors),
                          "the strict loader rejects the dumped result", "%s | %r" % (msg[:200], text),
                          "reloads to %r" % (got,)))
    elif not _same(redata, got):
        fails.append(("C10/reload-differs/%s/%s" % (_strongest(exp), anchors),
                      "reloading the dump gives other data than the merge computed",
                      "%r from %r" % (redata, text), repr(got)))
    return {"fails": fails, "sig": _sig(inp, exp, "accepted", len(ganch), len(fresh)), "ctx": ctx,
            "outcome": "accepted", "relation": exp["relation"]}


def _sites(t, path_kind="root"):
    """sorted multiset of (token kind, container kind) -- where definitions / aliases sit"""
    out = []

    def rec(n, where):
        if isinstance(n, dict):
            for v in n.values():
                rec(v, "key")
        elif isinstance(n, list):
            for v in n:
                rec(v, "seq")
        else:
            k = leaf(n)[0]
            if k != "lit":
                out.append(k + "@" + where)
    rec(t, path_kind)
    return sorted(out)


def _sig(inp, exp, outcome, n_anchors, n_fresh):
    if not exp["al"] and not exp["ar"]:
        return None                     # no anchor anywhere: trivial for this property
    return harness.stable_hash([exp["relation"], _sites(inp["lhs"]), _sites(inp["rhs"]),
                                sorted(set(inp["lhs"]) & set(inp["rhs"])) if isinstance(inp["lhs"], dict) else "seq",
                                inp["anchors"], inp["hashes"], inp["arrays"], inp.get("styles"),
                                outcome, n_anchors, n_fresh])


# ----------------------------------------------------------------------------------------------
# workers
def _record(coll, inp, res):
    seen = set()
    for key, what, observed, expected in res["fails"]:
        if key in seen:
            continue
        seen.add(key)
        full = dict(inp)
        full.update(res["ctx"])
        coll.witness(key, what, full, observed, expected)


def _work(chunk, policies):
    """chunk: list of (lhs template, rhs template, (style_l, style_r), policies or None)."""
    coll = harness.Collector()
    n = 0
    for lt, rt, styles, pols in chunk:
        for anchors, (hashes, arrays) in (pols or policies):
            inp = {"lhs": lt, "rhs": rt, "styles": list(styles), "anchors": anchors, "hashes": hashes,
                   "arrays": arrays}
            res = evaluate(inp)
            n += 1
            sample = None
            if res["sig"] is not None and not coll.samples and n % 7 == 3 and "conflict" in res["relation"]:
                sample = {"lhs": res["ctx"]["lhs_yaml"], "rhs": res["ctx"]["rhs_yaml"], "anchors": anchors,
                          "hashes": hashes, "arrays": arrays, "relation": res["relation"],
                          "outcome": res["outcome"], "dumped": res["ctx"].get("dumped")}
            coll.case(res["sig"], sample)
            if res["fails"]:
                _record(coll, inp, res)
    return coll.result(internal=True)


# ----------------------------------------------------------------------------------------------
# input spaces
def enum_docs(shapes, fills_by_n):
    out = []
    for sh in shapes:
        for toks in fills_by_n[n_slots(sh)]:
            out.append(fill(sh, toks))
    return out


def _two_anchor_fillings(n):
    """fillings without literals in which every slot is a definition or an alias"""
    return fillings(n, anchors_only=True)


def _four_slot_fillings():
    """2 definitions + 2 aliases, each anchor aliased exactly once"""
    return [f for f in fillings(4, anchors_only=True)
            if sorted(leaf(t)[0] for t in f) == ["ali", "ali", "def", "def"]
            and len({leaf(t)[1] for t in f if leaf(t)[0] == "ali"}) == 2]


TIERS = {
    # map shapes, seq shapes, literals of the 2-slot fillings, extra (3/4-slot) shapes, style pairs, merge policies, random pairs
    "quick": dict(map2=SHAPES_MAP2[:3] + SHAPES_NESTED, seq2=SHAPES_SEQ2, lits=("1",), extra=False,
                  styles=(("block", "block"), ("flow", "flow")), merge_policies=MERGE_POLICIES[:4], nrandom=3000),
    "thorough": dict(map2=SHAPES_MAP2 + SHAPES_NESTED, seq2=SHAPES_SEQ2, lits=LITS, extra=True,
                     styles=(("block", "block"), ("flow", "flow")), merge_policies=MERGE_POLICIES, nrandom=40000),
}

R_NAMES = ("x", "y", "x_1")
R_VALUES = ("1", "2", "3", "p", "q")
R_SCALAR_KEYS = ("a", "b", "c", "d")
R_LIST_KEYS = ("s", "t")
R_MAP_KEYS = ("m", "k")
R_AOH_KEY = "r"          # list of 1..2 records (maps of scalars); merged with the default aoh=all (append)


def _random_shape(rng, root):
    if root == "seq":
        return [SLOT] * rng.randint(1, 5)

    def rmap(depth):
        keys = [k for k in R_SCALAR_KEYS if rng.random() < 0.5]
        keys += [k for k in R_LIST_KEYS if rng.random() < 0.4]
        if depth < 2:
            keys += [k for k in R_MAP_KEYS if rng.random() < 0.35]
        if rng.random() < 0.15:
            keys.append(R_AOH_KEY)
        if not keys:
            keys = [rng.choice(R_SCALAR_KEYS)]
        rng.shuffle(keys)
        out = {}
        for k in keys:
            if k in R_SCALAR_KEYS:
                out[k] = SLOT
            elif k == R_AOH_KEY:
                out[k] = [{kk: SLOT for kk in rng.sample(("a", "b"), rng.randint(1, 2))}
                          for _ in range(rng.randint(1, 2))]
            elif k in R_LIST_KEYS:
                out[k] = [SLOT] * rng.randint(1, 3)
            else:
                out[k] = rmap(depth + 1)
        return out
    return rmap(0)


def _random_fill(rng, shape):
    n = n_slots(shape)
    k = min(n, rng.choice((0, 1, 1, 2, 2, 2, 3)))
    names = rng.sample(R_NAMES, k)
    def_pos = dict(zip(sorted(rng.sample(range(n), k)), names))
    p_alias = rng.choice((0.2, 0.5, 0.8))
    toks, defined = [], []
    for i in range(n):
        if i in def_pos:
            toks.append("&%s %s" % (def_pos[i], rng.choice(R_VALUES[:3] if rng.random() < 0.8 else R_VALUES)))
            defined.append(def_pos[i])
        elif defined and rng.random() < p_alias:
            toks.append("*" + rng.choice(defined))
        else:
            toks.append(rng.choice(R_VALUES))
    return fill(shape, toks)


def random_pairs(seed, count):
    rng = random.Random("c10:%d" % seed)
    items = []
    for _ in range(count):
        root = "seq" if rng.random() < 0.15 else "map"
        lshape = _random_shape(rng, root)
        rshape = lshape if rng.random() < 0.3 else _random_shape(rng, root)
        lt, rt = _random_fill(rng, lshape), _random_fill(rng, rshape)
        styles = (rng.choice(("block", "flow")), rng.choice(("block", "flow")))
        mps = rng.sample(MERGE_POLICIES, 2)
        pols = [(a, mp) for a in ANCHOR_POLICIES for mp in mps]
        items.append((lt, rt, styles, pols))
    return items


def enumerated_pairs(cfg):
    f2 = fillings(2, cfg["lits"])
    fills_by_n = {2: f2}
    map_docs = enum_docs(cfg["map2"], fills_by_n)
    seq_docs = enum_docs(cfg["seq2"], fills_by_n)
    n_extra = 0
    if cfg["extra"]:
        ex = {3: _two_anchor_fillings(3), 4: _four_slot_fillings()}
        m_extra = enum_docs(SHAPES_MAP3 + SHAPES_MAP4, ex)
        s_extra = enum_docs(SHAPES_SEQ3, ex)
        n_extra = len(m_extra) + len(s_extra)
        map_docs += m_extra
        seq_docs += s_extra
    items = []
    for docs in (map_docs, seq_docs):
        for lt, rt in itertools.product(docs, docs):
            for st in cfg["styles"]:
                items.append((lt, rt, st, None))
    return items, {"map_docs": len(map_docs), "seq_docs": len(seq_docs), "fillings_2_slots": len(f2),
                   "extra_docs_3_4_slots": n_extra}


def falsy_value_pairs():
    """Anchored scalars whose VALUE is falsy (false, '', 0.0), defined and aliased only inside sequences -- and, as a
    control, under a mapping key: a conflict is a conflict whatever the values are."""
    items = []
    for v1, v2 in (("false", "true"), ("''", "p"), ("0.0", "1.5"), ("true", "false"), ("false", "false")):
        d1, d2 = "&x " + v1, "&x " + v2
        for lt, rt in (
                ({"s": [d1, "*x"]}, {"t": [d2, "*x"]}),
                ({"s": [d1], "t": ["*x"]}, {"s": [d2]}),
                ([d1, "*x"], [d2, "*x"]),
                ({"s": [[d1], "*x"]}, {"s": [[d2]]}),
                ({"a": d1, "s": ["*x"]}, {"b": d2, "s": ["*x"]}),
        ):
            for st in (("block", "block"), ("flow", "flow")):
                items.append((lt, rt, st, None))
    return items


# anchored CONTAINERS defined and aliased only inside sequences (the token model above has scalar leaves only): raw YAML,
# expectation written out per policy: (lhs, rhs, conflict?, {policy: plain merged data under hashes=deep, arrays=all})
_A1, _A2 = {"a": 1}, {"a": 2}
CONTAINER_CASES = [
    ("- &m {a: 1}\n- *m\n", "- &m {a: 2}\n- *m\n", True,
     {"left": [_A1, _A1, _A1, _A1], "right": [_A2, _A2, _A2, _A2], "rename": [_A1, _A1, _A2, _A2]}),
    ("s: [&m {a: 1}, *m]\n", "t: [&m {a: 2}, *m]\n", True,
     {"left": {"s": [_A1, _A1], "t": [_A1, _A1]}, "right": {"s": [_A2, _A2], "t": [_A2, _A2]}, "rename": {"s": [_A1, _A1], "t": [_A2, _A2]}}),
    ("s: [&m [1], *m]\n", "t: [&m [2], *m]\n", True,
     {"left": {"s": [[1], [1]], "t": [[1], [1]]}, "right": {"s": [[2], [2]], "t": [[2], [2]]}, "rename": {"s": [[1], [1]], "t": [[2], [2]]}}),
    ("s: [&m {a: 1}, *m]\n", "t: [&m {a: 1}, *m]\n", False,
     {"stop": {"s": [_A1, _A1], "t": [_A1, _A1]}, "left": {"s": [_A1, _A1], "t": [_A1, _A1]}, "right": {"s": [_A1, _A1], "t": [_A1, _A1]},
      "rename": {"s": [_A1, _A1], "t": [_A1, _A1]}}),
]


def container_anchor_cases(coll):
    for ci, (lt, rt, conflict, want) in enumerate(CONTAINER_CASES):
        for pol in ANCHOR_POLICIES:
            inp = {"check": "container-anchors-in-sequences", "lhs_yaml": lt, "rhs_yaml": rt, "anchors": pol}
            log = _logger()
            merger = Merger(log, gen.editor().load(lt), MergerConfig(log, SimpleNamespace(anchors=pol, hashes="deep", arrays="all")))
            outcome, err = "accepted", None
            try:
                merger.merge_with(gen.editor().load(rt))
            except MergeException as ex:
                outcome = "refused"
            except Exception as ex:      # noqa
                outcome, err = "crash", "%s@%s" % (type(ex).__name__, _frame(ex.__traceback__))
            coll.case(("container-anchors", ci, pol, outcome))
            if outcome == "crash":
                coll.witness("C10/container-anchor-in-sequence/crash/%s" % err, "a non-merge exception", inp, err, "a merge or a refusal")
                continue
            if pol == "stop" and conflict:
                if outcome != "refused":
                    coll.witness("C10/container-anchor-in-sequence/stop/accepted-a-conflict",
                                 "stop: the same anchor name holds different containers, the merge goes through", inp, outcome, "MergeException")
                continue
            if outcome == "refused":
                coll.witness("C10/container-anchor-in-sequence/%s/refused" % pol, "a merge this policy defines is refused", inp, outcome, want[pol])
                continue
            buf = io.StringIO()
            try:
                merger.prepare_for_dump(gen.editor(), "")
                gen.editor().dump(merger.data, buf)
                text = buf.getvalue()
                dup, undef = text_anchor_faults(text)
                faults = (["duplicate-anchor"] if dup else []) + (["undefined-alias"] if undef else [])
                back = gen.plain(gen.editor().load(text)) if not faults else None
            except Exception as ex:      # noqa
                text, faults, back = buf.getvalue(), ["dump-or-reload-raises-%s" % type(ex).__name__], None
            if faults:
                coll.witness("C10/container-anchor-in-sequence/%s/dump-%s" % (pol, faults[0]),
                             "the dump of the merged document has an anchor fault", inp, {"faults": faults, "dump": text[:200]}, "a loadable dump")
            elif back != want[pol]:
                coll.witness("C10/container-anchor-in-sequence/%s/data" % pol, "the aliases do not read what the policy says", inp,
                             {"data": back, "dump": text[:200]}, want[pol])


def cli_policy_sources(coll):
    """The anchor policy reaches the merge from the command line OR from the INI file's [defaults] section: yaml-merge with
    `[defaults] anchors = P` (and no --anchors) does what `--anchors=P` does, and --anchors outranks the file."""
    import tempfile
    import shutil
    from rtc import c16
    d = tempfile.mkdtemp(prefix="c10cli-")
    try:
        pairs = (("a: &x 1\nb: *x\n", "c: &x 2\nd: *x\n"), ("a: &x 1\nb: *x\n", "c: &x 1\nd: *x\n"), ("s: [&x 1, *x]\n", "t: [&x 2, *x]\n"))
        for pi, (lt, rt) in enumerate(pairs):
            lf, rf = os.path.join(d, "l%d.yaml" % pi), os.path.join(d, "r%d.yaml" % pi)
            open(lf, "w").write(lt)
            open(rf, "w").write(rt)
            for pol in ANCHOR_POLICIES:
                ini = os.path.join(d, "%s.ini" % pol)
                open(ini, "w").write("[defaults]\nanchors = %s\n" % pol)
                by_cli = c16.run_cli("merge", ["-S", "--anchors=" + pol, lf, rf])
                by_ini = c16.run_cli("merge", ["-S", "-c", ini, lf, rf])
                inp = {"check": "cli-policy-source", "lhs_yaml": lt, "rhs_yaml": rt, "anchors": pol}
                coll.case(("cli-policy", pi, pol, by_cli["code"], by_ini["code"]))
                if (by_cli["code"], by_cli["out"]) != (by_ini["code"], by_ini["out"]):
                    coll.witness("C10/policy-from-ini-defaults-differs-from-the-same-policy-on-the-command-line/%s" % pol,
                                 "yaml-merge with [defaults] anchors = %s in the --config file does not do what --anchors=%s does" % (pol, pol),
                                 inp, observed={"exit": by_ini["code"], "out": by_ini["out"][:200], "err": by_ini["err"][-200:]},
                                 expected={"exit": by_cli["code"], "out": by_cli["out"][:200]})
                # ... and the right-hand document may arrive on STDIN, named with "-" or just waiting there: the policy
                # decides the same way (a refused merge is a refused run: same status, nothing printed)
                for route, argv in (("stdin-dash", ["--anchors=" + pol, lf, "-"]), ("stdin-waiting", ["--anchors=" + pol, lf])):
                    got = c16.run_cli("merge", argv, stdin_text=rt)
                    coll.case(("cli-route", pi, pol, route, got["code"]))
                    if (got["code"], got["out"]) != (by_cli["code"], by_cli["out"]):
                        coll.witness("C10/policy-outcome-differs-when-the-right-document-comes-from-stdin/%s/%s" % (route, pol),
                                     "yaml-merge --anchors=%s LHS with the right-hand document on STDIN (%s) does not end as LHS RHS does" % (pol, route),
                                     dict(inp, check="cli-route", route=route),
                                     observed={"exit": got["code"], "out": got["out"][:200], "err": got["err"][-200:]},
                                     expected={"exit": by_cli["code"], "out": by_cli["out"][:200]})
                for other in ANCHOR_POLICIES:
                    if other == pol:
                        continue
                    both = c16.run_cli("merge", ["-S", "-c", ini, "--anchors=" + other, lf, rf])
                    want = c16.run_cli("merge", ["-S", "--anchors=" + other, lf, rf])
                    if (both["code"], both["out"]) != (want["code"], want["out"]):
                        coll.witness("C10/command-line-policy-does-not-outrank-ini-defaults",
                                     "--anchors=%s together with [defaults] anchors = %s is not --anchors=%s" % (other, pol, other),
                                     dict(inp, cli=other), observed={"exit": both["code"], "out": both["out"][:200]},
                                     expected={"exit": want["code"], "out": want["out"][:200]})
    finally:
        shutil.rmtree(d, ignore_errors=True)


def run(tier="quick", seed=0, jobs=None):
    cfg = TIERS[tier]
    coll = harness.Collector(max_samples=8)
    cli_policy_sources(coll)
    container_anchor_cases(coll)
    policies = [(a, mp) for a in ANCHOR_POLICIES for mp in cfg["merge_policies"]]
    items, counts = enumerated_pairs(cfg)
    items = items + falsy_value_pairs()
    counts["falsy_value_pairs"] = len(falsy_value_pairs())
    samples = []
    for res in harness.pmap_chunks(_work, items, jobs=jobs, chunk=60, extra=(policies,)):
        samples.extend(res.pop("samples"))
        res["samples"] = []
        coll.merge(res)
    n_enum = coll.evaluations
    ritems = random_pairs(seed, cfg["nrandom"])
    rsamples = []
    for res in harness.pmap_chunks(_work, ritems, jobs=jobs, chunk=60, extra=(policies,)):
        rsamples.extend(res.pop("samples"))
        res["samples"] = []
        coll.merge(res)
    # at most one sample per chunk came back; keep a spread over the whole space (6 enumerated + 2 random)
    for pool, k in ((samples, 6), (rsamples, 2)):
        if pool:
            step = max(1, len(pool) // k)
            coll.samples.extend(pool[step // 2::step][:k])
    bounds = {
        "anchor_names": ["x", "y"], "anchor_values": [1, 2], "literals_in_2_slot_fillings": list(cfg["lits"]),
        "shapes_map_2_slots": [render_flow(s) for s in cfg["map2"]],
        "shapes_seq_2_slots": [render_flow(s) for s in cfg["seq2"]],
        "shapes_3_4_slots(no literals)": ([render_flow(s) for s in SHAPES_MAP3 + SHAPES_MAP4 + SHAPES_SEQ3]
                                          if cfg["extra"] else []),
        "anchors_per_document": [0, 2], **counts,
        "pairs": "all pairs of same-root-kind documents", "style_pairs": [list(s) for s in cfg["styles"]],
        "anchor_policies": list(ANCHOR_POLICIES), "merge_policies(hashes,arrays)": [list(m) for m in cfg["merge_policies"]],
        "enumerated_cases": n_enum,
        "random_pairs": cfg["nrandom"], "random_cases": coll.evaluations - n_enum, "seed": seed,
        "random_docs": {"names": list(R_NAMES), "values": list(R_VALUES), "max_anchors": 3, "map_depth": 3,
                        "list_len": [1, 3], "root_seq_len": [1, 5], "record_lists(aoh=all)": [1, 2]},
    }
    rule = ("for every pair of documents (same root kind) built from the listed shapes with every valid filling of the "
            "slots by {%s%s, &x 1, &x 2, &y 1, &y 2, *x, *y} (complete: %d map-rooted and %d sequence-rooted documents), "
            "rendered block/block and flow/flow, under every anchor policy (stop, left, right, rename) x %d (hashes, arrays) "
            "policies, plus %d seeded random pairs of bigger documents: Merger.merge_with refuses exactly the stop+conflict "
            "cases with MergeException, otherwise Merger.data equals merge(resolve-by-policy(lhs), resolve-by-policy(rhs)), "
            "rename leaves the left name on the left value and adds at most one new name per conflict, the dump has no "
            "duplicate/undefined anchor and the strict reload equals Merger.data; no other exception"
            % (", ".join(cfg["lits"]), "", counts["map_docs"], counts["seq_docs"], len(cfg["merge_policies"]),
               cfg["nrandom"]))
    return coll.result(rule=rule, exhaustive=True, bounds=bounds)


def replay(inp):
    """Re-run one witness input natively; the witness dict if it still fails, else None."""
    if inp.get("check") == "container-anchors-in-sequences":
        coll = harness.Collector()
        container_anchor_cases(coll)
        ws = [w for w in coll.witnesses.values() if any(i.get("anchors") == inp.get("anchors") and i.get("lhs_yaml") == inp.get("lhs_yaml") for i in w["inputs"])]
        return ws[0] if ws else None
    if inp.get("check") in ("cli-policy-source", "cli-route"):
        coll = harness.Collector()
        cli_policy_sources(coll)
        ws = [w for w in coll.witnesses.values() if w["key"].endswith("/" + inp["anchors"]) or "outrank" in w["key"]]
        return ws[0] if ws else None
    res = evaluate(inp)
    if "lhs_yaml" in inp and (inp["lhs_yaml"] != res["ctx"]["lhs_yaml"] or inp["rhs_yaml"] != res["ctx"]["rhs_yaml"]):
        raise AssertionError("replay input renders to other YAML text than recorded")
    if not res["fails"]:
        return None
    coll = harness.Collector()
    _record(coll, {k: inp[k] for k in ("lhs", "rhs", "styles", "anchors", "hashes", "arrays") if k in inp}, res)
    ws = list(coll.witnesses.values())
    return ws[0] if len(ws) == 1 else {"key": ws[0]["key"], "all": ws,
                                       **{k: v for k, v in ws[0].items() if k != "key"}}


if __name__ == "__main__":
    a = sys.argv[1:]
    if a and a[0] == "replay":
        print(json.dumps(replay(json.loads(a[1])), indent=1, default=repr))
    else:
        tier_ = a[0] if a else "quick"
        seed_ = int(a[1]) if len(a) > 1 else int(os.environ.get("VERIF_SEED", "0"))
        jobs_ = int(a[2]) if len(a) > 2 else None
        print(json.dumps(run(tier_, seed_, jobs_), indent=1, default=repr))
