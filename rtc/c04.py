"""C04 - a delete removes exactly the matched nodes, whatever their number or position.

Contract (from the property statement; nothing here is copied from processor.py):

  D1  after `list(Processor(log, doc).delete_nodes(path))` the document equals the old
      document minus the matched positions (and everything below them): every other
      key, value, element and their relative order is untouched;
  D2  this holds when several matches live in one sequence, when a match is an empty
      container ([] / {}), a negative index, or when one node is matched more than once;
  D3  a delete whose matches include the document root is refused with a
      YAMLPathException and changes nothing;
  D4  any exception that is not a YAMLPathException is a witness.

"The matched positions" are determined BEFORE the delete by `get_nodes(path,
mustexist=True)` on the very same document: each result's (parent object, parentref) is
located by walking the document (for a slice result the matched nodes are the slice's
elements, i.e. first index + i).  The expected document is computed on plain data by a
rebuild that skips the matched positions - no index arithmetic is shared with the code.

Out of scope (counted, never a witness): get_nodes itself crashing with a non-library
exception (C15), get_nodes changing the document (C09), results whose (parent, parentref)
do not address any place of the document (C02).

This module also holds the helpers shared with rtc.c03 (loading, dumping, canonical
plain data, position finding, the plain-data edit model).
"""
import io
import itertools
import json
import random
import sys
import traceback

from rtc import gen, pathgen
from rtc.harness import Collector, pmap_chunks, stable_hash

PROP = "C04"


# ------------------------------------------------------------------------------------
# shared helpers: real documents
# ------------------------------------------------------------------------------------
class HarnessError(Exception):
    """A bug of the harness (never a verdict)."""


_LOG = None


def logger():
    global _LOG
    if _LOG is None:
        _LOG = gen.quiet_logger()
    return _LOG


def fresh_load(text):
    """(data, None) or (None, error text); a fresh editor per load: a failed load leaves
    ruamel's composer in a state that poisons the next load of a shared editor."""
    from yamlpath.common import Parsers
    log = gen.QuietLog()
    try:
        data, ok = Parsers.get_yaml_data(Parsers.get_yaml_editor(), log, text, literal=True)
    except Exception as ex:  # noqa  (the loader itself crashed on this text: the text is not loadable)
        return None, "loader raised %s: %s" % (type(ex).__name__, ex)
    if not ok:
        return None, "; ".join(m for _, m in log.msgs) or "load failed"
    return data, None


def must_load(text):
    data, err = fresh_load(text)
    if err is not None:
        raise HarnessError("input YAML does not load: %r: %s" % (text, err))
    return data


def dump_text(doc):
    from yamlpath.common import Parsers
    buf = io.StringIO()
    Parsers.get_yaml_editor().dump(doc, buf)
    return buf.getvalue()


def _is_set(node):
    from ruamel.yaml.comments import CommentedSet
    return isinstance(node, (CommentedSet, set, frozenset))


def scalar_canon(node):
    """Typed canonical form of a scalar: 1, True and 1.0 are three different values."""
    from ruamel.yaml.comments import TaggedScalar
    from ruamel.yaml.scalarbool import ScalarBoolean
    if isinstance(node, TaggedScalar):
        return scalar_canon(node.value)
    if node is None:
        return ["null"]
    if isinstance(node, (bool, ScalarBoolean)):
        return ["bool", bool(node)]
    if isinstance(node, int):
        return ["int", int(node)]
    if isinstance(node, float):
        return ["float", repr(float(node))]
    if isinstance(node, str):
        return ["str", str(node)]
    return ["other", type(node).__name__, repr(node)]


def tok(scalar):
    """Hashable/JSON-able token of a map key or set member."""
    c = scalar_canon(scalar)
    return "%s:%s" % (c[0], "" if len(c) < 2 else c[-1])


def own_items(node):
    """(key, value) pairs a mapping holds itself; keys it merely inherits through a YAML
    merge key (<<) are not its own (they belong to the merged, anchored mapping)."""
    if getattr(node, "merge", None) and hasattr(node, "non_merged_items"):
        return list(node.non_merged_items())
    return list(node.items())


def merge_names(node):
    """Anchor names of the mappings merged (<<) into this one, in order ([] when none)."""
    return [anchor_of(m) or "?" for _, m in (getattr(node, "merge", None) or [])]


def children(node):
    """(position element, child) of a real container; () for scalars."""
    if _is_set(node):
        return [(("m", tok(m)), m) for m in node]
    if isinstance(node, dict):
        return [(("k", tok(k)), v) for k, v in own_items(node)]
    if isinstance(node, (list, tuple)):
        return [(("i", i), v) for i, v in enumerate(node)]
    return []


def canon(node):
    """Real (ruamel) data -> typed plain data; map order kept, set members sorted."""
    if _is_set(node):
        return ["set", sorted((scalar_canon(m) for m in node), key=json.dumps)]
    if isinstance(node, dict):
        pairs = [[scalar_canon(k), canon(v)] for k, v in own_items(node)]
        if merge_names(node):   # the merge itself is data of this mapping; what it inherits is not
            pairs.append([["merge", "<<"], ["seq", [["str", "*" + n] for n in merge_names(node)]]])
        return ["map", pairs]
    if isinstance(node, (list, tuple)):
        return ["seq", [canon(v) for v in node]]
    return scalar_canon(node)


def anchor_of(node):
    a = getattr(node, "anchor", None)
    v = getattr(a, "value", None)
    return v if v else None


def is_container(node):
    return isinstance(node, (dict, list, tuple)) or _is_set(node)


def walk(doc):
    """Yield (pos, node, parent) for every node; pos is a tuple of position elements."""
    stack = [((), doc, None)]
    while stack:
        pos, node, parent = stack.pop()
        yield pos, node, parent
        for el, ch in reversed(children(node)):
            stack.append((pos + (el,), ch, node))


def container_paths(doc):
    idx = {}
    for pos, node, _ in walk(doc):
        if is_container(node):
            idx.setdefault(id(node), []).append(pos)
    return idx


def anchor_map(doc):
    """{json(pos): anchor name} of every anchored node."""
    out = {}
    for pos, node, _ in walk(doc):
        a = anchor_of(node)
        if a:
            out[json.dumps(pos)] = a
    return out


def node_at(doc, pos):
    node = doc
    for kind, ref in pos:
        found = False
        for (k2, r2), ch in children(node):
            if k2 == kind and r2 == ref:
                node, found = ch, True
                break
        if not found:
            raise KeyError(pos)
    return node


class Unresolvable(Exception):
    pass


ILLFORMED = "coordinates-illformed(C02)"


def oos_key(ex):
    """Out-of-scope key of an Unresolvable."""
    return str(ex) if str(ex) == ILLFORMED else "coords-unresolvable/%s" % ex


def sits_at(found, node):
    """Does `node` really sit at the place its coordinates name (`found` = parent[parentref])?
    Containers: the very same object (an equal but different {} / [] elsewhere is another node).
    Scalars: equality at that position is all that can be asked - small ints and one-character
    strings are shared Python objects, and ruamel may hand out a wrapper of the same value."""
    if found is node:
        return True
    if is_container(found) or is_container(node):
        return False
    return scalar_canon(found) == scalar_canon(node)


def _leaf_positions(doc, cpaths, nc):
    if nc.parent is None:
        if nc.node is not doc:
            raise Unresolvable(ILLFORMED)
        return [()]
    ppaths = cpaths.get(id(nc.parent))
    if not ppaths:
        raise Unresolvable("parent-not-in-document")
    parent = nc.parent
    ref = nc.parentref
    if _is_set(parent):
        el = ("m", tok(ref))
    elif isinstance(parent, dict):
        el = ("k", tok(ref))
    else:
        if isinstance(ref, bool) or not isinstance(ref, int):
            raise Unresolvable("non-integer-parentref-in-sequence")
        if ref < 0:
            ref += len(parent)
        if not 0 <= ref < len(parent):
            raise Unresolvable("parentref-outside-sequence")
        el = ("i", ref)
    hit = [c for e, c in children(parent) if e == el]
    if not hit and getattr(parent, "merge", None) and isinstance(parent, dict) and ref in parent:
        # deleting/setting "it" in this mapping has no plain-data meaning
        raise Unresolvable("key-inherited-through-a-merge-key")
    if not hit:
        raise Unresolvable("parentref-not-in-parent/" + ("set" if _is_set(parent) else
                                                          "map" if isinstance(parent, dict) else "seq"))
    node = nc.node
    if type(node) is list and len(node) == 1 and node[0] is hit[0]:
        node = node[0]          # from-code: the slice [n:n] wraps its single element in a python list
    if not sits_at(hit[0], node):
        raise Unresolvable(ILLFORMED)
    return [p + (el,) for p in ppaths]


def flatten_results(doc, results):
    """get_nodes results -> list of matched positions in gathering order (duplicates kept).

    A result whose node is a NodeCoords or a plain list of NodeCoords (collector / slice
    results) is expanded.  A slice result (list parent, INDEX segment, node = python list
    of NodeCoords all carrying the slice's first index) stands for the consecutive elements
    first, first+1, ... of its parent.
    """
    from yamlpath.wrappers import NodeCoords
    from yamlpath.enums import PathSegmentTypes
    cpaths = container_paths(doc)
    out = []
    flags = set()

    def rec(nc):
        node = nc.node
        if isinstance(node, NodeCoords):
            rec(node)
            return
        if type(node) is list and all(isinstance(x, NodeCoords) for x in node):
            seg = nc.path_segment
            is_slice = (seg is not None and seg[0] is PathSegmentTypes.INDEX
                        and isinstance(nc.parent, list) and ":" in str(seg[1]))
            if is_slice:
                flags.add("slice")
                if not node:
                    flags.add("empty-slice")
                if isinstance(nc.parentref, int) and nc.parentref < 0:
                    flags.add("negative-slice")
                for i, inner in enumerate(node):
                    if inner.parent is not nc.parent or not isinstance(nc.parentref, int):
                        raise Unresolvable("slice-element-of-another-parent")
                    ppaths = cpaths.get(id(nc.parent))
                    if not ppaths:
                        raise Unresolvable("parent-not-in-document")
                    anc = getattr(inner, "ancestry", None) or []
                    if anc and anc[-1][0] is nc.parent and isinstance(anc[-1][1], int):
                        idx = anc[-1][1]            # the element's own index as recorded in its ancestry
                    else:
                        idx = nc.parentref + i      # all elements carry the slice's first index
                    if idx < 0:
                        idx += len(nc.parent)
                    if not 0 <= idx < len(nc.parent):
                        raise Unresolvable("parentref-outside-sequence")
                    if not sits_at(nc.parent[idx], inner.node):
                        raise Unresolvable(ILLFORMED)
                    out.extend(p + (("i", idx),) for p in ppaths)
            else:
                flags.add("collector")
                if not node:
                    flags.add("empty-collector")
                for inner in node:
                    rec(inner)
            return
        out.extend(_leaf_positions(doc, cpaths, nc))

    for r in results:
        rec(r)
    return out, flags


def repo_frame(exc):
    """innermost /repo frame of an exception as 'file.py:function'."""
    best = None
    for fs in traceback.extract_tb(exc.__traceback__):
        fn = fs.filename.replace("\\", "/")
        if "/yamlpath/" in fn and "/rtc/" not in fn:
            best = "%s:%s" % (fn.rsplit("/", 1)[-1], fs.name)
    return best or "outside-yamlpath"


def is_ype(exc):
    from yamlpath.exceptions import YAMLPathException
    return isinstance(exc, YAMLPathException)


def gather(doc, path):
    """-> ("ok", results) | ("nomatch", exc) | ("ype", exc) | ("crash", exc)."""
    from yamlpath import Processor
    from yamlpath.exceptions import UnmatchedYAMLPathException
    try:
        return "ok", list(Processor(logger(), doc).get_nodes(path, mustexist=True))
    except UnmatchedYAMLPathException as ex:
        return "nomatch", ex
    except Exception as ex:  # noqa
        if is_ype(ex):
            return "ype", ex
        return "crash", ex


# ------------------------------------------------------------------------------------
# shared helpers: the plain-data model
# ------------------------------------------------------------------------------------
class Cell:
    """A scalar of the model; every alias of an anchored scalar shares ONE cell."""
    __slots__ = ("v", "anchor")

    def __init__(self, v, anchor=None):
        self.v = v
        self.anchor = anchor


def model_of(doc):
    """Real document -> model: ["map", [[tok, keycanon, child]...]] / ["seq", [...]] /
    ["set", [[tok, canon]...]] / Cell.  Anchored scalars that are the same object share a Cell."""
    memo = {}

    def rec(node):
        if _is_set(node):
            return ["set", [[tok(m), scalar_canon(m)] for m in node]]
        if isinstance(node, dict):
            ents = [[tok(k), scalar_canon(k), rec(v)] for k, v in own_items(node)]
            if merge_names(node):
                ents.append(["merge:<<", ["merge", "<<"], Cell(["seq", [["str", "*" + n] for n in merge_names(node)]])])
            return ["map", ents]
        if isinstance(node, (list, tuple)):
            return ["seq", [rec(v) for v in node]]
        a = anchor_of(node)
        if a:
            c = memo.get(id(node))
            if c is None:
                c = memo[id(node)] = Cell(scalar_canon(node), a)
            return c
        return Cell(scalar_canon(node))
    return rec(doc)


def model_canon(m):
    if isinstance(m, Cell):
        return m.v
    if m[0] == "map":
        return ["map", [[kc, model_canon(ch)] for _, kc, ch in m[1]]]
    if m[0] == "seq":
        return ["seq", [model_canon(ch) for ch in m[1]]]
    return ["set", sorted((c for _, c in m[1]), key=json.dumps)]


def model_anchor_map(m):
    out = {}

    def rec(node, pos):
        if isinstance(node, Cell):
            if node.anchor:
                out[json.dumps(pos)] = node.anchor
        elif node[0] == "map":
            for t, _, ch in node[1]:
                rec(ch, pos + (("k", t),))
        elif node[0] == "seq":
            for i, ch in enumerate(node[1]):
                rec(ch, pos + (("i", i),))
    rec(m, ())
    return out


def model_delete(m, positions):
    """The model minus the given positions (a rebuild that skips them)."""
    gone = set(positions)

    def rec(node, pos):
        if isinstance(node, Cell):
            return node
        if node[0] == "map":
            return ["map", [[t, kc, rec(ch, pos + (("k", t),))] for t, kc, ch in node[1]
                            if pos + (("k", t),) not in gone]]
        if node[0] == "seq":
            return ["seq", [rec(ch, pos + (("i", i),)) for i, ch in enumerate(node[1])
                            if pos + (("i", i),) not in gone]]
        return ["set", [[t, c] for t, c in node[1] if pos + (("m", t),) not in gone]]
    return rec(m, ())


def model_get(m, pos):
    node = m
    for kind, ref in pos:
        if isinstance(node, Cell):
            raise KeyError(pos)
        if kind == "k" and node[0] == "map":
            hit = [ch for t, _, ch in node[1] if t == ref]
        elif kind == "i" and node[0] == "seq":
            hit = node[1][ref:ref + 1] if 0 <= ref < len(node[1]) else []
        elif kind == "m" and node[0] == "set":
            hit = [Cell(c) for t, c in node[1] if t == ref]
        else:
            hit = []
        if not hit:
            raise KeyError(pos)
        node = hit[0]
    return node


def model_set(m, positions, vcanon):
    """Every matched position holds the value; an anchored (shared) cell is updated in
    place so that all its aliases hold it too; nothing else is touched.  Returns the new
    root (the root itself cannot be matched here)."""
    vtok = "%s:%s" % (vcanon[0], "" if len(vcanon) < 2 else vcanon[-1])
    for pos in sorted(set(positions), key=len):
        try:
            parent = model_get(m, pos[:-1])
            cur = model_get(m, pos)
        except KeyError:
            continue  # an ancestor was matched too and already holds the scalar
        kind, ref = pos[-1]
        if isinstance(cur, Cell) and cur.anchor and kind != "m":
            cur.v = vcanon
            continue
        if kind == "k":
            for ent in parent[1]:
                if ent[0] == ref:
                    ent[2] = Cell(vcanon)
        elif kind == "i":
            parent[1][ref] = Cell(vcanon)
        else:
            parent[1][:] = [[vtok, vcanon] if t == ref else [t, c] for t, c in parent[1]
                            if t == ref or t != vtok]
    return m


def diff_canon(exp, obs, pos=()):
    """Yield (pos, kind, exp, obs) for the outermost differences of two canonical trees."""
    if exp == obs:
        return
    if exp[0] != obs[0] or exp[0] not in ("map", "seq", "set"):
        yield pos, "value", exp, obs
        return
    if exp[0] == "map":
        ek = [k for k, _ in exp[1]]
        ok = [k for k, _ in obs[1]]
        if ek != ok:
            yield pos, "keys", exp, obs
            return
        for (k, ev), (_, ov) in zip(exp[1], obs[1]):
            yield from diff_canon(ev, ov, pos + (("k", "%s:%s" % (k[0], "" if len(k) < 2 else k[-1])),))
    elif exp[0] == "seq":
        if len(exp[1]) != len(obs[1]):
            yield pos, "len", exp, obs
            return
        for i, (ev, ov) in enumerate(zip(exp[1], obs[1])):
            yield from diff_canon(ev, ov, pos + (("i", i),))
    else:
        yield pos, "members", exp, obs


def canon_at(c, pos):
    """Sub-tree of canonical data at a position (None when absent)."""
    for kind, ref in pos:
        if kind == "k" and c[0] == "map":
            hit = [v for k, v in c[1] if "%s:%s" % (k[0], "" if len(k) < 2 else k[-1]) == ref]
        elif kind == "i" and c[0] == "seq":
            hit = c[1][ref:ref + 1] if 0 <= ref < len(c[1]) else []
        elif kind == "m" and c[0] == "set":
            hit = [m for m in c[1] if "%s:%s" % (m[0], "" if len(m) < 2 else m[-1]) == ref]
        else:
            hit = []
        if not hit:
            return None
        c = hit[0]
    return c


def skeleton(c):
    """Shape class of canonical data: container structure with scalar kinds."""
    if c[0] == "map":
        return "{" + ",".join(skeleton(v) for _, v in c[1]) + "}"
    if c[0] == "seq":
        return "[" + ",".join(skeleton(v) for v in c[1]) + "]"
    if c[0] == "set":
        return "S%d" % len(c[1])
    return c[0][0]


def pretty(c):
    """canonical data -> compact readable text."""
    if c[0] == "map":
        return "{" + ", ".join("%s: %s" % (pretty(k), pretty(v)) for k, v in c[1]) + "}"
    if c[0] == "seq":
        return "[" + ", ".join(pretty(v) for v in c[1]) + "]"
    if c[0] == "set":
        return "set(" + ", ".join(pretty(v) for v in c[1]) + ")"
    if c[0] == "null":
        return "null"
    if c[0] == "str":
        return json.dumps(c[1])
    return str(c[-1]) if c[0] != "bool" else ("true" if c[1] else "false")


# ------------------------------------------------------------------------------------
# C04 proper
# ------------------------------------------------------------------------------------
def crash_site(exc):
    """(source line, locals) of the innermost yamlpath frame of an exception."""
    tb = exc.__traceback__
    best = (None, {})
    while tb is not None:
        fn = tb.tb_frame.f_code.co_filename.replace("\\", "/")
        if "/yamlpath/" in fn and "/rtc/" not in fn:
            import linecache
            best = (linecache.getline(fn, tb.tb_lineno).strip(), tb.tb_frame.f_locals)
        tb = tb.tb_next
    return best


def classify_delete(before, after, expected, positions, flags, exc, matched_nodes, anchors=()):
    """-> list of (suffix, what) for one failed delete; predicates over the failing run.
    `matched_nodes`: {pos: canon} of the matched nodes before the delete."""
    out = []
    rootm = () in positions
    if exc is not None and not is_ype(exc):
        where = repo_frame(exc)
        name = type(exc).__name__
        _line, loc = crash_site(exc)
        node = loc.get("node")
        # `x[0]` of an empty list says "list index out of range"; `del x[i]` says "list assignment index ..."
        if name == "IndexError" and where.endswith(":_delete_nodes") and str(exc) == "list index out of range":
            if type(node) is list:      # a python list of results, not a document node
                if "empty-slice" in flags:
                    out.append(("index-error-empty-slice-result",
                                "a slice that selects no element (next to real matches) makes the delete raise IndexError"))
                else:
                    out.append(("index-error-empty-collector-result",
                                "an empty collector result makes the delete raise IndexError"))
            else:
                out.append(("index-error-empty-list-target",
                            "deleting a matched list that is (or has become) empty raises IndexError instead of removing it"))
        elif (name == "IndexError" and where.endswith(":_delete_nodes") and "assignment" in str(exc)
              and isinstance(loc.get("parentref"), int) and loc.get("parentref") < 0 and "negative-slice" in flags):
            out.append(("negative-slice-start-deletes-wrong-elements",
                        "every element of a slice with a negative start is deleted through that same raw negative index"))
        elif (name == "IndexError" and where.endswith(":_delete_nodes") and "assignment" in str(exc)
              and isinstance(loc.get("parentref"), int) and loc.get("parentref") < 0):
            out.append(("index-error-negative-index-after-list-shrank",
                        "a negative index is applied to a sequence that an earlier deletion of the same run has shortened"))
        elif (name == "KeyError" and where.endswith(":_delete_nodes") and "merge-key" in flags
              and {p[-1][1][4:] for p in positions if p and p[-1][0] == "k" and p[-1][1].startswith("str:")} & set(anchors)):
            out.append(("key-named-like-merge-anchor-removes-merge-instead",
                        "deleting a key whose name equals the anchor name of a merged (<<) map removes the merge, not the key"))
        elif name == "KeyError" and where.endswith(":_delete_nodes") and _is_set(loc.get("parent")):
            out.append(("key-error-set-member-matched-twice",
                        "a set member matched more than once is discarded twice; the second discard raises KeyError"))
        else:
            out.append(("%s@%s" % (name, where), "delete raised a non-YAMLPath exception"))
        return out
    if rootm:
        if exc is None:
            out.append(("root-delete-not-refused", "the matches include the document root but no YAMLPathException was raised"))
        if after != before:
            out.append(("root-refusal-after-partial-delete",
                        "the delete was refused for the root, but other matched nodes had already been removed"))
        if not out:
            raise HarnessError("classify_delete called without a difference")
        return out
    if exc is not None:
        out.append(("unexpected-%s@%s" % (type(exc).__name__, repo_frame(exc)),
                    "delete of matched non-root nodes raised a YAMLPathException"))
        return out
    # plain wrong result: look at the sequences/maps that hold matched positions
    for pos, kind, e, o in diff_canon(expected, after):
        # the container in which the difference shows: `pos` itself (len/keys/members) or its parent (value)
        # or, when that one holds no match, the nearest enclosing sequence that does
        cpos = pos if kind in ("len", "keys", "members") else pos[:-1]
        up = cpos
        while True:
            direct = [p[-1][1] for p in positions if p[:-1] == up and p and p[-1][0] == "i"]
            if direct or not up:
                break
            up = up[:-1]
        pk = "seq" if direct else ("map" if e[0] == "map" else e[0])
        lastkeys = {p[-1][1][4:] for p in positions if p and p[-1][0] == "k" and p[-1][1].startswith("str:")}
        if kind == "keys" and "merge-key" in flags and lastkeys & set(anchors):
            out.append(("key-named-like-merge-anchor-removes-merge-instead",
                        "deleting a key whose name equals the anchor name of a merged (<<) map removes the merge, not the key"))
        elif direct and len(set(direct)) < len(direct):
            out.append(("double-match-deletes-neighbour",
                        "a node matched twice in one sequence is deleted twice: another element disappears too"))
        elif direct and "negative-slice" in flags:
            out.append(("negative-slice-start-deletes-wrong-elements",
                        "every element of a slice with a negative start is deleted through that same negative index"))
        elif direct and any(a > b for a, b in zip(direct, direct[1:])):
            out.append(("descending-gather-order-in-sequence",
                        "matches of one sequence gathered in non-ascending order: indexes shift, a wrong element is removed or a matched one survives"))
        elif kind in ("len", "keys", "members") and len(o[1]) > len(e[1]):
            out.append(("matched-node-survives/%s" % pk, "a matched node is still present after the delete"))
        elif kind in ("len", "keys", "members") and len(o[1]) < len(e[1]):
            out.append(("bystander-removed/%s" % pk, "a node that was not matched has been removed"))
        elif kind in ("len", "keys", "members"):
            out.append(("wrong-node-removed/%s" % pk, "same count, but another node than the matched one was removed"))
        else:
            out.append(("bystander-changed/%s" % pk, "a node that was not matched changed its value"))
    if not out:
        raise HarnessError("classify_delete called without a difference")
    return list(dict.fromkeys(out))


def run_delete_case(text, path, api="delete_nodes"):
    """Run one case.  -> dict(status, sig, witnesses=[(key, what, observed, expected)], oos)."""
    from yamlpath import Processor
    doc = must_load(text)
    before = canon(doc)
    shape = skeleton(before)
    status, res = gather(doc, path)
    if canon(doc) != before:
        return {"status": "oos", "oos": "get_nodes-changed-the-document", "sig": None}
    if status == "crash":
        return {"status": "oos", "oos": "get_nodes-crashed/%s@%s" % (type(res).__name__, repo_frame(res)), "sig": None}
    if status == "ype":
        return {"status": "oos", "oos": "path-rejected/%s" % type(res).__name__, "sig": None}
    positions, flags, matched_nodes = [], set(), {}
    if status == "ok":
        try:
            positions, flags = flatten_results(doc, res)
        except Unresolvable as ex:
            return {"status": "oos", "oos": oos_key(ex), "sig": None}
        for p in set(positions):
            matched_nodes[p] = canon(node_at(doc, p))
    model = model_of(doc)
    rootm = () in positions
    anchors = set()
    for _, node, _p in walk(doc):
        if anchor_of(node):
            anchors.add(anchor_of(node))
        if getattr(node, "merge", None):
            flags.add("merge-key")
    expected = before if rootm else model_canon(model_delete(model, positions))
    exc = None
    proc = Processor(logger(), doc)
    try:
        if api == "gathered":
            if status == "ok":
                proc.delete_gathered_nodes(res)
        else:
            list(proc.delete_nodes(path))
    except Exception as ex:  # noqa
        exc = ex
    after = canon(doc)
    ok = (after == expected) and ((exc is not None and is_ype(exc)) if rootm else exc is None)
    if not positions:
        # no node matched: nothing may change; raising a YAMLPathException or not is both fine
        ok = after == before and (exc is None or is_ype(exc))
    nm = len(set(positions))
    sig = [PROP, shape, _path_kinds(path), min(nm, 3), len(positions) > nm, rootm, sorted(flags),
           sorted({tuple(p[-1:])[0][0] for p in positions if p}), api]
    r = {"status": "ok", "sig": sig if status == "ok" else None, "witnesses": [],
         "sample": {"doc": text, "path": path, "api": api, "matched": [list(map(list, p)) for p in positions],
                    "after": pretty(after)}}
    if ok:
        return r
    if not positions:
        # the statement quantifies over paths matching >= 1 node: counted, never a witness
        what = ("changed-the-document" if after != before else
                "%s@%s" % (type(exc).__name__, repo_frame(exc)))
        return {"status": "oos", "oos": "zero-match/%s%s" % (what, "".join("/" + f for f in sorted(flags))), "sig": None}
    r["status"] = "witness"
    cl = classify_delete(before, after, expected, positions, flags, exc, matched_nodes, anchors)
    obs = pretty(after) + ("" if exc is None else "  raised %s: %s" % (type(exc).__name__, str(exc)[:120]))
    exp = pretty(expected) + ("  and a YAMLPathException" if rootm else "")
    for suffix, what in cl:
        r["witnesses"].append(("%s/%s" % (PROP, suffix), what, obs, exp))
    r["sig"] = sig + [cl[0][0]]
    return r


def _path_kinds(path):
    """Shape class of a path text: letters/digits collapsed."""
    out = []
    prev = ""
    for ch in path:
        c = "k" if ch.isalpha() else "n" if ch.isdigit() else ch
        if c in "kn" and c == prev:
            continue
        out.append(c)
        prev = c
    return "".join(out)


# ---- input space -------------------------------------------------------------------
HAND_DOCS = [
    "[[], 1]", "[1, [], 2]", "[[]]", "[[], []]", "{a: [], b: 1}", "{a: {}, b: 1}", "[{}, 1]", "[{}, {}]",
    "[a, b, c]", "[a, b, c, d]", "[1, 1, 2]", "[1, 2, 3, 0]", "[0, 1, 0, 1]",
    "{a: 1, b: 2}", "{a: 1, b: 2, c: 3}", "{a: 1, b: 1}",
    "{a: [1, {b: 2}], c: 3}", "{a: [1, [2, 3]], c: 3}", "{a: [[], {}], c: 3}", "[[1, 2], [3]]",
    "{a: [1, 2, 3], b: [1, 2, 3]}", "[{a: 1}, {a: 2}, {b: 1}]", "{a: {a: {a: 1}}}",
    "{a: &x 1, b: *x}", "{a: &x 1, b: *x, l: [*x, 2]}", "[&x 1, *x, 2]", "[&x a, *x, *x]",
    "{s: !!set {a, b}, k: 1}", "[!!set {a, b}, a]",
    "{a: &b {a: 1}, b: {<<: *b, b: 5}}", "{a: &a {c: 1}, b: {<<: *a, a: 5, b: 6}}",
    # a key that bears the name of its OWN anchor, in a hash that also merges another anchored map
    "{a: &a {x: 1}, b: &b {y: 2}, <<: *a}",
]

ROOT_PATHS = ["/", ""]


def path_vocab(tier):
    segs = [("key", "a"), ("key", "b")]
    segs += [("idx", i) for i in ((-2, -1, 0, 1, 2) if tier == "quick" else (-3, -2, -1, 0, 1, 2, 3))]
    segs += [("slice", a, b) for a, b in ((0, 1), (0, 2), (1, 3), (1, 1), (-2, 0), (0, -1), (-2, 9), (-9, 2), (-9, -1))]
    segs += [("search", False, ".", ">", "0"), ("search", False, ".", "=", "1"), ("search", True, ".", "=", "1"),
             ("search", False, ".", "=", "a"), ("search", False, "a", "=", "1")]
    segs += [("all",), ("trav",)]
    return segs


COLL_ATOMS = [[("idx", 0)], [("idx", 1)], [("idx", -1)], [("key", "a")], [("key", "b")], [("all",)],
              [("slice", 0, 2)], [("idx", 0), ("idx", 0)], [("key", "a"), ("idx", 0)]]


def all_paths(tier, prefixes="all"):
    vocab = path_vocab(tier)
    maxlen = 2 if tier == "quick" else 3
    out = list(ROOT_PATHS)
    for n in range(1, maxlen + 1):
        for p in itertools.product(vocab, repeat=n):
            if any(p[i] == ("trav",) and p[i + 1] == ("trav",) for i in range(len(p) - 1)):
                continue
            out.append(pathgen.render(list(p), "."))
    colls = []
    for x, y in itertools.product(COLL_ATOMS, repeat=2):
        colls.append([("coll", "", x), ("coll", "+", y)])
    for x in COLL_ATOMS[:6]:
        colls.append([("coll", "", x), ("coll", "+", x), ("coll", "+", x)])
        colls.append([("coll", "", [("all",)]), ("coll", "-", x)])
        colls.append([("coll", "", [("trav",)])])
    colls.append([("coll", "", []), ("coll", "+", [("key", "a")])])      # root first, then a child
    colls.append([("coll", "", [("key", "a")]), ("coll", "+", [])])
    for c in colls:
        out.append(_render_coll(c, []))
    for pre in ([("key", "a")], [("idx", 0)], [("all",)])[:1 if prefixes == "one" else 3]:
        for c in colls[:len(COLL_ATOMS) ** 2]:
            out.append(_render_coll(c, pre))
    return list(dict.fromkeys(out))


def _render_coll(colls, prefix):
    s = pathgen.render(prefix, ".") if prefix else ""
    for _, op, inner in colls:
        s += "%s(%s)" % (op, pathgen.render(inner, ".") if inner else "/")
    return s


def _depth(t):
    if isinstance(t, dict):
        return 1 + max([_depth(v) for v in t.values()], default=0)
    if isinstance(t, list):
        return 1 + max([_depth(v) for v in t], default=0)
    return 0


def tree_docs(tier, min_depth=0):
    n = 4 if tier == "quick" else 5
    ts = gen.trees(n, 3, keys=("a", "b"), scalars=(0, 1, "a"), sets=False)
    return [gen.to_yaml(t) for t in ts if isinstance(t, (dict, list)) and _depth(t) >= min_depth]


def random_cases(seed, count, paths):
    rng = random.Random(seed)
    out = []
    for _ in range(count):
        t = gen.random_tree(rng, max_nodes=12, max_depth=4, keys=("a", "b", "c"), scalars=(0, 1, 2, "a", "b", None))
        if not isinstance(t, (dict, list)):
            t = [t]
        out.append((gen.to_yaml(t), rng.choice(paths), rng.choice(("delete_nodes", "gathered"))))
    return out


def _chunk(groups):
    """groups: [(yaml text, [paths], [apis])].  One shared load per document serves the
    paths that match nothing (get_nodes only); every matching path gets its own fresh load."""
    col = Collector()
    for text, paths, apis in groups:
        doc0 = must_load(text)
        before0 = canon(doc0)
        for path in paths:
            status, _res = gather(doc0, path)
            if canon(doc0) != before0:
                doc0 = must_load(text)
                status = "ok"          # let the full case decide (it re-checks purity)
            if status == "nomatch":
                col.case()             # outside the quantifier (path matches >= 1 node)
                col.out_of_scope("zero-match/unmatched-path-not-run")
                continue
            for api in apis:
                r = run_delete_case(text, path, api)
                if r["status"] == "oos":
                    col.case()
                    col.out_of_scope(r["oos"])
                    continue
                col.case(r["sig"], r["sample"] if (r["sig"] and r["sig"][3] >= 2 and not r["sig"][5] and r["status"] == "ok") else None)
                for key, what, obs, exp in r["witnesses"]:
                    col.witness(key, what, {"kind": "delete", "yaml": text, "path": path, "api": api}, obs, exp)
    return col.result(internal=True)


def plan(tier, seed):
    paths2 = all_paths("quick", "one" if tier == "quick" else "all")
    groups = [(d, paths2, ["delete_nodes"]) for d in tree_docs(tier)]
    bounds = {"tree_max_nodes": 4 if tier == "quick" else 5, "tree_max_depth": 3, "tree_keys": ["a", "b"],
              "tree_scalars": [0, 1, "a"], "tree_docs": len(groups), "paths_le2_segments": len(paths2)}
    hand_paths = paths2
    groups += [(d, paths2, ["delete_nodes", "gathered"]) for d in HAND_DOCS]
    if tier != "quick":
        paths3 = all_paths("thorough")
        seen2 = set(paths2)
        only3 = [p for p in paths3 if p not in seen2]
        deep = tree_docs("quick", min_depth=3)
        groups += [(d, only3, ["delete_nodes"]) for d in deep]
        groups += [(d, only3, ["delete_nodes"]) for d in HAND_DOCS]
        hand_paths = paths3
        bounds.update({"paths_le3_segments": len(paths3),
                       "docs_for_3_segment_paths": "%d tree documents of <= 4 nodes and depth 3, and the hand-written ones" % len(deep)})
    n_exh = sum(len(p) * len(a) for _, p, a in groups)
    n_rand = 10000 if tier == "quick" else 150000
    groups += [(d, [p], [a]) for d, p, a in random_cases(seed, n_rand, hand_paths)]
    bounds.update({"hand_docs": len(HAND_DOCS), "exhaustive_cases": n_exh, "random_cases": n_rand, "seed": seed,
                   "collector_paths": "(x)+(y) over %d atoms, (x)+(x)+(x), (*)-(x), (/)+(a); (x)+(y) also behind a 1-segment prefix (%s)"
                                      % (len(COLL_ATOMS), "a" if tier == "quick" else "a, [0], *"),
                   "apis": "delete_nodes everywhere; delete_gathered_nodes too on the hand-written documents and the random part"})
    return groups, bounds


def run(tier="quick", seed=0, jobs=None):
    groups, bounds = plan(tier, seed)
    # balance: documents with many paths are one item each; single-path random items are batched
    big = [g for g in groups if len(g[1]) > 1]
    small = [g for g in groups if len(g[1]) <= 1]
    col = Collector()
    for part in pmap_chunks(_chunk, big, jobs=jobs, chunk=4):
        col.merge(part)
    for part in pmap_chunks(_chunk, small, jobs=jobs, chunk=1000):
        col.merge(part)
    rule = ("for every document x path matching >= 1 node: positions matched by get_nodes(mustexist=True) before "
            "the delete; after list(delete_nodes(path)) the document == old plain data minus those positions "
            "(rebuild that skips them); root among the matches => YAMLPathException and no change; any other "
            "exception is a witness.  Exhaustive over tree documents (<= %d nodes, depth <= 3, keys a/b, scalars "
            "0/1/a) x all paths of <= 2 segments over the vocabulary + collector paths with repeated operands%s, "
            "and over %d hand-written documents (empty containers, anchors/aliases, sets, merge keys); "
            "%d seeded random document/path pairs beyond"
            % (bounds["tree_max_nodes"],
               "" if tier == "quick" else "; depth-3 documents of <= 4 nodes and the hand-written ones x all 3-segment paths",
               len(HAND_DOCS), bounds["random_cases"]))
    return col.result(rule=rule, exhaustive=True, bounds=bounds)


def replay(inp):
    r = run_delete_case(inp["yaml"], inp["path"], inp.get("api", "delete_nodes"))
    if r["status"] != "witness":
        return None
    key, what, obs, exp = r["witnesses"][0]
    return {"key": key, "what": what, "inputs": [inp], "observed": obs, "expected": exp, "count": 1,
            "all_keys": [w[0] for w in r["witnesses"]]}


if __name__ == "__main__":
    tier = sys.argv[1] if len(sys.argv) > 1 else "quick"
    seed = int(sys.argv[2]) if len(sys.argv) > 2 else 0
    jobs = int(sys.argv[3]) if len(sys.argv) > 3 else None
    print(json.dumps(run(tier, seed, jobs), indent=1, default=repr))
