"""C01 bounded stand-in: query results of the real Processor == spec.query (DESIGN.md Appendix A).

For documents from rtc.gen.trees x paths from rtc.pathgen (both notations) it checks

  required   Processor.get_nodes(path, mustexist=True)  ==  spec.query   (same node objects --
             identity; for scalars also the position (parent, parentref) -- same order, none
             missing, none extra; virtual slice results are compared element-wise);
             UnmatchedYAMLPathException  <=>  the oracle selects nothing
  notation   the forward-slash rendering gives the same answer as the dot rendering
  exists     Processor.exists(path)  <=>  the oracle selects something
  optional   get_nodes(path, mustexist=False) on a path the oracle says exists gives the
             same sequence

A disagreement is classified by ROOT CAUSE: the oracle is re-run with each known defect model
switched on (spec.query.DEFECT_MODELS, plus the optional-mode model); the key is the model that
reproduces the real answer exactly.  Anything no model explains gets `C01/unexplained/...`;
disagreements confined to from-code rules are counted out-of-scope, never reported.
"""
import itertools
import json
import linecache
import os
import random
import sys
import traceback

from rtc import gen, pathgen
from rtc.harness import Collector, pmap_chunks, stable_hash
from spec import query as Q

PROP = "C01"

# ----------------------------------------------------------------------------- running the real code

_LOG = None
_PKG_ROOT = None


def _logger():
    global _LOG
    if _LOG is None:
        _LOG = gen.quiet_logger()
    return _LOG


def pkg_root():
    global _PKG_ROOT
    if _PKG_ROOT is None:
        import yamlpath
        _PKG_ROOT = os.path.dirname(os.path.abspath(yamlpath.__file__))
    return _PKG_ROOT


def innermost_repo_frame(exc):
    """('file.py:function', stripped source line) of the innermost frame inside the yamlpath package."""
    root = pkg_root()
    where, line = "outside-repo", ""
    for fs in traceback.extract_tb(exc.__traceback__):
        fn = os.path.abspath(fs.filename)
        if fn.startswith(root + os.sep):
            where = "%s:%s" % (os.path.relpath(fn, root), fs.name)
            line = (fs.line or linecache.getline(fn, fs.lineno) or "").strip()
    return where, line


class _TimeLimit(BaseException):
    """Raised by the alarm below inside a library call that has not returned after CALL_LIMIT_S seconds."""


CALL_LIMIT_S = 20.0       # one query on a document of a few nodes takes milliseconds; a call still running after this long
                          # is reported as one that does not return (seen: an optional-match query that kept appending to
                          # the list it was iterating), instead of hanging the whole check


def _on_alarm(signum, frame):
    raise _TimeLimit()


def call_real(fn):
    """Run `fn` -> ('ok', value) | ('unmatched',) | ('yamlpath', cls, where) | ('crash', type, where, line)."""
    import signal
    import threading
    from yamlpath.exceptions import YAMLPathException, UnmatchedYAMLPathException
    timed = threading.current_thread() is threading.main_thread() and signal.getsignal(signal.SIGALRM) in (signal.SIG_DFL, _on_alarm, None)
    if timed:
        signal.signal(signal.SIGALRM, _on_alarm)
        signal.setitimer(signal.ITIMER_REAL, CALL_LIMIT_S)
    try:
        return ("ok", fn())
    except UnmatchedYAMLPathException:
        return ("unmatched",)
    except YAMLPathException as ex:
        return ("yamlpath", type(ex).__name__, innermost_repo_frame(ex)[0])
    except _TimeLimit as ex:
        # (where the alarm happened to interrupt the call says nothing: the class is "the query does not return")
        return ("crash", "DoesNotReturn", "query(still running after %ds)" % CALL_LIMIT_S, "")
    except (KeyboardInterrupt, SystemExit, MemoryError):
        raise
    except BaseException as ex:       # noqa: the monitored event
        where, line = innermost_repo_frame(ex)
        return ("crash", type(ex).__name__, where, line)
    finally:
        if timed:
            signal.setitimer(signal.ITIMER_REAL, 0)


def normalize(ncs):
    """List[NodeCoords] -> [('n', node, parent, ref, via_virtual) | ('v', [(node, parent, ref)])]."""
    from yamlpath.wrappers import NodeCoords
    out = []
    for nc in ncs:
        n = nc.node
        if isinstance(n, NodeCoords):
            d = nc.deepest_node_coord
            while isinstance(d.node, NodeCoords):
                d = d.node
            out.append(("n", d.node, d.parent, d.parentref, True))
        elif type(n) is list:
            elems = []
            for e in n:
                if isinstance(e, NodeCoords):
                    while isinstance(e.node, NodeCoords):
                        e = e.node
                    elems.append((e.node, e.parent, e.parentref))
                else:
                    elems.append((e, None, None))
            out.append(("v", elems))
        else:
            out.append(("n", n, nc.parent, nc.parentref, False))
    return out


def real_required(data, text):
    from yamlpath import Processor
    p = Processor(_logger(), data)
    r = call_real(lambda: list(p.get_nodes(text, mustexist=True)))
    return ("ok", normalize(r[1])) if r[0] == "ok" else r


def real_optional(data, text):
    from yamlpath import Processor
    p = Processor(_logger(), data)
    r = call_real(lambda: list(p.get_nodes(text, mustexist=False)))
    return ("ok", normalize(r[1])) if r[0] == "ok" else r


def real_exists(data, text):
    from yamlpath import Processor
    p = Processor(_logger(), data)
    return call_real(lambda: p.exists(text))


# ----------------------------------------------------------------------------- paths

def parsed_segments(text):
    """The library's own parse of `text`, in pathgen's tuple format (to validate OUR rendering only)."""
    from yamlpath import YAMLPath
    from yamlpath.enums import PathSegmentTypes as T, PathSearchMethods as M
    ops = {M.EQUALS: "=", M.STARTS_WITH: "^", M.ENDS_WITH: "$", M.CONTAINS: "%", M.GREATER_THAN: ">",
           M.LESS_THAN: "<", M.GREATER_THAN_OR_EQUAL: ">=", M.LESS_THAN_OR_EQUAL: "<=", M.REGEX: "=~"}
    out = []
    for ty, at in YAMLPath(text).escaped:
        if ty == T.KEY:
            out.append(("key", str(at)))
        elif ty == T.INDEX:
            s = str(at)
            if ":" in s:
                lo, hi = s.split(":", 1)
                out.append(("slice", lo, hi))
            else:
                out.append(("idx", s))
        elif ty == T.ANCHOR:
            out.append(("anchor", str(at)))
        elif ty == T.SEARCH:
            out.append(("search", bool(at.inverted), str(at.attribute), ops[at.method], str(at.term)))
        elif ty == T.MATCH_ALL:
            out.append(("all",))
        elif ty == T.TRAVERSE:
            out.append(("trav",))
        elif ty == T.KEYWORD_SEARCH:
            out.append(("kw", bool(at.inverted), str(at.keyword), ",".join(at.parameters)))
        elif ty == T.COLLECTOR:
            out.append(("coll", str(at.operation), str(at.expression)))
        else:
            out.append(("?", str(ty)))
    return out


def intended_segments(segs):
    out = []
    for s in segs:
        k = s[0]
        if k == "glob":
            s = Q.glob_to_search(s[1])
            k = "search"
        if k == "key":
            out.append(("key", str(s[1])))
        elif k == "idx":
            out.append(("idx", str(s[1])))
        elif k == "slice":
            out.append(("slice", str(s[1]), str(s[2])))
        elif k == "anchor":
            out.append(("anchor", str(s[1])))
        elif k == "search":
            out.append(("search", bool(s[1]), str(s[2]), s[3], str(s[4])))
        else:
            out.append(tuple(s))
    return out


_PATH_CACHE = {}


def path_info(segs):
    """(dot_text, slash_text, dot_ok, slash_ok): ok = the library parses our text into the intended segments."""
    key = json.dumps(segs)
    hit = _PATH_CACHE.get(key)
    if hit is None:
        want = intended_segments(segs)
        texts, oks = [], []
        for sep in (".", "/"):
            t = pathgen.render(segs, sep)
            texts.append(t)
            r = call_real(lambda: parsed_segments(t))
            oks.append(r[0] == "ok" and r[1] == want)
        hit = (texts[0], texts[1], oks[0], oks[1])
        if len(_PATH_CACHE) < 400000:
            _PATH_CACHE[key] = hit
    return hit


def path_sig(segs):
    out = []
    for s in segs:
        if s[0] == "search":
            out.append("search%s%s%s" % ("!" if s[1] else "", "." if s[2] == "." else "@", s[3]))
        elif s[0] == "idx":
            out.append("idx-" if s[1] < 0 else "idx")
        elif s[0] == "slice":
            out.append("slice")
        elif s[0] == "key":
            out.append("keyN" if Q.int_literal(s[1]) is not None else "key")
        else:
            out.append(s[0])
    return ".".join(out)


def kinds_sig(segs):
    return ".".join(("search" + ("." if s[2] == "." else "@")) if s[0] == "search" else s[0] for s in segs[:4])


# ----------------------------------------------------------------------------- documents

def doc_shape(t):
    if isinstance(t, dict):
        return "{" + ",".join(("i" if isinstance(k, int) else "k") + ":" + doc_shape(v) for k, v in t.items()) + "}"
    if isinstance(t, gen.SetT):
        return "S%d" % len(t)
    if isinstance(t, (list, tuple)):
        return "[" + ",".join(doc_shape(v) for v in t) + "]"
    if t is None:
        return "n"
    return type(t).__name__[0]


ANCHOR_DOCS = (
    "[&x a, b, *x]",
    "[&x a, &y b, c]",
    "{k: &x 1, j: *x}",
    "{&x k: 1, j: 2}",
    "{&x k: &y 1, j: *y}",
    "[&x {a: 1}, *x, {a: 2}]",
    "{k: &x [1, 2], j: *x}",
    "{r: [&x a, &y b, *x]}",
    "{base: &x {a: 1}, d: {<<: *x, b: 2}}",
    "{r: &y {k: &x {a: 1}}, d: {<<: *x, b: 2}}",            # the merged anchor is defined INSIDE another anchored hash
    "{r: &y [&x {a: 1}], d: {<<: *x, b: 2}, s: *y}",        # ... inside an anchored list
    "!!set {&x a: null, b: null}",
    "{s: !!set {&x a: null, b: null}}",
)


def anchor_paths():
    names = ("x", "y", "z")
    out = []
    for n in names:
        a = ("anchor", n)
        out += [[a], [("all",), a], [("trav",), a], [a, ("key", "a")], [a, ("idx", 0)], [a, ("all",)],
                [a, ("trav",)], [("key", "r"), a], [("key", "d"), a], [("key", "s"), a], [("key", "k"), a],
                [a, ("search", False, ".", "=", "a")], [a, ("search", True, "a", "=", "1")]]
    return out


# ----------------------------------------------------------------------------- comparison

def same_nodes(items, oracle):
    """Same node objects in the same order (virtual results: element-wise)."""
    if len(items) != len(oracle):
        return False
    for it, o in zip(items, oracle):
        if o.virtual != (it[0] == "v"):
            return False
        if o.virtual:
            if len(it[1]) != len(o.node) or any(e[0] is not x for e, x in zip(it[1], o.node)):
                return False
        elif it[1] is not o.node:
            return False
    return True


def _holds(parent, ref, node):
    try:
        if Q.is_map(parent):
            return ref in parent and parent[ref] is node
        if Q.is_seq(parent):
            return isinstance(ref, int) and -len(parent) <= ref < len(parent) and parent[ref] is node
        if Q.is_set(parent):
            return node in parent
    except Exception:
        return False
    return parent is None and ref is None


def position_findings(items, oracle):
    """For scalar results (shared objects): is it the SAME occurrence?  -> list of ('wrong-occurrence'|'illformed')."""
    out = []
    for it, o in zip(items, oracle):
        if it[0] != "n" or it[4] or "virtual-continuation" in o.from_code or not Q.is_scalar(o.node):
            continue
        if _same_position(it[2], it[3], o):
            continue
        if Q.is_set(o.parent):
            # members are unique within a set: a different (parent, ref) cannot be another occurrence
            # of the member, it is a coordinate defect (C02)
            out.append("illformed")
            continue
        out.append("wrong-occurrence" if _holds(it[2], it[3], it[1]) else "illformed")
    return out


def _same_position(parent, ref, o):
    if parent is not o.parent:
        return False
    if Q.is_seq(o.parent) and isinstance(ref, int) and not isinstance(ref, bool):
        n = len(o.parent)
        return -n <= ref < n and ref % n == o.ref
    return ref == o.ref


def _ids(items=None, oracle=None):
    if items is not None:
        return [("v",) + tuple(id(e[0]) for e in it[1]) if it[0] == "v" else id(it[1]) for it in items]
    return [("v",) + tuple(id(x) for x in o.node) if o.virtual else id(o.node) for o in oracle]


def diff_class(items, oracle):
    """('missing'|'extra'|'both'|'order'|'duplicates', missing oracle entries, n extra)."""
    a, b = _ids(oracle=oracle), _ids(items=items)
    rest = list(b)
    missing = []
    for k, o in zip(a, oracle):
        if k in rest:
            rest.remove(k)
        else:
            missing.append(o)
    if not missing and not rest:
        return "order", missing, 0
    if rest and not missing:
        return ("duplicates" if all(k in a for k in rest) else "extra"), missing, len(rest)
    if missing and not rest:
        return "missing", missing, 0
    return "both", missing, len(rest)


def describe(outcome):
    if outcome[0] != "ok":
        return list(outcome)
    out = []
    for it in outcome[1]:
        if it[0] == "v":
            out.append({"virtual": [gen.plain(e[0]) for e in it[1]]})
        else:
            out.append({"node": gen.plain(it[1]), "ref": gen.plain(it[3])})
    return json.loads(json.dumps(out, default=repr))


def describe_oracle(o):
    if isinstance(o, Q.SpecRaises):
        return ["raises", o.kind]
    out = []
    for r in o:
        if r.virtual:
            out.append({"virtual": [gen.plain(x) for x in r.node]})
        else:
            out.append({"node": gen.plain(r.node), "ref": gen.plain(r.ref)})
    return json.loads(json.dumps(out, default=repr))


def _model_subsets():
    ms = Q.DEFECT_MODELS
    for n in range(1, len(ms) + 1):
        for c in itertools.combinations(ms, n):
            yield c


def explain_by_model(segs, data, items):
    """The smallest set of known-defect models whose prediction IS the real answer, else None."""
    for c in _model_subsets():
        try:
            o = Q.query(segs, data, defects=c)
        except (Q.DefectModelCrash, Q.SpecRaises, Q.SpecUndefined):
            continue
        if same_nodes(items, o):
            return c
    return None


def optional_model(segs, data, defects=()):
    """Known defect of optional mode: a null met before the last segment is yielded instead of ending that branch."""
    ctx = Q._Ctx(defects)
    cur = [(Q.Result(data, None, None), False)]
    segs = [tuple(s) for s in segs]
    i = 0
    while i < len(segs):
        step = Q.collector_span(segs, i) if segs[i][0] == "coll" and segs[i][1] == "" else 1
        nxt = []
        for r, frozen in cur:
            if frozen:
                nxt.append((r, True))
                continue
            for c in Q._probe(segs, i, r, True, ctx):
                nxt.append((c, c.node is None and not c.virtual and i + step < len(segs)))
        cur = nxt
        i += step
    return [r for r, _ in cur]


def explain_optional(segs, data, items):
    """-> tuple of model names that reproduce the optional-mode answer exactly, else None."""
    subsets = [()] + list(_model_subsets())
    for c in subsets:
        try:
            if c and same_nodes(items, Q.query(segs, data, defects=c)):
                return c
            if same_nodes(items, optional_model(segs, data, c)):
                return c + ("optional-extra-none",)
        except (Q.DefectModelCrash, Q.SpecRaises, Q.SpecUndefined):
            continue
    return None


_DETERMINISTIC = ("key", "idx", "slice", "anchor", "coll")


def has_dead_deterministic_branch(segs, data, defects=()):
    """Would optional mode try to CREATE something?  (a key/index/anchor/collector segment that selects
    nothing from a non-null node reached by the prefix)"""
    ctx = Q._Ctx(defects)
    cur = [Q.Result(data, None, None)]
    segs = [tuple(s) for s in segs]
    i = 0
    try:
        while i < len(segs):
            step = Q.collector_span(segs, i) if segs[i][0] == "coll" and segs[i][1] == "" else 1
            nxt = []
            for r in cur:
                # a null met before the last segment is a scalar in the way like any other (since fix 0311c15
                # optional mode no longer relays it): a deterministic segment below it is a missing branch
                sel = Q._probe(segs, i, r, True, ctx)
                if not sel and segs[i][0] in _DETERMINISTIC:
                    return True
                nxt.extend(sel)
            cur = nxt
            i += step
    except (Q.DefectModelCrash, Q.SpecUndefined):
        return False
    return False


def defect_that_kills_a_branch(segs, data):
    """A known-defect model under which the path reaches a missing deterministic branch (so that the
    real optional-mode query tries to create nodes although the documented selection needs none)."""
    applicable = []
    if any(s[0] == "search" and s[2] != "." for s in segs):
        applicable.append("stale-matches")
    if any(s[0] == "slice" for s in segs):
        applicable.append("negative-slice-bound")
    for n in range(1, len(applicable) + 1):
        for c in itertools.combinations(applicable, n):
            if has_dead_deterministic_branch(segs, data, c):
                return c
    return None


class Finding(object):
    __slots__ = ("kind", "key", "what", "clause", "observed", "expected")

    def __init__(self, kind, key, what, clause, observed=None, expected=None):
        self.kind, self.key, self.what, self.clause = kind, key, what, clause   # kind: 'witness' | 'oos'
        self.observed, self.expected = observed, expected


def compare_required(segs, data, outcome, oracle, clause="required"):
    """-> (list of Finding, agreed: bool)"""
    if isinstance(oracle, Q.SpecRaises):
        # the oracle expects a library exception here (always a from-code rule)
        if outcome[0] == "yamlpath":
            return [], True
        if outcome[0] == "crash":
            return [Finding("witness", "%s/crash/%s@%s" % (PROP, outcome[1], outcome[2]),
                            "query raised a non-library exception: " + outcome[3], clause,
                            describe(outcome), describe_oracle(oracle))], False
        model = explain_by_model(segs, data, outcome[1] if outcome[0] == "ok" else [])
        if model is not None:
            return [Finding("witness", "%s/%s" % (PROP, "+".join(model)),
                            "the real answer is exactly what the known defect model %s predicts"
                            % "+".join(model), clause, describe(outcome), describe_oracle(oracle))], False
        return [Finding("oos", "from-code-disagreement/" + oracle.tag, "", clause,
                        describe(outcome), describe_oracle(oracle))], False
    if outcome[0] == "crash":
        return [Finding("witness", "%s/crash/%s@%s" % (PROP, outcome[1], outcome[2]),
                        "query raised a non-library exception instead of selecting the documented nodes: "
                        + outcome[3], clause, describe(outcome), describe_oracle(oracle))], False
    fc = oracle.from_code
    if outcome[0] == "unmatched":
        if not oracle:
            return [], True
        items = []
    elif outcome[0] == "yamlpath":
        if fc:
            return [Finding("oos", "from-code-disagreement/raises/" + "+".join(sorted(fc)), "", clause)], False
        return [Finding("witness", "%s/raises-yamlpath/%s@%s" % (PROP, outcome[1], outcome[2]),
                        "query raised a library exception where the documentation selects nodes", clause,
                        describe(outcome), describe_oracle(oracle))], False
    else:
        items = outcome[1]
        if not items and not oracle:
            if "null-document" in oracle.suppressed:
                return [], True
            # returned an empty sequence without raising Unmatched
            return [Finding("witness", "%s/empty-without-unmatched" % PROP,
                            "mustexist=True returned nothing and did not raise", clause,
                            describe(outcome), "UnmatchedYAMLPathException")], False
    if outcome[0] == "ok" and same_nodes(items, oracle):
        pos = position_findings(items, oracle)
        if not pos:
            return [], True
        if "wrong-occurrence" in pos:
            return [Finding("witness", "%s/wrong-occurrence/%s" % (PROP, segs[-1][0] if segs else "root"),
                            "an equal scalar at a different position was selected", clause,
                            describe(outcome), describe_oracle(oracle))], False
        return [Finding("oos", "coordinates-illformed(C02)/" + segs[-1][0], "", clause)], True
    # ---- disagreement on the node sequence: root cause
    model = explain_by_model(segs, data, items)
    if model is not None:
        return [Finding("witness", "%s/%s" % (PROP, "+".join(model)),
                        "the real answer is exactly what the known defect model %s predicts, "
                        "not the documented selection" % "+".join(model), clause,
                        describe(outcome), describe_oracle(oracle))], False
    dc, missing, n_extra = diff_class(items, oracle)
    pure_fc = bool(fc) and all(m.from_code or (m.virtual and any(e.from_code for e in m.node.results))
                               for m in missing) and (n_extra == 0 or bool(oracle.suppressed) or
                                                      any(o.from_code for o in oracle))
    if pure_fc and (missing or n_extra):
        return [Finding("oos", "from-code-disagreement/" + "+".join(sorted(fc)), "", clause,
                        describe(outcome), describe_oracle(oracle))], False
    if outcome[0] == "unmatched":
        dc = "unmatched"
    return [Finding("witness", "%s/unexplained/%s" % (PROP, localize(segs, data)),
                    "the selected node sequence differs from the documented selection (%s)" % dc, clause,
                    describe(outcome), describe_oracle(oracle))], False


def _node_kind(n):
    return "map" if Q.is_map(n) else "vlist" if isinstance(n, Q.VList) else "seq" if Q.is_seq(n) \
        else "set" if Q.is_set(n) else "null" if n is None else "scalar"


def localize(segs, data):
    """Where an unexplained disagreement starts: the last segment of the SHORTEST prefix of the path whose
    real answer already differs from the oracle's, with the kinds of node that segment is applied to
    (e.g. 'key@map', 'search.@seq+set', 'all-last@seq').  Same root cause -> same key on different inputs."""
    for j in range(1, len(segs) + 1):
        prefix = segs[:j]
        try:
            want = Q.query(prefix, data)
            before = Q.query(prefix[:-1], data)
        except (Q.SpecRaises, Q.SpecUndefined):
            continue
        got = real_required(data, pathgen.render(prefix, "."))
        if got[0] == "ok" and same_nodes(got[1], want):
            continue
        if got[0] == "unmatched" and not want:
            continue
        s = prefix[-1]
        kind = ("search" + ("." if s[2] == "." else "@") + ("!" if s[1] else "")) if s[0] == "search" else s[0]
        if s[0] in ("all", "trav"):
            kind += "-last"      # a prefix ending in '*'/'**' is evaluated in its last-segment form
        kinds = sorted(set(_node_kind(r.node) for r in before))
        return "%s@%s" % (kind, "+".join(kinds))
    s = segs[-1]
    return "%s@whole-path" % s[0]


def same_outcome(a, b):
    if a[0] != b[0]:
        return False
    if a[0] != "ok":
        return a[:3] == b[:3]
    x, y = a[1], b[1]
    return _ids(items=x) == _ids(items=y)


# ----------------------------------------------------------------------------- one case

def check_case(data, segs, fresh_loader=None, plain0=None):
    """All clauses for one (document, path).  -> (findings, signature | None, reloaded_data | None)."""
    findings = []
    dot, slash, ok_dot, ok_slash = path_info(segs)
    if not ok_dot:
        return [Finding("oos", "render-parse-mismatch(C08)", "", "parse")], None, None
    try:
        oracle = Q.query(segs, data)
    except Q.MatchRaised:
        # the library's own scalar comparison raised inside the oracle (C12/C15 matter); only a crash of
        # the query itself is reported here
        req = real_required(data, dot)
        if req[0] == "crash":
            return [Finding("witness", "%s/crash/%s@%s" % (PROP, req[1], req[2]),
                            "query raised a non-library exception: " + req[3], "required",
                            describe(req), "a selection")], None, None
        return [Finding("oos", "comparison-raised(C12)", "", "oracle")], None, None
    except Q.SpecUndefined:
        return [Finding("oos", "undefined-by-documentation", "", "oracle")], None, None
    except Q.SpecRaises as sr:
        oracle = sr

    # required ---------------------------------------------------------------
    req = real_required(data, dot)
    f, agreed = compare_required(segs, data, req, oracle)
    findings += f

    # notation ---------------------------------------------------------------
    if ok_slash:
        req2 = real_required(data, slash)
        if not same_outcome(req, req2):
            findings.append(Finding("witness", "%s/notation-mismatch" % PROP,
                                    "dot and forward-slash notation give different answers", "notation",
                                    {"dot": describe(req), "slash": describe(req2)}, "equal"))
    else:
        findings.append(Finding("oos", "render-parse-mismatch(C08)/slash", "", "parse"))

    # exists -----------------------------------------------------------------
    ex = real_exists(data, dot)
    if agreed:
        if isinstance(oracle, Q.SpecRaises):
            ok = ex[0] == "yamlpath"
            exp = "raises"
        else:
            exp = bool(len(oracle))
            ok = ex[0] == "ok" and ex[1] is exp
        if not ok:
            if ex[0] == "crash":
                key = "%s/crash/%s@%s" % (PROP, ex[1], ex[2])
            else:
                key = "%s/exists-disagrees/expected-%s" % (PROP, str(exp).lower())
            findings.append(Finding("witness", key, "exists() disagrees with the required-match query", "exists",
                                    list(ex[:3]), exp))

    # optional on an existing path ---------------------------------------------
    reloaded = None
    opt_sig = "-"
    if agreed and not isinstance(oracle, Q.SpecRaises) and len(oracle):
        if "virtual-continuation" in oracle.from_code:
            # optional-mode continuation past a virtual result is defined nowhere
            findings.append(Finding("oos", "optional/virtual-continuation-undefined", "", "optional"))
            opt_sig = "virtual"
        elif has_dead_deterministic_branch(segs, data):
            # optional mode would build the missing branch (its documented purpose); the statement's
            # "a path that already exists" is read as: no branch of the path is missing
            findings.append(Finding("oos", "optional/would-create-missing-branch", "", "optional"))
            opt_sig = "dead"
        else:
            culprit = defect_that_kills_a_branch(segs, data)
            if culprit is not None and fresh_loader is not None:
                # a known defect selects an extra node whose continuation is missing: the real call would
                # create nodes, so it runs on a throw-away load; any difference is that defect's doing
                target = fresh_loader()
                want = Q.query(segs, target)
                opt = real_optional(target, dot)
                opt_sig = opt[0]
                if opt[0] == "crash":
                    findings.append(Finding("witness", "%s/optional-crash/%s@%s" % (PROP, opt[1], opt[2]),
                                            "optional-match query raised a non-library exception: " + opt[3],
                                            "optional", describe(opt), describe_oracle(want)))
                elif opt[0] != "ok" or not same_nodes(opt[1], want):
                    findings.append(Finding("witness", "%s/%s" % (PROP, "+".join(culprit)),
                                            "optional-match on an existing path raises or creates nodes because the "
                                            "known defect %s selects a node the documentation does not"
                                            % "+".join(culprit), "optional", describe(opt), describe_oracle(want)))
            else:
                opt = real_optional(data, dot)
                opt_sig = opt[0]
                if plain0 is not None and gen.plain(data) != plain0:
                    findings.append(Finding("oos", "optional/mutated-document(C09)", "", "optional",
                                            describe(opt), describe_oracle(oracle)))
                    reloaded = fresh_loader() if fresh_loader else None
                if opt[0] == "crash":
                    findings.append(Finding("witness", "%s/optional-crash/%s@%s" % (PROP, opt[1], opt[2]),
                                            "optional-match query raised a non-library exception: " + opt[3],
                                            "optional", describe(opt), describe_oracle(oracle)))
                elif opt[0] != "ok" or not same_nodes(opt[1], oracle):
                    model = explain_optional(segs, data, opt[1]) if reloaded is None and opt[0] == "ok" else None
                    if model is not None:
                        key = "%s/%s" % (PROP, "+".join(model))
                        what = ("optional-match on an existing path differs from required-match exactly as the known "
                                "defect model %s predicts (optional-extra-none: the null a branch of the path crosses "
                                "is yielded; required-match ends that branch)" % "+".join(model))
                    elif oracle.from_code:
                        findings.append(Finding("oos", "from-code-disagreement/optional/" +
                                                "+".join(sorted(oracle.from_code)), "", "optional",
                                                describe(opt), describe_oracle(oracle)))
                        key = None
                    else:
                        key = "%s/optional-differs/%s" % (PROP, diff_class(opt[1], oracle)[0] if opt[0] == "ok"
                                                          else opt[0])
                        what = "optional-match on an existing path gives a different sequence than required-match"
                    if key:
                        findings.append(Finding("witness", key, what, "optional", describe(opt),
                                                describe_oracle(oracle)))

    # signature ---------------------------------------------------------------
    nontrivial = bool(findings) or req[0] != "unmatched"
    sig = None
    if nontrivial:
        tr = sorted(oracle.trace) if not isinstance(oracle, Q.SpecRaises) else ["raises"]
        n = min(len(oracle), 4) if not isinstance(oracle, Q.SpecRaises) else -1
        sig = (path_sig(segs), tr, n, req[0], ex[0], opt_sig, sorted(set(x.key for x in findings)))
    return findings, sig, reloaded


# ----------------------------------------------------------------------------- work units

DOCSETS = {}       # name -> list of templates (filled in run() before forking)
VOCAB = []


def _paths_for(unit, doc_index, seed):
    mode = unit["paths"]
    if mode == "one":
        yield []
        for s in VOCAB:
            yield [s]
    elif mode == "two-all":
        for a in VOCAB:
            for b in VOCAB:
                yield [a, b]
    elif mode == "sample":
        rng = random.Random(seed * 1000003 + doc_index * 7919 + unit["len"])
        n = len(VOCAB)
        for _ in range(unit["k"]):
            yield [VOCAB[rng.randrange(n)] for _ in range(unit["len"])]
    elif mode == "anchors":
        for p in anchor_paths():
            yield p
    else:
        raise ValueError(mode)


def _random_case(rng):
    t = gen.random_tree(rng)
    n = rng.randint(3, 5)
    path = []
    for _ in range(n):
        r = rng.random()
        if r < 0.3:
            path.append(("key", rng.choice(("a", "b", "c", 1, 2, "x.y"))))
        elif r < 0.4:
            path.append(("idx", rng.randint(-3, 3)))
        elif r < 0.5:
            path.append(("all",))
        elif r < 0.6 and (not path or path[-1] != ("trav",)):
            path.append(("trav",))
        else:
            path.append(VOCAB[rng.randrange(len(VOCAB))])
    return t, path


def _emit(col, f, inp, confirm):
    if f.kind == "oos":
        col.out_of_scope(f.key)
        samples = getattr(col, "oos_samples", None)
        if samples is not None and len(samples.setdefault(f.key, [])) < 2:
            samples[f.key].append({"inp": inp, "observed": f.observed, "expected": f.expected})
        return
    if confirm is not None:
        known = col.witnesses.get(f.key)
        if known is None or len(known["inputs"]) < col.max_inputs_per_key:
            again = replay(inp)
            if again is None or again["key"] != f.key:
                raise RuntimeError("witness not reproducible on a fresh load: %r %r -> %r" % (f.key, inp, again))
    col.witness(f.key, f.what, inp, f.observed, f.expected)


def _work(units, seed):
    col = Collector()
    col.oos_samples = {}
    for unit in units:
        if unit["docs"] == "random":
            for idx in range(unit["lo"], unit["hi"]):
                rng = random.Random(seed * 1000003 + idx)
                t, path = _random_case(rng)
                text = gen.to_yaml(t)
                _one_doc(col, text, doc_shape(t), [path], idx)
            continue
        if unit["docs"] == "anchors":
            for idx, text in enumerate(ANCHOR_DOCS):
                _one_doc(col, text, "anchors%d" % idx, list(_paths_for(unit, idx, seed)), idx)
            continue
        docs = DOCSETS[unit["docs"]]
        for idx in range(unit["lo"], min(unit["hi"], len(docs))):
            t = docs[idx]
            _one_doc(col, gen.to_yaml(t), doc_shape(t), _paths_for(unit, idx, seed), idx)
    return col.result(internal=True, oos_samples=col.oos_samples)


def _one_doc(col, text, shape, paths, idx):
    data = gen.load(text)
    plain0 = gen.plain(data)
    loader = lambda: gen.load(text)
    for segs in paths:
        findings, sig, reloaded = check_case(data, segs, loader, plain0)
        sample = None
        if sig is not None and len(col.samples) < col.max_samples and sig[3] == "ok" and len(segs) > 0:
            sample = {"doc": text, "path": pathgen.render(segs, "."), "outcome": sig[3], "n": sig[2]}
        col.case((shape, sig) if sig is not None else None, sample)
        for f in findings:
            _emit(col, f, {"doc": text, "segments": [list(s) for s in segs], "clause": f.clause}, True)
        if reloaded is not None:
            data = reloaded


def _units(docs, n, per, **kw):
    return [dict(docs=docs, lo=i, hi=i + per, **kw) for i in range(0, n, per)]


def plan(tier):
    """-> (docsets to build, work units, bounds)"""
    if tier == "quick":
        sets = {"small4": dict(max_nodes=4, max_depth=3, scalars=gen.SCALARS_SMALL),
                "full3": dict(max_nodes=3, max_depth=3, scalars=gen.SCALARS_FULL)}
        bounds = {"docs": "all trees N<=4 depth<=3 scalars {null,true,1,a}; all trees N<=3 over the 9-value scalar pool; "
                          "11 anchor/alias/merge documents; 1500 seeded random trees N<=14",
                  "paths": "every 1-segment path of the 186-segment vocabulary (+ the empty path); 24 seeded 2-segment and "
                           "6 seeded 3-segment paths per N<=4 document; 39 anchor paths; one random 3-5 segment path per random tree",
                  "notations": "dot and forward-slash", "exhaustive": "documents x 1-segment paths"}
        spec = [("small4", "one", {}, 12), ("full3", "one", {}, 12),
                ("small4", "sample", {"len": 2, "k": 24}, 60), ("small4", "sample", {"len": 3, "k": 6}, 120)]
        nrandom = 1500
    elif tier == "thorough":
        sets = {"small5": dict(max_nodes=5, max_depth=3, scalars=gen.SCALARS_SMALL),
                "small4": dict(max_nodes=4, max_depth=3, scalars=gen.SCALARS_SMALL),
                "small3": dict(max_nodes=3, max_depth=3, scalars=gen.SCALARS_SMALL),
                "full3": dict(max_nodes=3, max_depth=3, scalars=gen.SCALARS_FULL)}
        bounds = {"docs": "all trees N<=5 depth<=3 scalars {null,true,1,a}; all trees N<=3 over the 9-value scalar pool; "
                          "11 anchor/alias/merge documents; 20000 seeded random trees N<=14",
                  "paths": "every 1-segment path on every document; every 2-segment path (186^2) on all N<=3 documents; "
                           "250 seeded 2-segment and 100 seeded 3-segment paths per N<=4 document; anchor paths; "
                           "one random 3-5 segment path per random tree",
                  "notations": "dot and forward-slash", "exhaustive": "documents(N<=5) x 1-segment; documents(N<=3) x 2-segment"}
        spec = [("small5", "one", {}, 40), ("full3", "one", {}, 12), ("small3", "two-all", {}, 1),
                ("small4", "sample", {"len": 2, "k": 250}, 8), ("small4", "sample", {"len": 3, "k": 100}, 16)]
        nrandom = 20000
    elif tier == "mini":
        # smoke / mutation-testing tier (not a reporting tier): ~110k cases
        sets = {"small3": dict(max_nodes=3, max_depth=3, scalars=gen.SCALARS_SMALL)}
        bounds = {"docs": "all trees N<=3 depth<=3 scalars {null,true,1,a}; anchor documents; 300 random trees",
                  "paths": "every 1-segment path; 40 seeded 2-segment and 10 seeded 3-segment paths per document",
                  "notations": "dot and forward-slash", "exhaustive": "documents x 1-segment paths"}
        spec = [("small3", "one", {}, 12), ("small3", "sample", {"len": 2, "k": 40}, 30),
                ("small3", "sample", {"len": 3, "k": 10}, 60)]
        nrandom = 300
    else:
        raise ValueError("tier must be quick, thorough (or mini)")
    return sets, spec, nrandom, bounds


RULE = ("for every (document, path): Processor.get_nodes(path, mustexist=True) returns exactly spec.query(path, document) "
        "[same node objects, same order; scalars also same (parent, parentref); slice results element-wise]; "
        "UnmatchedYAMLPathException <=> oracle empty; exists() <=> oracle non-empty; mustexist=False on an existing path "
        "(no branch missing) returns the same sequence; the forward-slash rendering answers like the dot rendering. "
        "Oracle = DESIGN.md Appendix A; from-code rules never raise a witness.")


def run(tier="quick", seed=0, jobs=None):
    global VOCAB
    VOCAB = pathgen.vocabulary()
    sets, spec, nrandom, bounds = plan(tier)
    units = []
    for name, kw in sets.items():
        DOCSETS[name] = gen.trees(**kw)
    for name, mode, extra, per in spec:
        units += _units(name, len(DOCSETS[name]), per, paths=mode, **extra)
    units.append(dict(docs="anchors", paths="anchors", lo=0, hi=1))
    units += _units("random", nrandom, 250, paths="random")
    # spread heavy and light units
    random.Random(seed).shuffle(units)
    frac = float(os.environ.get("VERIF_UNIT_FRACTION", "1"))      # smoke runs only; recorded in bounds
    if frac < 1:
        units = units[:max(1, int(len(units) * frac))]
        bounds["unit_fraction"] = frac
    col = Collector()
    oos_samples = {}
    for part in pmap_chunks(_work, units, jobs=jobs, chunk=1, extra=(seed,)):
        col.merge(part)
        for k, v in part.get("oos_samples", {}).items():
            have = oos_samples.setdefault(k, [])
            have.extend(v[:max(0, 2 - len(have))])
    bounds["seed"] = seed
    bounds["vocabulary"] = len(VOCAB)
    bounds["documents"] = {k: len(v) for k, v in DOCSETS.items()}
    return col.result(rule=RULE, exhaustive=frac >= 1, bounds=bounds, property=PROP, tier=tier,
                      out_of_scope_samples=oos_samples)


def replay(inp):
    """Re-run ONE case on a fresh load of the document; the witness dict if it still fails, else None."""
    global VOCAB
    if not VOCAB:
        VOCAB = pathgen.vocabulary()
    segs = [tuple(s) if s and s[0] != "coll" else ("coll", s[1], [tuple(x) for x in s[2]]) for s in inp["segments"]]
    text = inp["doc"]
    data = gen.load(text)
    findings, _, _ = check_case(data, segs, lambda: gen.load(text), gen.plain(data))
    ws = [f for f in findings if f.kind == "witness"]
    pick = [f for f in ws if f.clause == inp.get("clause")] or ws
    if not pick:
        return None
    f = pick[0]
    return {"key": f.key, "what": f.what, "inputs": [inp], "observed": f.observed, "expected": f.expected, "count": 1}


if __name__ == "__main__":
    if len(sys.argv) > 1 and sys.argv[1] == "replay":
        print(json.dumps(replay(json.loads(sys.argv[2])), indent=1, default=repr))
    else:
        tier = sys.argv[1] if len(sys.argv) > 1 else "quick"
        seed = int(sys.argv[2]) if len(sys.argv) > 2 else int(os.environ.get("VERIF_SEED", "0"))
        jobs = int(sys.argv[3]) if len(sys.argv) > 3 else None
        print(json.dumps(run(tier, seed, jobs), indent=1, default=repr))
