"""C03 - a set changes exactly the matched nodes (and their aliases), nothing else.

Contract (from the property statement):

  S1  after `Processor(log, doc).set_value(path, value, mustexist=True)` every node the
      path matched - and every alias of a matched anchored node - holds the new value;
  S2  every other key, value, element, ordering and anchor of the document is exactly as
      before, including scalars that merely compare equal to the old value and keys that
      are spelled like it;
  S3  the edited document dumps (Parsers.get_yaml_editor()) to YAML which yamlpath's own
      strict loader (Parsers.get_yaml_data) accepts and which reloads to the same data;
  S4  S1-S3 still hold after any sequence of edits (set / create / delete), compared step
      by step with a plain-data model (rtc.c04: Cell model, aliases share one Cell).

"The nodes the path matched" are determined BEFORE the edit by `get_nodes(path,
mustexist=True)` on the same document and located by (parent object, parentref) through a
walk of the document (rtc.c04.flatten_results).  Values are compared *typed* (1, True and
1.0 differ).  New values are taken from an alphabet whose text form is unambiguous (a
string such as "1" or "true" is converted by the library's DEFAULT value format - that
conversion is `from-code` and such strings are not generated).

Out of scope (counted, never a witness): a path that matches nothing, matches the
document root or cannot be located (C01/C02/C15 material), get_nodes changing the document
(C09), and `None` written onto an anchored scalar (make_new_node cannot build an anchored
null; the task says "None where supported").
"""
import itertools
import json
import re
import random
import sys

from rtc import gen
from rtc import c04 as K
from rtc.harness import Collector, pmap_chunks

PROP = "C03"

VALUES_ALL = [9, 1, "z", "b", "a", "z w", "", "null", 2.5, True, False, None, "false", "True", "7", "1.5"]
VALUES_FEW = [9, "z", None]


def vcanon_of(value):
    """What the document holds after `value` was set.  A TEXT value that spells a boolean or a number is stored as that
    boolean / number (from-code: the default value format types text the way the command line needs it; `--format`
    chooses otherwise) -- so "false" must arrive as false, never as true."""
    if isinstance(value, str):
        low = value.lower()
        if low in ("true", "false"):
            return ["bool", low == "true"]
        if re.fullmatch(r"-?\d+", value):
            return ["int", int(value)]
        if re.fullmatch(r"-?\d+\.\d+", value):
            return ["float", repr(float(value))]
    return K.scalar_canon(value)


# ------------------------------------------------------------------------------------
# observation of a real document
# ------------------------------------------------------------------------------------
def snapshot_ids(doc):
    """Identity facts needed by the classification predicates (taken before the edit)."""
    node_ids, key_ids, scalars = {}, {}, {}
    for pos, node, _ in K.walk(doc):
        node_ids[pos] = id(node)
        if not K.is_container(node):
            scalars[pos] = K.scalar_canon(node)
        if isinstance(node, dict) and not K._is_set(node):
            for k, _v in K.own_items(node):
                key_ids[(pos, K.tok(k))] = id(k)
    return node_ids, key_ids, scalars


def scalar_anchor_map(doc):
    out = {}
    for pos, node, _ in K.walk(doc):
        if not K.is_container(node) and K.anchor_of(node):
            out[json.dumps(pos)] = K.anchor_of(node)
    return out


def model_positions_of_cell(model, cell):
    out = []

    def rec(node, pos):
        if isinstance(node, K.Cell):
            if node is cell:
                out.append(pos)
        elif node[0] == "map":
            for t, _, ch in node[1]:
                rec(ch, pos + (("k", t),))
        elif node[0] == "seq":
            for i, ch in enumerate(node[1]):
                rec(ch, pos + (("i", i),))
    rec(model, ())
    return out


def observe(doc):
    """-> dict(mem, anchors, dump_error, text, reload_error, reloaded, reload_anchors)."""
    o = {"mem": K.canon(doc), "anchors": scalar_anchor_map(doc), "dump_error": None, "text": None,
         "reload_error": None, "reloaded": None, "reload_anchors": None}
    try:
        o["text"] = K.dump_text(doc)
    except Exception as ex:  # noqa  (a dump that raises is an S3 failure)
        o["dump_error"] = "%s: %s" % (type(ex).__name__, str(ex)[:160])
        return o
    data, err = K.fresh_load(o["text"])
    if err is not None:
        o["reload_error"] = err
        return o
    o["reloaded"] = K.canon(data)
    o["reload_anchors"] = scalar_anchor_map(data)
    return o


# ------------------------------------------------------------------------------------
# classification of a failed set/create step
# ------------------------------------------------------------------------------------
def _ptype(pos):
    return {"i": "sequence", "k": "mapping", "m": "set"}[pos[-1][0]] if pos else "root"


def _ktok(k):
    return "%s:%s" % (k[0], "" if len(k) < 2 else k[-1])


def classify_set(ctx):
    """ctx: before, exp, exp_anchors, obs (observe()), exc, matched, aliases, ids, vcanon, flags.
    -> list of (suffix, what).  Predicates over the failing run; a frame violation (S2) found in
    the document explains a later crash of the same call and is reported instead of it."""
    exc, obs = ctx["exc"], ctx["obs"]
    matched, aliases = ctx["matched"], ctx["aliases"]
    node_ids, key_ids, scalars = ctx["ids"]
    vcanon = ctx["vcanon"]
    flags = ctx.get("flags", ())
    matched_ids = {node_ids[p] for p in matched if p in node_ids}
    exp, mem = ctx["exp"], obs["mem"]
    frame, upd = [], []
    for pos, kind, e, o in K.diff_canon(exp, mem):
        if kind == "value":
            if pos in aliases and pos not in matched:
                upd.append(("alias-in-%s-left-stale" % _ptype(pos),
                            "an alias of the matched anchored node keeps the old value"))
            elif pos in matched:
                if o == K.canon_at(ctx["before"], pos):
                    upd.append(("matched-node-not-updated/%s" % _ptype(pos), "a matched node still holds its old value"))
                else:
                    upd.append(("matched-node-holds-other-value/%s-for-%s" % (o[0], e[0]),
                                "a matched node holds something else than the new value"))
            elif o == vcanon and node_ids.get(pos) in matched_ids:
                frame.append(("bystander-changed-is-same-object-as-matched-scalar",
                              "an unmatched element that is the very same Python object as the matched scalar "
                              "(equal small int / interned string) received the new value too"))
            elif o == vcanon:
                frame.append(("bystander-equal-to-old-value-changed/%s" % _ptype(pos),
                              "an unmatched node received the new value"))
            else:
                frame.append(("bystander-changed/%s" % _ptype(pos), "an unmatched node changed"))
        elif kind == "keys":
            ek = [k for k, _ in e[1]]
            ok = [k for k, _ in o[1]]
            lost = [k for k in ek if k not in ok]
            if any(key_ids.get((pos, _ktok(k))) in matched_ids for k in lost):
                frame.append(("key-spelled-like-old-value-renamed",
                              "a mapping key that is the same object as (is spelled like) the old value was renamed "
                              "to the new value (clobbering an equal key if there is one)"))
            elif sorted(map(json.dumps, ek)) == sorted(map(json.dumps, ok)):
                frame.append(("mapping-key-order-changed", "the key order of a mapping changed"))
            elif any(p[:-1] == pos for p in matched):
                frame.append(("matched-mapping-keys-changed", "the keys of the mapping holding a match changed"))
            else:
                frame.append(("bystander-mapping-keys-changed", "the keys of an unrelated mapping changed"))
        elif kind == "members":
            mtoks = {p[-1][1] for p in matched if p[:-1] == pos and p[-1][0] == "m"}
            lost = [m for m in e[1] if m not in o[1] and m != vcanon]
            if lost:
                frame.append(("set-member-equal-to-old-value-replaced",
                              "a YAML set lost an unmatched member equal to the old value and gained the new value"))
            elif mtoks:
                upd.append(("matched-set-member-not-replaced", "the set holding the matched member is not the expected one"))
            else:
                frame.append(("unrelated-set-changed", "a YAML set that holds no match changed"))
        else:
            frame.append(("sequence-length-changed", "a sequence changed its length"))
    if "slice" in flags and any(k.startswith("matched-node-") for k, _ in upd):
        # of a slice's elements only the first is written: the others (and their aliases) keep their value
        upd = [("slice-elements-not-all-set",
                "of the elements selected by an array slice only the first receives the new value")]
    out = []
    if exc is not None:
        where = K.repo_frame(exc)
        name = type(exc).__name__
        if frame:
            return list(dict.fromkeys(frame))
        if K.is_ype(exc):
            out.append(("unexpected-%s@%s" % (name, where), "setting a matched node raised a YAMLPathException"))
        else:
            _line, loc = K.crash_site(exc)
            data = loc.get("data")
            if name == "RuntimeError" and "mutated during iteration" in str(exc):
                if any(kid in matched_ids for kid in key_ids.values()):
                    out.append(("key-spelled-like-old-value-renamed",
                                "a mapping key that is the same object as (is spelled like) the old value was renamed "
                                "to the new value (clobbering an equal key if there is one)"))
                elif any(p[-1][0] == "m" for p in matched):
                    out.append(("mutated-during-iteration/set-member-replaced-under-the-matching-generator",
                                "replacing a matched set member while the path search still iterates that set raises RuntimeError"))
                else:
                    out.append(("mutated-during-iteration@%s" % where,
                                "the edit changed a container the path search was still iterating"))
            elif where.endswith(":recurse") and K._is_set(data):     # the set arm: discard(old) / add(new)
                if data is not loc.get("parent"):
                    out.append(("unrelated-yaml-set-in-document-crashes-set_value",
                                "the change routine discards the old value from EVERY YAML set of the document; "
                                "a set that does not contain it (or an unhashable old value) raises"))
                else:
                    out.append(("set-member-matched-twice-crashes",
                                "a set member matched more than once: the second update discards a member that is gone"))
            else:
                out.append(("%s@%s" % (name, where), "set_value raised a non-YAMLPath exception"))
        return out
    out = frame + upd
    if not out:
        an = obs["anchors"]
        for p in sorted(set(an) | set(ctx["exp_anchors"])):
            if an.get(p) != ctx["exp_anchors"].get(p):
                pos = tuple(tuple(x) for x in json.loads(p))
                who = "matched" if (pos in matched or pos in aliases) else "bystander"
                out.append(("anchor-changed/%s" % who, "the anchor of a %s node is not as before" % who))
                break
    low = (obs["reload_error"] or "").lower()
    if out and not ("duplicate" in low and "anchor" in low):
        return list(dict.fromkeys(out))      # S3 trouble of an already wrong document is a consequence
    if obs["dump_error"]:
        out.append(("dump-raises/%s" % obs["dump_error"].split(":")[0], "the edited document cannot be dumped"))
    elif obs["reload_error"]:
        if "duplicate" in low and "anchor" in low:
            out.append(("duplicate-anchor-on-dump",
                        "the dump defines the same anchor twice (stale alias serialised as a second definition); "
                        "yamlpath's loader rejects it"))
        elif not control_roundtrips(mem):
            out.append(("OOS:ruamel-cannot-roundtrip-this-data-in-flow-style", ""))
        else:
            out.append(("dump-not-reloadable", "yamlpath's loader rejects the dumped document"))
    elif obs["reloaded"] != mem:
        if not control_roundtrips(mem):
            out.append(("OOS:ruamel-cannot-roundtrip-this-data-in-flow-style", ""))
        else:
            d = next(K.diff_canon(mem, obs["reloaded"]))
            out.append(("reload-differs-from-memory/%s" % (d[1] if d[1] != "value" else "%s-becomes-%s" % (d[2][0], d[3][0])),
                        "the dumped text reloads to other data than the edited document holds"))
    elif anchors_missing_in_dump(obs, ctx["exp_anchors"]):
        # the anchors the document has in memory are not the anchors its dump defines (an anchor without an alias is
        # written only when the node asks for it)
        gone = anchors_missing_in_dump(obs, ctx["exp_anchors"])
        p = sorted(p_ for p_, n_ in ctx["exp_anchors"].items() if n_ in gone)[0]
        pos = tuple(tuple(x) for x in json.loads(p))
        who = "matched" if (pos in matched or pos in aliases) else "bystander"
        out.append(("anchor-not-in-the-dump/%s" % who, "the dump of the edited document no longer defines an anchor of a %s node" % who))
    return list(dict.fromkeys(out))


def anchors_missing_in_dump(obs, exp_anchors):
    """Names of scalar anchors the document should have that the DUMPED TEXT does not define (`&name`).  Judged on the text:
    ruamel's loader itself drops the anchor of some reloaded scalars (a plain 0), which is not yamlpath's doing."""
    text = obs.get("text")
    if not text or not exp_anchors:
        return set()
    return {n for n in set(exp_anchors.values()) if not re.search(r"&%s(?![A-Za-z0-9_])" % re.escape(n), text)}


def split_oos(cl):
    real = [(k, w) for k, w in cl if not k.startswith("OOS:")]
    oos = [k[4:] for k, _ in cl if k.startswith("OOS:")]
    return real, (oos[0] if oos else None)


def render_canon(c):
    """canonical data -> flow-style YAML text written by this harness (no anchors)."""
    if c[0] == "map":
        return "{" + ", ".join("%s: %s" % (render_canon(k), render_canon(v)) for k, v in c[1]) + "}"
    if c[0] == "seq":
        return "[" + ", ".join(render_canon(v) for v in c[1]) + "]"
    if c[0] == "set":
        return "!!set {" + ", ".join("%s: null" % render_canon(v) for v in c[1]) + "}"
    if c[0] == "null":
        return "null"
    if c[0] == "bool":
        return "true" if c[1] else "false"
    if c[0] == "int":
        return str(c[1])
    if c[0] == "float":
        return gen.scalar_yaml(float(c[1]))
    if c[0] == "str":
        return gen.scalar_yaml(c[1])
    raise K.HarnessError("cannot render %r" % (c,))


def control_roundtrips(c):
    """Control experiment for S3: does the SAME data, written afresh by the harness and never
    touched by yamlpath's editing code, survive load -> dump -> reload?  If not, a reload
    failure is ruamel.yaml's (flow style) and not evidence against set_value."""
    data, err = K.fresh_load(render_canon(c))
    if err is not None:
        return False
    try:
        text = K.dump_text(data)
    except Exception:  # noqa
        return False
    again, err = K.fresh_load(text)
    return err is None and K.canon(again) == c


def describe(obs, exc):
    if obs is None:
        s = "(not observed)"
    else:
        s = K.pretty(obs["mem"])
        if obs["text"] is not None:
            s += "  dump=%r" % obs["text"].replace("--- ", "").strip()
        if obs["dump_error"]:
            s += "  dump raised " + obs["dump_error"]
        if obs["reload_error"]:
            s += "  reload rejected: " + " ".join(obs["reload_error"].split())[:90]
        elif obs["reloaded"] is not None and obs["reloaded"] != obs["mem"]:
            s += "  reloads as " + K.pretty(obs["reloaded"])
    if exc is not None:
        s += "  raised %s: %s" % (type(exc).__name__, str(exc)[:100])
    return s


def is_null_on_anchor(exc, value):
    return (value is None and isinstance(exc, TypeError) and K.repo_frame(exc).endswith(":make_new_node"))


# ------------------------------------------------------------------------------------
# one set
# ------------------------------------------------------------------------------------
def prepare_set(doc, model, positions):
    """Shared by the single-step case and the history steps: alias positions + identity facts."""
    matched = set(positions)
    aliases = set()
    for p in matched:
        try:
            c = K.model_get(model, p)
        except KeyError:
            continue
        if isinstance(c, K.Cell) and c.anchor and p[-1][0] != "m":
            aliases.update(model_positions_of_cell(model, c))
    return matched, aliases, snapshot_ids(doc)


def run_set_case(text, path, value):
    from yamlpath import Processor
    doc = K.must_load(text)
    before = K.canon(doc)
    status, res = K.gather(doc, path)
    if K.canon(doc) != before:
        return {"status": "oos", "oos": "get_nodes-changed-the-document"}
    if status == "nomatch":
        return {"status": "oos", "oos": "zero-match"}
    if status == "crash":
        return {"status": "oos", "oos": "get_nodes-crashed/%s@%s" % (type(res).__name__, K.repo_frame(res))}
    if status == "ype":
        return {"status": "oos", "oos": "path-rejected/%s" % type(res).__name__}
    try:
        positions, flags = K.flatten_results(doc, res)
    except K.Unresolvable as ex:
        return {"status": "oos", "oos": K.oos_key(ex)}
    if not positions:
        return {"status": "oos", "oos": "zero-match/empty-result"}
    if () in positions:
        return {"status": "oos", "oos": "root-matched"}
    model = K.model_of(doc)
    if not any(isinstance(K.model_get(model, p), K.Cell) for p in positions):
        return {"status": "oos", "oos": "no-scalar-matched"}
    matched, aliases, ids = prepare_set(doc, model, positions)
    vcanon = vcanon_of(value)
    K.model_set(model, positions, vcanon)
    exp = K.model_canon(model)
    exp_anchors = K.model_anchor_map(model)
    exc = None
    try:
        Processor(K.logger(), doc).set_value(path, value, mustexist=True)
    except Exception as ex:  # noqa
        exc = ex
    if exc is not None and is_null_on_anchor(exc, value):
        return {"status": "oos", "oos": "null-onto-anchored-scalar-unsupported/TypeError@nodes.py:make_new_node"}
    obs = observe(doc)
    ok = (exc is None and obs["mem"] == exp and obs["anchors"] == exp_anchors and obs["dump_error"] is None
          and obs["reload_error"] is None and obs["reloaded"] == exp and not anchors_missing_in_dump(obs, exp_anchors))
    kinds = sorted({_ptype(p) for p in matched})
    sig = [PROP, K.skeleton(before), K._path_kinds(path), vcanon[0], min(len(matched), 3),
           len(positions) > len(matched), bool(aliases - matched), kinds, sorted(flags)]
    r = {"status": "ok", "sig": sig, "witnesses": [],
         "sample": {"doc": text, "path": path, "value": value,
                    "matched": [list(map(list, p)) for p in sorted(matched, key=json.dumps)],
                    "aliases": [list(map(list, p)) for p in sorted(aliases - matched, key=json.dumps)],
                    "after": describe(obs, None)}}
    if ok:
        return r
    ctx = {"before": before, "exp": exp, "exp_anchors": exp_anchors, "obs": obs, "exc": exc, "matched": matched,
           "aliases": aliases, "ids": ids, "vcanon": vcanon, "flags": flags}
    cl, oos = split_oos(classify_set(ctx))
    if not cl and oos:
        return {"status": "oos", "oos": oos}
    if not cl:
        raise K.HarnessError("set case failed without a classified difference: %r %r %r" % (text, path, value))
    r["status"] = "witness"
    r["sig"] = sig + [cl[0][0]]
    for suffix, what in cl:
        r["witnesses"].append(("%s/%s" % (PROP, suffix), what, describe(obs, exc), K.pretty(exp)))
    return r


# ------------------------------------------------------------------------------------
# paths of a document (rendered from its own positions)
# ------------------------------------------------------------------------------------
def _seg_text(el, first):
    kind, ref = el
    if kind == "i":
        return "[%d]" % ref
    name = ref.split(":", 1)[1]
    return name if first else "." + name


def render_pos(pos):
    return "".join(_seg_text(el, i == 0) for i, el in enumerate(pos))


def render_pos_slash(pos):
    return "/" + "/".join(("[%d]" % r) if k == "i" else r.split(":", 1)[1] for k, r in pos).replace("/[", "[")


def _simple(pos):
    for kind, ref in pos:
        if kind != "i":
            t, _, name = ref.partition(":")
            if t != "str" or not name.isalpha():
                return False
    return True


def doc_paths(text):
    """-> (direct paths to scalars, other paths): all derived from the document's positions."""
    doc = K.must_load(text)
    direct, other = [], []
    conts, scal = [], []
    for pos, node, parent in K.walk(doc):
        if not _simple(pos):
            continue
        if K.is_container(node):
            conts.append((pos, node))
        elif pos:
            scal.append((pos, node, parent))
    for pos, node, parent in scal:
        direct.append(render_pos(pos))
        other.append(render_pos_slash(pos))
        if pos[-1][0] == "i":
            other.append(render_pos(pos[:-1]) + "[%d]" % (pos[-1][1] - len(parent)))
        a = K.anchor_of(node)
        if a:
            other.append("&" + a)
            if len(pos) > 1:
                other.append(render_pos(pos[:-1]) + "[&%s]" % a)
    for pos, node in conts:
        base = render_pos(pos)
        other.append((base + ".*") if base else "*")
        other.append((base + ".**") if base else "**")
        vals = []
        for _, ch in K.children(node):
            if not K.is_container(ch) and ch is not None and not isinstance(ch, bool):
                vals.append(str(ch))
        for v in dict.fromkeys(vals):
            if v and v.replace(".", "").isalnum():
                other.append(base + "[.=%s]" % v)
                other.append(base + "[.!=%s]" % v)
        if isinstance(node, list) and not K._is_set(node):
            if len(node) >= 2:
                other.append(base + "[0:2]")
            if len(node) >= 3:
                other.append(base + "[1:3]")
                other.append(base + "[-2:9]")
            other.append(base + "[.>0]")
    d4 = direct[:4]
    for p, q in itertools.product(d4, repeat=2):
        other.append("(%s)+(%s)" % (p, q))
    return list(dict.fromkeys(direct)), [p for p in dict.fromkeys(other) if p not in direct]


HAND_DOCS = [
    "[1, 1, 2]", "{a: 1, b: 1}", "{a: b, b: x}", "{a: [1, 1], b: 1}", "[a, a, b]", "[[1], 1, [1]]",
    "{a: {b: a}, b: a}", "[x, {x: 1}]", "{a: a}", "[1.5, 1.5]", "[true, true, 1]", "[null, null]", "[xy, xy, {xy: 1}]",
    "{a: &x 1, b: *x}", "{a: &x 1, b: *x, l: [*x, 2]}", "{a: 1, b: &x 1, l: [*x, 1]}", "[&x 1, *x, 2]", "[&x a, *x, *x]",
    "{l: [&x 1, 2], b: *x}", "{l: [&x 1, 2], m: [*x, 3]}", "{a: &x q, b: {c: *x, d: [*x]}}", "[[&x 1], [*x], 1]",
    "{a: &x 1, b: &y 1, c: *x, d: *y}", "{a: &x b, b: *x}", "{l: [&x 1, *x], a: 1}", "{a: &x 1.5, b: [*x]}",
    "{a: &x true, b: [*x, true]}",
    "{s: !!set {a, b}, k: 1}", "{s: !!set {a, b}, k: a}", "[!!set {a, b}, 1]", "{s: !!set {a, b}}",
]


def tree_docs(tier):
    n = 4 if tier == "quick" else 5
    ts = gen.trees(n, 3, keys=("a", "b"), scalars=(1, "a", "b"), sets=False)
    return [gen.to_yaml(t) for t in ts if isinstance(t, (dict, list))]


def set_cases(tier):
    cases = []
    for text in tree_docs(tier):
        direct, other = doc_paths(text)
        cases += [(text, p, v) for p in direct for v in VALUES_ALL]
        cases += [(text, p, v) for p in other for v in VALUES_FEW]
    for text in HAND_DOCS:
        direct, other = doc_paths(text)
        cases += [(text, p, v) for p in direct + other for v in VALUES_ALL]
    return cases


def random_set_cases(seed, count):
    rng = random.Random(seed)
    out = []
    names = ("x", "y")
    while len(out) < count:
        t = gen.random_tree(rng, max_nodes=10, max_depth=4, keys=("a", "b", "c"), scalars=(1, 2, "a", "b", 1.5, True, None))
        if not isinstance(t, (dict, list)):
            continue
        text = gen.to_yaml(t)
        text = _sprinkle_anchors(rng, text, names)
        doc, err = K.fresh_load(text)
        if err is not None:
            continue
        direct, other = doc_paths(text)
        pool = direct + other
        if not direct:
            continue
        for _ in range(4):
            out.append((text, rng.choice(pool), rng.choice(VALUES_ALL)))
    return out[:count]


def _sprinkle_anchors(rng, text, names):
    """Turn some scalar VALUES of a flow-style text into `&x v` ... `*x` (textual, value position only)."""
    import re
    spots = [m for m in re.finditer(r"(?<=[\[,:] )(?:[a-z]+|\d+(?:\.\d+)?)(?=[,\]}])|(?<=\[)(?:[a-z]+|\d+(?:\.\d+)?)(?=[,\]])", text)
             if m.group(0) not in ("null", "true", "false")]
    if len(spots) < 2 or rng.random() < 0.3:
        return text
    k = rng.randint(2, min(4, len(spots)))
    chosen = sorted(rng.sample(spots, k), key=lambda m: m.start())
    name = rng.choice(names)
    out, last = [], 0
    for i, m in enumerate(chosen):
        out.append(text[last:m.start()])
        out.append(("&%s %s" % (name, m.group(0))) if i == 0 else "*" + name)
        last = m.end()
    out.append(text[last:])
    return "".join(out)


# ------------------------------------------------------------------------------------
# histories
# ------------------------------------------------------------------------------------
def S(path, value):
    return {"op": "set", "path": path, "value": value}


def D(path):
    return {"op": "delete", "path": path}


def C(segs, value):
    return {"op": "create", "segs": [list(s) for s in segs], "value": value,
            "path": render_pos(tuple((k, ("str:" + r) if k == "k" else r) for k, r in segs))}


HISTORY_DOCS = [
    ("{a: x, b: [y, q], c: {d: 2}}",
     [S("a", 9), S("b[0]", "z"), S("c.d", 2.5), S("b.*", 7), D("b[0]"), D("c"), D("a"),
      C([("k", "e")], 5), C([("k", "b"), ("i", 2)], 6), C([("k", "c"), ("k", "f"), ("k", "g")], True)]),
    ("{a: &x 1, b: *x, l: [*x, 2]}",
     [S("b", 8), S("l[0]", 7), S("l[1]", "z"), S("&x", 5), D("b"), D("l[0]"), D("a"),
      C([("k", "c")], 5), C([("k", "l"), ("i", 2)], 6)]),
    ("{a: &x 1, b: *x, c: {d: *x}}",
     [S("a", 9), S("b", 8), S("c.d", "z"), S("*", 4), D("b"), D("a"), D("c.d"), C([("k", "e")], 1), C([("k", "c"), ("k", "f")], None)]),
    ("[&x 1, *x, 2]",
     [S("[0]", 9), S("[1]", 8), S("[2]", "z"), D("[0]"), D("[1]"), D("[-1]"), C([("i", 3)], 6), S("[.>5]", 0)]),
    ("{a: 1, b: [1, 1, 2], c: 2}",
     [S("a", 9), S("b[1]", 8), S("c", "z"), S("b[0]", 7), D("b[0]"), D("a"), D("b.*"), C([("k", "d")], 1), C([("k", "b"), ("i", 3)], 1)]),
    ("{a: b, b: x, l: []}",
     [S("b", "y"), S("a", "z"), D("a"), D("l"), C([("k", "l"), ("i", 0)], "b"), C([("k", "c")], "a"), S("l[0]", 3), D("l[0]")]),
    ("[[], {}, 3]",
     [C([("i", 0), ("i", 0)], 1), C([("i", 1), ("k", "a")], 2), S("[2]", 4), D("[2]"), D("[0][0]"), D("[1].a"), S("[0][0]", "z"), D("[0]")]),
]


def model_create(model, segs, vcanon):
    """Straight-line key/index path: existing prefix is followed, the missing tail is created
    (missing key -> appended key; index == length -> appended element).  None = not applicable
    (scalar in the way, kind mismatch, index beyond the end: padding is `from-code`)."""
    node = model
    for n, (kind, ref) in enumerate(segs):
        last = n == len(segs) - 1
        if isinstance(node, K.Cell):
            return None
        nxt = None if last else (["map", []] if segs[n + 1][0] == "k" else ["seq", []])
        if kind == "k":
            if node[0] != "map":
                return None
            t = "str:" + ref
            ent = [e for e in node[1] if e[0] == t]
            if ent:
                if last:
                    cur = ent[0][2]
                    if isinstance(cur, K.Cell) and cur.anchor:
                        cur.v = vcanon
                    else:
                        ent[0][2] = K.Cell(vcanon)
                    return model
                node = ent[0][2]
            else:
                child = K.Cell(vcanon) if last else nxt
                node[1].append([t, ["str", ref], child])
                node = child
        else:
            if node[0] != "seq" or ref < 0 or ref > len(node[1]):
                return None
            if ref < len(node[1]):
                if last:
                    cur = node[1][ref]
                    if isinstance(cur, K.Cell) and cur.anchor:
                        cur.v = vcanon
                    else:
                        node[1][ref] = K.Cell(vcanon)
                    return model
                node = node[1][ref]
            else:
                child = K.Cell(vcanon) if last else nxt
                node[1].append(child)
                node = child
    return model


def run_history(text, ops):
    """Run ops step by step against the model.  -> dict(status, steps, witnesses, oos, sig)."""
    import copy
    from yamlpath import Processor
    doc = K.must_load(text)
    model = K.model_of(doc)
    trace = []
    done = []                      # the ops actually executed (skipped ones are not part of a witness input)
    for n, op in enumerate(ops):
        done.append(op)
        before = K.canon(doc)
        if before != K.model_canon(model):
            raise K.HarnessError("model and document diverged without a reported failure")
        kind = op["op"]
        exc = None
        positions, flags = [], set()
        if kind in ("set", "delete"):
            status, res = K.gather(doc, op["path"])
            if K.canon(doc) != before:
                return {"status": "oos", "oos": "get_nodes-changed-the-document", "steps": n, "trace": trace}
            if status == "nomatch":
                trace.append("skip")
                done.pop()
                continue
            if status != "ok":
                return {"status": "oos", "oos": "history-step-get_nodes-%s" % status, "steps": n, "trace": trace}
            try:
                positions, flags = K.flatten_results(doc, res)
            except K.Unresolvable as ex:
                return {"status": "oos", "oos": K.oos_key(ex), "steps": n, "trace": trace}
            if not positions or () in positions:
                trace.append("skip")
                done.pop()
                continue
        if kind == "delete":
            matched_nodes = {p: K.canon(K.node_at(doc, p)) for p in set(positions)}
            model = K.model_delete(model, positions)
            exp = K.model_canon(model)
            exp_anchors = K.model_anchor_map(model)
            try:
                list(Processor(K.logger(), doc).delete_nodes(op["path"]))
            except Exception as ex:  # noqa
                exc = ex
            obs = observe(doc)
            ok = (exc is None and obs["mem"] == exp and obs["dump_error"] is None and obs["reload_error"] is None
                  and obs["reloaded"] == exp and not anchors_missing_in_dump(obs, exp_anchors) and obs["anchors"] == exp_anchors)
            if not ok:
                if exc is not None or obs["mem"] != exp:
                    cl = [("history-delete/" + s, w) for s, w in
                          K.classify_delete(before, obs["mem"], exp, positions, flags, exc, matched_nodes)]
                else:
                    ctx = {"before": before, "exp": exp, "exp_anchors": exp_anchors, "obs": obs, "exc": None,
                           "matched": set(), "aliases": set(), "ids": ({}, {}, {}), "vcanon": None}
                    cl, oos = split_oos(classify_set(ctx))
                    if not cl and oos:
                        return {"status": "oos", "oos": oos, "steps": n, "trace": trace}
                    cl = [("history-delete/" + s, w) for s, w in cl]
                return _hist_fail(text, done, n, cl, obs, exc, exp, trace)
            trace.append("delete")
            continue
        vcanon = vcanon_of(op["value"])
        if kind == "set":
            matched, aliases, ids = prepare_set(doc, model, positions)
            K.model_set(model, positions, vcanon)
        else:
            segs = [tuple(s) for s in op["segs"]]
            trial = model_create(copy.deepcopy(model), segs, vcanon)
            if trial is None:
                trace.append("skip")
                done.pop()
                continue
            # the position the straight-line path addresses (existing or new)
            pos = tuple((k, ("str:" + r) if k == "k" else r) for k, r in segs)
            try:
                K.model_get(model, pos)
                exists = True
            except KeyError:
                exists = False
            _m, aliases, ids = prepare_set(doc, model, [pos] if exists else [])
            matched = {pos}
            model = model_create(model, segs, vcanon)
        exp = K.model_canon(model)
        exp_anchors = K.model_anchor_map(model)
        try:
            if kind == "set":
                Processor(K.logger(), doc).set_value(op["path"], op["value"], mustexist=True)
            else:
                Processor(K.logger(), doc).set_value(op["path"], op["value"])
        except Exception as ex:  # noqa
            exc = ex
        if exc is not None and is_null_on_anchor(exc, op["value"]):
            return {"status": "oos", "oos": "null-onto-anchored-scalar-unsupported/TypeError@nodes.py:make_new_node",
                    "steps": n, "trace": trace}
        obs = observe(doc)
        ok = (exc is None and obs["mem"] == exp and obs["anchors"] == exp_anchors and obs["dump_error"] is None
              and obs["reload_error"] is None and obs["reloaded"] == exp and not anchors_missing_in_dump(obs, exp_anchors))
        if not ok:
            ctx = {"before": before, "exp": exp, "exp_anchors": exp_anchors, "obs": obs, "exc": exc,
                   "matched": matched, "aliases": aliases, "ids": ids, "vcanon": vcanon, "flags": flags}
            cl, oos = split_oos(classify_set(ctx))
            if not cl and oos:
                return {"status": "oos", "oos": oos, "steps": n, "trace": trace}
            if kind == "create":
                cl = [("history-create/" + s, w) for s, w in cl]
            if not cl:
                raise K.HarnessError("history step failed without a classified difference: %r %r" % (text, ops[:n + 1]))
            return _hist_fail(text, done, n, cl, obs, exc, exp, trace)
        trace.append(kind)
    return {"status": "ok", "steps": len(ops), "trace": trace, "witnesses": [], "doc": text,
            "ops": [[o["op"], o["path"]] + ([o["value"]] if "value" in o else []) for o in ops],
            "after": K.pretty(K.model_canon(model)),
            "sig": [PROP, "history", K.skeleton(K.canon(K.must_load(text))), trace]}


def _hist_fail(text, done, n, cl, obs, exc, exp, trace):
    return {"status": "witness", "steps": n + 1, "trace": trace + ["FAIL"], "failed_at": n,
            "witnesses": [("%s/%s" % (PROP, s), w, describe(obs, exc), K.pretty(exp)) for s, w in cl],
            "sig": [PROP, "history", text, trace, cl[0][0]],
            "inp": {"kind": "history", "yaml": text, "ops": list(done)}}


def _hist_chunk(items, length):
    """items: (doc index, tuple of leading op indexes); enumerates all continuations up to `length`,
    skipping continuations of a prefix already seen failing / out of scope."""
    col = Collector()
    for di, lead in items:
        text, alphabet = HISTORY_DOCS[di]
        dead = set()
        for rest in itertools.product(range(len(alphabet)), repeat=length - len(lead)):
            seq = tuple(lead) + rest
            if any(seq[:k] in dead for k in range(1, len(seq) + 1)):
                continue
            r = run_history(text, [alphabet[i] for i in seq])
            _account_history(col, r, seq, dead)
    return col.result(internal=True)


def _account_history(col, r, seq, dead):
    if r["status"] == "oos":
        col.case()
        col.out_of_scope(r["oos"])
        if dead is not None:
            dead.add(tuple(seq[:r["steps"] + 1]))
        return
    full = r["status"] == "ok" and "skip" not in r["trace"] and len(set(r["trace"])) == 3
    col.case(r["sig"], {"doc": r["doc"], "ops": r["ops"], "model_after": r["after"]} if full else None)
    if r["status"] == "witness":
        if dead is not None:
            dead.add(tuple(seq[:r["failed_at"] + 1]))
        for key, what, obs, exp in r["witnesses"]:
            col.witness(key, what, r["inp"], obs, exp)


def _hist_random_chunk(items):
    col = Collector()
    for di, seq in items:
        text, alphabet = HISTORY_DOCS[di]
        r = run_history(text, [alphabet[i] for i in seq])
        _account_history(col, r, seq, None)
    return col.result(internal=True)


def _set_chunk(cases):
    col = Collector()
    for text, path, value in cases:
        r = run_set_case(text, path, value)
        if r["status"] == "oos":
            col.case()
            col.out_of_scope(r["oos"])
            continue
        col.case(r["sig"], r["sample"] if (r["status"] == "ok" and r["sig"][6]) else None)
        for key, what, obs, exp in r["witnesses"]:
            col.witness(key, what, {"kind": "set", "yaml": text, "path": path, "value": value}, obs, exp)
    return col.result(internal=True)


def run(tier="quick", seed=0, jobs=None):
    col = Collector(max_samples=4)
    hcol = Collector(max_samples=4)
    cases = set_cases(tier)
    n_exh = len(cases)
    n_rand = 8000 if tier == "quick" else 200000
    cases += random_set_cases(seed, n_rand)
    for part in pmap_chunks(_set_chunk, cases, jobs=jobs, chunk=500):
        col.merge(part)
    hlen = 3 if tier == "quick" else 4          # exhaustive history length
    hmax = 4 if tier == "quick" else 6          # random histories: lengths hlen+1 .. hmax
    n_hrand = 4000 if tier == "quick" else 60000
    items = []
    for di, (_, alphabet) in enumerate(HISTORY_DOCS):
        items += [(di, lead) for lead in itertools.product(range(len(alphabet)), repeat=hlen - 2)]
    for part in pmap_chunks(_hist_chunk, items, jobs=jobs, chunk=2, extra=(hlen,)):
        hcol.merge(part)
    rng = random.Random(seed + 1)
    ritems = []
    for _ in range(n_hrand):
        di = rng.randrange(len(HISTORY_DOCS))
        ritems.append((di, tuple(rng.randrange(len(HISTORY_DOCS[di][1])) for _ in range(rng.randint(hlen + 1, hmax)))))
    for part in pmap_chunks(_hist_random_chunk, ritems, jobs=jobs, chunk=250):
        hcol.merge(part)
    total = Collector(max_samples=8)
    total.t0 = col.t0
    total.merge(col.result(internal=True))
    total.merge(hcol.result(internal=True))
    col = total
    bounds = {"tree_docs": len(tree_docs(tier)), "tree_max_nodes": 4 if tier == "quick" else 5, "tree_max_depth": 3,
              "tree_keys": ["a", "b"], "tree_scalars": [1, "a", "b"], "hand_docs": len(HAND_DOCS),
              "values_direct_paths": VALUES_ALL, "values_other_paths_on_tree_docs": VALUES_FEW,
              "paths": "per document: direct dot path to every scalar (all values); slash form, negative index, "
                       "&anchor, container.*, container.**, [.=v], [.!=v], [.>0], [0:2], [1:3], (p)+(q) over the "
                       "first 4 direct paths",
              "exhaustive_set_cases": n_exh, "random_set_cases": n_rand, "seed": seed,
              "history_docs": len(HISTORY_DOCS), "history_alphabet_sizes": [len(a) for _, a in HISTORY_DOCS],
              "history_exhaustive_length": hlen, "history_random_length": hmax, "history_random": n_hrand}
    rule = ("single edits: for every document x path matching >= 1 scalar x value: matched positions from "
            "get_nodes(mustexist=True) before the edit; expected = old plain data with exactly those positions and "
            "every alias (same anchored node object) of them holding the value; after set_value(mustexist=True) the "
            "document, its scalar anchors, and the reload of its dump (yamlpath's strict loader must accept it) all "
            "equal the expectation, typed.  Histories: every op sequence of length <= %d over a per-document "
            "alphabet of 8-10 set/create/delete ops (%d documents), %d seeded random sequences of length %d, "
            "each step checked the same way against the plain-data model" % (hlen, len(HISTORY_DOCS), n_hrand, hmax))
    return col.result(rule=rule, exhaustive=True, bounds=bounds)


def replay(inp):
    if inp.get("kind") == "history":
        r = run_history(inp["yaml"], inp["ops"])
    else:
        r = run_set_case(inp["yaml"], inp["path"], inp["value"])
    if r["status"] != "witness":
        return None
    key, what, obs, exp = r["witnesses"][0]
    return {"key": key, "what": what, "inputs": [inp], "observed": obs, "expected": exp, "count": 1,
            "all_keys": [w[0] for w in r["witnesses"]]}


if __name__ == "__main__":
    tier = sys.argv[1] if len(sys.argv) > 1 else "quick"
    seed = int(sys.argv[2]) if len(sys.argv) > 2 else 0
    jobs = int(sys.argv[3]) if len(sys.argv) > 3 else None
    print(json.dumps(run(tier, seed, jobs), indent=1, default=repr))
