"""C05 — merging two documents yields the policy-defined result for every option mix.

Real:    Merger(log, lhs, MergerConfig(log, args[, rules=, keys=])).merge_with(rhs); plain(merger.data)
Oracle:  spec.merge.spec_outcomes (docstrings of the merge option enums, `yaml-merge --help`,
         the C05 statement, DESIGN Appendix C) — NOT merger.py.

Checked per case
  * an exception other than MergeException escaping merge_with           -> witness  C05/crash/...
  * MergeException where every admitted reading defines a document        -> witness  C05/merge-error-where-result-defined/...
  * a document where every admitted reading is a merge error               -> witness  C05/no-merge-error/...
  * a document different (as YAML data: key order of Hashes disregarded,
    `true` != `1`) from every admitted reading                             -> witness  C05/wrong-result/...
  * order clauses on every deep Hash merge the oracle performed:
    left keys keep their relative order; a new right-hand key stands before
    the right-hand key that follows it (when that one exists on the left)  -> witness  C05/key-order/...
  Cases whose oracle used a `from-code` clause and that disagree are counted out_of_scope
  (never a witness), except crashes.

Witness keys are computed by predicates over the failing run:
  C05/crash/<Exc>(<normalised detail>)@<file>:<function>       innermost yamlpath frame
  C05/merge-error-where-result-defined/<head of the MergeException text>/<needed options>
  C05/no-merge-error/<oracle's clash cell>/<needed options>
  C05/key-order/<clause>
  C05/wrong-result/<left class><-<right class>[@root]/<needed options>
        shape classes of the node pair at the deepest Hash path where real and expected still differ
  C05/aoh-policy-applied-to-non-aoh-value/<right class>[/no-merge-error]
        the failure needs a non-default --aoh although the right-hand value at the failing node is no AoH
  C05/rule-or-key-takes-effect-at-a-path-it-does-not-name/<right class>
        the failure needs a [rules]/[keys] entry, yet sits at a node that entry does not name
  .../true-equals-1/...   the case passes once every `true` is replaced by a string (Python's True == 1)
<needed options> = the non-default policies / overrides that cannot be reset without losing the failure
(each option is reset in turn and the case re-run), after both documents were cut down to the failing Hash path.
Classification results are cached per (status, shape, options) so only the first case of a kind pays for it.

Tiers: quick / thorough as in `bounds`; "smoke" is a one-CPU-minute subset used to mutation-test the harness.
"""
import pickle
import time
import itertools
import json
import os
import random
import re
import shutil
import sys
import traceback
from types import SimpleNamespace

from rtc import gen
from rtc.gen import SetT
from rtc.harness import Collector, pmap_chunks, stable_hash
from spec import merge as S

PROP = "C05"
OPTS = ("hashes", "arrays", "aoh", "sets")
ALL_POLICIES = [dict(zip(OPTS, p)) for p in itertools.product(S.HASH_MODES, S.ARRAY_MODES, S.AOH_MODES, S.SET_MODES)]
assert len(ALL_POLICIES) == 180
DEFAULT_POLICY = dict(S.BUILTIN_DEFAULTS)
# default + every single-option deviation (12 policies)
AXIS_POLICIES = [dict(DEFAULT_POLICY)] + [
    dict(DEFAULT_POLICY, **{o: m}) for o, modes in zip(OPTS, (S.HASH_MODES, S.ARRAY_MODES, S.AOH_MODES, S.SET_MODES))
    for m in modes if m != DEFAULT_POLICY[o]]
assert len(AXIS_POLICIES) == 12
TRUE_TOKEN = "T!"
TMP_ROOT = "/tmp/rtc_c05/%d" % os.getpid()      # per run (workers are forked and inherit it); removed by run()/replay()


# --------------------------------------------------------------------------- running the real merger

_LOADED = {}
_PLAIN = {}


def loaded(text):
    """A fresh copy of the ruamel document for YAML `text`: parsed by yamlpath's own loader once
    per process, then cloned by a pickle round trip (keeps the ruamel types, flow style, tags)."""
    b = _LOADED.get(text)
    if b is None:
        b = pickle.dumps(gen.load(text), protocol=pickle.HIGHEST_PROTOCOL)
        _LOADED[text] = b
    return pickle.loads(b)


def plain(node):
    """rtc.gen.plain, plus: ruamel's ScalarBoolean (an int subclass yamlpath wraps booleans in)
    is the boolean it stands for."""
    from ruamel.yaml.comments import CommentedSet, TaggedScalar
    from ruamel.yaml.scalarbool import ScalarBoolean
    if isinstance(node, CommentedSet):
        return SetT(tuple(plain(m) for m in node))
    if isinstance(node, dict):
        return {plain(k): plain(v) for k, v in node.items()}
    if isinstance(node, (list, tuple)):
        return [plain(v) for v in node]
    if isinstance(node, TaggedScalar):
        return plain(node.value)
    if isinstance(node, ScalarBoolean):
        return bool(node)
    return gen.plain(node)


def _innermost_frame(exc):
    frames = traceback.extract_tb(exc.__traceback__)
    mine = [f for f in frames if "/yamlpath/" in f.filename and "/rtc/" not in f.filename]
    f = mine[-1] if mine else frames[-1]
    return "%s:%s" % (os.path.basename(f.filename), f.name), f.lineno


def _exc_detail(exc):
    msg = str(exc)
    if isinstance(exc, KeyError):
        return ""                     # the message is just the offending key
    if isinstance(exc, AttributeError):
        m = re.search(r"has no attribute '(\w+)'", msg)
        return "attr-" + m.group(1) if m else "attr"
    msg = re.sub(r"'[^']*'", "T", msg)
    msg = re.sub(r"[^A-Za-z]+", "-", msg).strip("-").lower()
    return "-".join(msg.split("-")[:6])


def slug(msg, words=8):
    msg = re.split(r"[,.:]", str(msg), 1)[0]          # the fixed head of the message, not the values it quotes
    msg = re.sub(r"[^A-Za-z]+", "-", msg).strip("-").lower()
    return "-".join(msg.split("-")[:words])


def path_text(p):
    """Right-hand path tuple -> YAML Path text for the [rules]/[keys] sections."""
    if not p:
        return "/"
    return "".join("/[%d]" % seg if isinstance(seg, int) and not isinstance(seg, bool) else "/" + str(seg) for seg in p)


def make_args(case, ini_file=None, **more):
    kw = {}
    for o in OPTS:
        v = case["args"].get(o)
        if v is not None:
            kw[o] = v
    if ini_file:
        kw["config"] = ini_file
    kw.update(more)
    return SimpleNamespace(**kw)


def ini_path(defaults):
    """Write (once) an INI file with a [defaults] section; returns its path."""
    os.makedirs(TMP_ROOT, exist_ok=True)
    body = "[defaults]\n" + "".join("%s = %s\n" % (k, v) for k, v in sorted(defaults.items()))
    p = os.path.join(TMP_ROOT, stable_hash(body) + ".ini")
    if not os.path.exists(p):
        tmp = "%s.%d" % (p, os.getpid())
        with open(tmp, "w") as fh:
            fh.write(body)
        os.replace(tmp, p)
    return p


def run_real(case, fresh=False, extra_args=None):
    """-> ("ok", plain doc) | ("error", text) | ("crash", {type, at, line, detail, msg})"""
    from yamlpath.merger import Merger, MergerConfig
    from yamlpath.merger.exceptions import MergeException
    if fresh:
        lhs, rhs = gen.load(case["lhs"]), gen.load(case["rhs"])
    else:
        lhs, rhs = loaded(case["lhs"]), loaded(case["rhs"])
    log = gen.QuietLog()
    ini = ini_path(case["ini"]) if case.get("ini") else None
    kw = {}
    if case.get("rules"):
        kw["rules"] = dict(case["rules"])
    if case.get("keys"):
        kw["keys"] = dict(case["keys"])
    try:
        merger = Merger(log, lhs, MergerConfig(log, make_args(case, ini, **(extra_args or {})), **kw))
        merger.merge_with(rhs)
        return ("ok", plain(merger.data))
    except MergeException as ex:
        return ("error", str(ex.user_message if hasattr(ex, "user_message") else ex))
    except (KeyboardInterrupt, MemoryError):
        raise
    except BaseException as ex:     # anything else escaping merge_with (incl. SystemExit)
        at, line = _innermost_frame(ex)
        return ("crash", {"type": type(ex).__name__, "at": at, "line": line,
                          "detail": _exc_detail(ex), "msg": str(ex)[:200]})


# --------------------------------------------------------------------------- the oracle side

def parse_path(text):
    """Inverse of path_text for the simple paths this harness writes."""
    if text == "/":
        return ()
    out = []
    for m in re.finditer(r"/([^/\[]+)|\[(\d+)\]", text):
        out.append(m.group(1) if m.group(1) is not None else int(m.group(2)))
    return tuple(out)


def spec_config(case):
    rules = {parse_path(k): v for k, v in (case.get("rules") or {}).items()}
    keys = {parse_path(k): v for k, v in (case.get("keys") or {}).items()}
    return S.SpecConfig.from_sources(cli=case["args"], ini_defaults=case.get("ini"), rules=rules, keys=keys)


def plain_of(text):
    t = _PLAIN.get(text)
    if t is None:
        t = plain(loaded(text))
        _PLAIN[text] = t
    return t


def check_key_order(obs_keys, lkeys, rkeys):
    lset = set(lkeys)
    if [k for k in obs_keys if k in lset] != list(lkeys):
        return "left-keys-reordered"
    pos = {k: i for i, k in enumerate(obs_keys)}
    for i, k in enumerate(rkeys):
        if k in lset:
            continue
        nxt = next((k2 for k2 in rkeys[i + 1:] if k2 in lset), None)
        if nxt is not None and pos[k] > pos[nxt]:
            return "new-key-after-the-right-hand-key-that-follows-it"
    return None


def order_violation(obs_doc, trace):
    for ev in trace:
        if ev[0] != "hash-deep":
            continue
        node = obs_doc
        try:
            for seg in ev[1]:
                node = node[seg]
        except (KeyError, IndexError, TypeError):
            continue
        if not isinstance(node, dict):
            continue
        v = check_key_order(list(node.keys()), list(ev[2]), list(ev[3]))
        if v:
            return (v, tuple(ev[1]))
    return None


def judge(case, real=None, lt=None, rt=None, merge=None, cfg=None):
    """Compare one real run with the oracle.

    -> dict(status = pass | crash | unexpected-error | no-error | wrong-result | key-order | from-code,
            real, expected, cells, liberties, from_code, order, site)
    `merge` replaces spec.merge.spec_merge (used by c11 for merges aimed at a path).
    """
    real = real if real is not None else run_real(case)
    lt = plain_of(case["lhs"]) if lt is None else lt
    rt = plain_of(case["rhs"]) if rt is None else rt
    cfg = cfg or spec_config(case)
    merge = merge or S.spec_merge
    outcomes = None
    tr = []
    try:
        first = ("ok", merge(lt, rt, cfg, tr))
    except S.SpecMergeError as e:
        first = ("error", e.cell, e.path)
    res = {"real": real, "expected": first, "liberties": (), "order": None, "site": None,
           "cells": sorted(set(ev[1:] for ev in tr if ev[0] == "cell"), key=repr),
           "from_code": sorted(set(ev[1] for ev in tr if ev[0] == "from-code"))}

    def matches(out):
        if real[0] == "ok":
            return out[0] == "ok" and S.veq(real[1], out[1])
        if real[0] == "error":
            return out[0] == "error"
        return False

    hit = None
    if matches(first):
        hit = (frozenset(), first, tr)
    elif real[0] != "crash" and any(ev[0] == "liberty" for ev in tr):
        outcomes = S.spec_outcomes(lt, rt, cfg, merge)
        for o in outcomes:
            if matches(o[1]):
                hit = o
                break
    if hit is not None:
        res["liberties"] = tuple(sorted(hit[0]))
        res["expected"] = hit[1]
        if real[0] == "ok":
            v = order_violation(real[1], hit[2])
            if v:
                res["status"] = "key-order"
                res["order"] = v[0]
                res["site"] = v[1]
                return res
        res["status"] = "pass"
        return res
    if outcomes is not None:
        fc = set(res["from_code"])
        for o in outcomes:
            fc.update(ev[1] for ev in o[2] if ev[0] == "from-code")
        res["from_code"] = sorted(fc)
    all_out = [o[1] for o in outcomes] if outcomes is not None else [first]
    if real[0] == "crash":
        res["status"] = "crash"
    elif res["from_code"]:
        res["status"] = "from-code"
    elif real[0] == "error":
        res["status"] = "unexpected-error"
        oks = [o for o in all_out if o[0] == "ok"]
        res["expected"] = oks[0] if oks else first
    elif all(o[0] == "error" for o in all_out):
        # the error no reading can avoid: error-removing liberty taken, error-adding ones not
        res["status"] = "no-error"
        outs = outcomes if outcomes is not None else [(frozenset(), first, tr)]
        adding = {"empty_seq_into_nonseq_error", "aoh_deep_nonhash_error"}
        hardest = max(outs, key=lambda o: ("clash_short_circuit" in o[0], -len(o[0] & adding), -len(o[0])))
        res["expected"] = hardest[1]
        res["site"] = hardest[1][2]
    else:
        # the admitted document that agrees with the real one down to the deepest Hash path
        res["status"] = "wrong-result"
        best = None
        for o in all_out:
            if o[0] == "ok":
                site = first_diff_site(real[1], o[1])
                if best is None or len(site) > len(best[0]):
                    best = (site, o)
        res["site"], res["expected"] = best
    return res


# --------------------------------------------------------------------------- classification of a failing case

def shape_class(v):
    k = S.kind(v)
    if v is None:
        return "null"
    if k == "scalar":
        return "scalar"
    if k == "map":
        return "hash" if v else "empty-hash"
    if k == "set":
        return "set"
    if not v:
        return "empty-seq"
    kinds = {S.kind(e) == "map" for e in v}
    if kinds == {True}:
        return "aoh"
    if kinds == {False}:
        return "array"
    return "mixed-seq"


_COARSE_L = {"empty-hash": "hash", "aoh": "seq", "array": "seq", "mixed-seq": "seq", "empty-seq": "seq"}
_COARSE_R = {"empty-hash": "hash", "null": "scalar"}


def where_class(lt, rt, site):
    """Shape class of the node pair at `site` (coarse on purpose: one key per root cause)."""
    site = _keys_only(site, rt)
    lc, rc = _class_at(lt, site), _class_at(rt, site)
    rc = _COARSE_R.get(rc, rc)
    lc = "any" if rc == "scalar" else _COARSE_L.get(lc, lc)
    return "%s<-%s%s" % (lc, rc, "@root" if not site else "")


def first_diff_site(a, b, path=()):
    """Longest Hash-key-only path at which the two documents still differ."""
    if isinstance(a, dict) and isinstance(b, dict):
        if set(a.keys()) == set(b.keys()):
            for k in a:
                if not S.veq(a[k], b[k]):
                    return first_diff_site(a[k], b[k], path + (k,))
    return path


def _keys_only(path, doc):
    """Longest prefix of `path` that walks Hashes of `doc` only."""
    out = []
    for seg in path or ():
        if not isinstance(doc, dict) or seg not in doc:
            break
        doc = doc[seg]
        out.append(seg)
    return tuple(out)


def _class_at(doc, path):
    for seg in path:
        if isinstance(doc, dict) and seg in doc:
            doc = doc[seg]
        else:
            return "absent"
    return shape_class(doc)


def project(doc, path):
    """Drop every Hash entry beside `path` (keeps the node at `path` whole)."""
    if not path or not isinstance(doc, dict):
        return doc
    if path[0] not in doc:
        return {}
    return {path[0]: project(doc[path[0]], path[1:])}


def _subst_true(v):
    if v is True:
        return TRUE_TOKEN
    if isinstance(v, dict):
        return {_subst_true(k): _subst_true(x) for k, x in v.items()}
    if isinstance(v, SetT):
        return SetT(tuple(_subst_true(x) for x in v))
    if isinstance(v, list):
        return [_subst_true(x) for x in v]
    return v


def _contains_true(v):
    if v is True:
        return True
    if isinstance(v, dict):
        return any(_contains_true(x) for x in v.values())
    if isinstance(v, (list, tuple)):
        return any(_contains_true(x) for x in v)
    return False


_CLASSIFIED = {}


def _where_of(res, lt, rt):
    st, real, exp = res["status"], res["real"], res["expected"]
    if st == "crash":
        return "%s(%s)@%s" % (real[1]["type"], real[1]["detail"], real[1]["at"])
    if st == "unexpected-error":
        return slug(real[1])
    if st == "no-error":
        return exp[1]
    if st == "key-order":
        return res["order"]
    return where_class(lt, rt, res["site"])


def classify(case, res, judge_fn=None, prop=PROP):
    """Stable witness key + description for a failing case (res = judge(case)).

    -> (key, what, minimised case, judge(minimised case))
    """
    judge_fn = judge_fn or judge
    status = res["status"]
    lt, rt = plain_of(case["lhs"]), plain_of(case["rhs"])
    pre = (prop, status, _where_of(res, lt, rt), json.dumps(case["args"], sort_keys=True),
           json.dumps([case.get("rules"), case.get("keys"), case.get("ini"), case.get("mergeat")], sort_keys=True),
           _contains_true(lt) or _contains_true(rt))
    cached = _CLASSIFIED.get(pre)
    if cached is not None:
        return cached[0], cached[1], case, res

    def still(c):
        return judge_fn(c)["status"] == status

    c = dict(case, args=dict(case["args"]))
    r = res
    # 0. cut both documents down to the Hash path where the failure sits
    site = _keys_only(res.get("site"), rt)
    if site and not case.get("mergeat"):
        c2 = dict(c, lhs=gen.to_yaml(project(lt, site)), rhs=gen.to_yaml(project(rt, site)))
        r2 = judge_fn(c2)
        if r2["status"] == status and _where_of(r2, plain_of(c2["lhs"]), plain_of(c2["rhs"])) == pre[2]:
            c, r = c2, r2
    # 1. which non-default policies / overrides are needed to keep the failure?
    if c.get("ini"):
        c2 = dict(c, ini=None, args={o: c["args"].get(o) or c["ini"].get(o) for o in OPTS})
        if still(c2):
            c = c2
    for o in OPTS:
        if c["args"].get(o) not in (None, DEFAULT_POLICY[o]):
            c2 = dict(c, args=dict(c["args"], **{o: None}))
            if still(c2):
                c = c2
    for sect in ("rules", "keys"):
        if c.get(sect):
            for k in list(c[sect]):
                c2 = dict(c, **{sect: {kk: vv for kk, vv in c[sect].items() if kk != k}})
                if still(c2):
                    c = c2
    needed = ["%s=%s" % (o, c["args"][o]) for o in OPTS if c["args"].get(o) not in (None, DEFAULT_POLICY[o])]
    if c.get("ini"):
        needed.append("ini-defaults")
    lt, rt = plain_of(c["lhs"]), plain_of(c["rhs"])
    named = []
    for sect in ("rules", "keys"):
        for k, v in sorted((c.get(sect) or {}).items()):
            try:
                cls = shape_class(S.get_at(rt, parse_path(k)))
            except (KeyError, IndexError, TypeError):
                cls = "absent"
            named.append(parse_path(k))
            needed.append("%s:%s%s=%s" % (sect[:-1], cls, "@root" if k == "/" else "", v if sect == "rules" else "key"))
    pol = ",".join(needed) or "default-policies"
    r = judge_fn(c)
    real, exp = r["real"], r["expected"]
    where = _where_of(r, lt, rt)
    special = None
    if status in ("wrong-result", "no-error"):
        site = tuple(r.get("site") or ())
        rc = _class_at(rt, _keys_only(site, rt))
        rc = _COARSE_R.get(rc, rc)
        if named and not any(site[:len(n)] == tuple(n) or tuple(n[:len(site)]) == site for n in named):
            # the failure needs the override, yet sits at a node the override does not name
            special = ("rule-or-key-takes-effect-at-a-path-it-does-not-name/" + rc,
                       "a [rules]/[keys] entry changes the merge of a node at ANOTHER path (%s)" % path_text(site))
        elif any(n.startswith("aoh=") for n in needed) and site and rc in ("scalar", "array", "empty-seq"):
            # the failure needs a non-default --aoh, yet the right-hand value here is no Array-of-Hashes
            special = ("aoh-policy-applied-to-non-aoh-value/" + rc + ("/no-merge-error" if status == "no-error" else ""),
                       "the --aoh policy decides the merge of a right-hand %s under a Hash key" % rc)

    # 2. does it only fail because Python's True == 1 ?
    tag = ""
    if status in ("wrong-result", "no-error", "unexpected-error") and pre[5]:
        c3 = dict(c, lhs=gen.to_yaml(_subst_true(lt)), rhs=gen.to_yaml(_subst_true(rt)))
        if judge_fn(c3)["status"] == "pass":
            tag = "true-equals-1/"

    if special:
        key = "%s/%s%s" % (prop, tag, special[0])
        what = special[1] + "; " + pol
    elif status == "crash":
        key = "%s/crash/%s" % (prop, where)
        what = "%s escapes merge_with instead of a MergeException (%s line %s): %s" % (
            real[1]["type"], real[1]["at"], real[1]["line"], real[1]["msg"])
    elif status == "unexpected-error":
        key = "%s/merge-error-where-result-defined/%s%s/%s" % (prop, tag, where, pol)
        what = "MergeException although the documented policies define the merged document"
    elif status == "no-error":
        key = "%s/no-merge-error/%s%s/%s" % (prop, tag, where, pol)
        what = "a structurally impossible merge (%s) produced a document instead of a merge error" % exp[1]
    elif status == "key-order":
        key = "%s/key-order/%s" % (prop, where)
        what = "deep Hash merge: " + str(where)
    else:
        key = "%s/wrong-result/%s%s/%s" % (prop, tag, where, pol)
        what = "merged document differs from every documented reading at a node of shape %s under %s" % (where, pol)
    if tag:
        what += " (passes once `true` is replaced by a string: Python's True == 1 conflation)"
    _CLASSIFIED[pre] = (key, what)
    return key, what, c, r


# --------------------------------------------------------------------------- input space

def flat_perm_maps(keys=("a", "b", "c"), value=1):
    out = [{}]
    for n in range(1, len(keys) + 1):
        for ks in itertools.permutations(keys, n):
            out.append({k: value for k in ks})
    return out


def curated_docs():
    """Hand-picked shapes beyond the enumerated bound (stated in `bounds`)."""
    return [
        {"a": {"c": [1]}, "b": {"c": [1]}},                   # equal sub-trees at two paths (rule matching)
        {"a": {"c": [2]}, "b": {"c": [2]}},
        {"a": {"c": {"x": 1}}, "b": {"c": {"x": 1}}},
        {"a": {"c": {"y": 2}}, "b": {"c": {"y": 2}}},
        [{"a": 1, "b": 1}, {"a": 2, "b": 2}],                  # AoH, two records
        [{"a": 2, "b": 3}, {"a": 3, "b": 4}],
        [{"a": 1, "b": {"x": 1}}],
        [{"a": 1, "b": {"y": 2}}],
        [{"b": 1, "a": 1}],
        [{"a": 1}, {"a": 1}],
        [{"a": 1, "b": 1}, {"a": 1, "b": 2}],
        [{"b": 1}, {"a": 1}],
        [{"a": 1}, 2],
        [2, {"a": 1}],
        {"a": [{"a": 1, "b": 1}, {"a": 2, "b": 2}]},
        {"a": [{"a": 2, "b": 3}, {"a": 3}]},
        {"a": [{"a": 1, "b": [1]}]},
        {"a": [{"a": 1, "b": [2]}]},
        {"a": [1, 1, 2], "b": SetT(("a", "b"))},
        {"a": [2, 2, 3], "b": SetT(("b", "c"))},
        {"a": [[1], [2]]},
        {"a": [[1], [3]]},
        {"a": SetT(()), "b": []},
        {"a": {}, "b": None},
        {1: "x", "x.y": {"a": 1}},
        {1: "y", "x.y": {"b": 2}, "a b": [1]},
        {"a": 1.5, "b": "1", "c": ""},
        {"a": 2.5, "b": 1, "c": None},
        [1, "1", 1.5, None, True],
        ["1", 2, None, False],
        SetT(("a", "b")),
        SetT(("b", "c")),
        {"a": {"a": {"a": 1}}},
        {"a": {"a": {"b": 2}}},
        {"b": 2, "a": {"b": 1, "a": 2}},
        {"a": {"c": 1, "a": 3, "b": 4}, "c": 1, "b": 3},
    ]


_POOLS = {}


def pools(tier):
    if tier in _POOLS:
        return _POOLS[tier]
    d3 = gen.trees(3, 2, keys=("a", "b"), scalars=gen.SCALARS_SMALL)
    d4 = gen.trees(4, 3, keys=("a", "b"), scalars=(None, 1, "a"))
    perm_l = flat_perm_maps(value=1)
    perm_r = flat_perm_maps(value=2)
    cur = curated_docs()
    p = {"d3": d3, "d4": d4, "perm_l": perm_l, "perm_r": perm_r, "cur": cur}
    texts = {}
    for name, docs in p.items():
        texts[name] = [gen.to_yaml(t) for t in docs]
    _POOLS[tier] = (p, texts)
    return _POOLS[tier]


def container_paths(doc, path=(), through_lists=True):
    """(path, class) of every non-root container of the right-hand document that a rule may name."""
    out = []
    if isinstance(doc, dict):
        for k, v in doc.items():
            if not isinstance(k, str) or not re.match(r"^[a-z]+$", k):
                continue
            if S.kind(v) != "scalar":
                out.append((path + (k,), shape_class(v)))
                out.extend(container_paths(v, path + (k,), through_lists))
            elif path == () or through_lists:
                # a rule may also name a scalar (only `left` differs from the override every scalar gets)
                out.append((path + (k,), "scalar"))
    elif isinstance(doc, list) and not isinstance(doc, SetT) and through_lists:
        for i, v in enumerate(doc):
            if isinstance(v, dict):
                out.extend(container_paths(v, path + (i,), through_lists))
    return out


RULE_MODES = {"hash": S.HASH_MODES, "empty-hash": S.HASH_MODES, "array": S.ARRAY_MODES,
              "aoh": S.AOH_MODES, "mixed-seq": (), "empty-seq": (), "set": S.SET_MODES, "scalar": ("left", "right")}


def override_variants(lt, rt):
    """Per-path [rules]/[keys] overrides for a pair: every single rule on a right-hand container
    (any valid mode), a root rule when both roots have the same kind, identity keys for AoHs."""
    out = []
    cands = container_paths(rt)
    if S.kind(lt) == S.kind(rt) and S.kind(rt) != "scalar":
        cands = [((), shape_class(rt))] + cands
    for p, cls in cands:
        for m in RULE_MODES.get(cls, ()):
            out.append({"rules": {path_text(p): m}})
        if cls == "aoh":
            node = S.get_at(rt, p)
            ks = []
            for rec in node:
                for k in rec:
                    if isinstance(k, str) and k not in ks:
                        ks.append(k)
            for k in ks + ["zz"]:
                out.append({"keys": {path_text(p): k}})
                out.append({"keys": {path_text(p): k}, "rules": {path_text(p): "deep"}})
    return out


def mk_case(ltext, rtext, pol, rules=None, keys=None, ini=None):
    c = {"lhs": ltext, "rhs": rtext, "args": dict(pol)}
    if rules:
        c["rules"] = rules
    if keys:
        c["keys"] = keys
    if ini:
        c["ini"] = ini
    return c


# --------------------------------------------------------------------------- workers

def _sig(case, res, lt, rt):
    return stable_hash([res["status"], res["expected"][0], res["real"][0], res["cells"], res["liberties"],
                        res["from_code"], shape_class(lt), shape_class(rt),
                        sorted((case.get("rules") or {}).values()), bool(case.get("keys")), bool(case.get("ini"))])


def eval_case(col, case, lt, rt, judge_fn=judge, classify_fn=classify, prop=PROP):
    res = judge_fn(case, lt=lt, rt=rt)
    st = res["status"]
    nontrivial = (res["real"][0] != "ok" or not S.veq(res["real"][1], lt)) or st != "pass"
    sample = None
    if len(col.samples) < col.max_samples and nontrivial and st == "pass" and (col.evaluations % 37 == 0):
        sample = {"input": case, "result": _jsonable(res["real"])}
    col.case(_sig(case, res, lt, rt) if nontrivial else None, sample)
    if st == "pass":
        return
    if st == "from-code":
        col.out_of_scope("from-code-clause-disagrees/" + "+".join(res["from_code"]))
        return
    key, what, minimal, r = classify_fn(case, res)
    col.witness(key, what, minimal, observed=_jsonable(r["real"]), expected=_jsonable(r["expected"]))


def _jsonable(v):
    if isinstance(v, SetT):
        return {"!!set": [_jsonable(x) for x in v]}
    if isinstance(v, dict):
        return {(k if isinstance(k, str) else repr(k)): _jsonable(x) for k, x in v.items()}
    if isinstance(v, (list, tuple)):
        return [_jsonable(x) for x in v]
    return v


def _policies_for(mode, li, ri, seed, k):
    if mode == "all":
        return ALL_POLICIES
    if mode == "axis":
        return AXIS_POLICIES
    rng = random.Random((seed * 1000003 + li * 7919 + ri) & 0xFFFFFFFF)
    return rng.sample(ALL_POLICIES, k)


def work_pairs(chunk, tier, seed, lname, rname, polmode, k):
    """chunk: list of (li, ri) into pools lname x rname."""
    p, texts = pools(tier)
    col = Collector()
    t0 = time.process_time()
    for li, ri in chunk:
        lt, rt = p[lname][li], p[rname][ri]
        for pol in _policies_for(polmode, li, ri, seed, k):
            eval_case(col, mk_case(texts[lname][li], texts[rname][ri], pol), lt, rt)
    return col.result(internal=True, cpu_s=time.process_time() - t0)


CONTRARY = {"hashes": "left", "arrays": "left", "aoh": "left", "sets": "left"}
CONTRARY2 = {"hashes": "right", "arrays": "unique", "aoh": "deep", "sets": "right"}


def work_overrides(chunk, tier, seed, lname, rname):
    p, texts = pools(tier)
    col = Collector()
    t0 = time.process_time()
    for li, ri in chunk:
        lt, rt = p[lname][li], p[rname][ri]
        for ov in override_variants(lt, rt):
            for pol in ({}, CONTRARY, CONTRARY2):
                eval_case(col, mk_case(texts[lname][li], texts[rname][ri], pol, ov.get("rules"), ov.get("keys")), lt, rt)
    return col.result(internal=True, cpu_s=time.process_time() - t0)


def work_ini(chunk, tier, seed, lname, rname):
    """[defaults] of an INI file: used when the command line is silent, overridden by it."""
    p, texts = pools(tier)
    col = Collector()
    t0 = time.process_time()
    for li, ri in chunk:
        lt, rt = p[lname][li], p[rname][ri]
        rng = random.Random((seed * 31 + li * 104729 + ri) & 0xFFFFFFFF)
        ini = rng.choice(ALL_POLICIES[1:])
        cli = rng.choice(ALL_POLICIES)
        part = {o: cli[o] for o in OPTS if rng.random() < 0.5}
        for args in ({}, part):
            eval_case(col, mk_case(texts[lname][li], texts[rname][ri], args, ini=dict(ini)), lt, rt)
    return col.result(internal=True, cpu_s=time.process_time() - t0)


# --------------------------------------------------------------------------- driver

def _pairs(n, m):
    return [(i, j) for i in range(n) for j in range(m)]


def _sample_pairs(n, m, count, rng):
    if count >= n * m:
        return _pairs(n, m)
    seen = set()
    while len(seen) < count:
        seen.add((rng.randrange(n), rng.randrange(m)))
    return sorted(seen)


def self_check(tier):
    """Generator sanity: template == plain(load(to_yaml(template))) for every pooled document."""
    p, texts = pools(tier)
    for name in p:
        for t, text in zip(p[name], texts[name]):
            back = gen.plain(gen.load(text))
            if not S.veq(back, t) or (isinstance(t, dict) and list(back.keys()) != list(t.keys())):
                raise AssertionError("generator/loader mismatch for %r: %r" % (text, back))


def _cleanup():
    shutil.rmtree(TMP_ROOT, ignore_errors=True)
    try:
        os.rmdir(os.path.dirname(TMP_ROOT))
    except OSError:
        pass


def run(tier="quick", seed=0, jobs=None):
    p, texts = pools(tier)
    self_check(tier)
    col = Collector()
    rng = random.Random(seed)
    n3, n4 = len(p["d3"]), len(p["d4"])
    ncur = len(p["cur"])
    stages = []
    if tier == "smoke":         # a minute of CPU: used for mutation-testing the harness itself
        stages.append(("d3xd3 sampled pairs x 12 axis policies", work_pairs, _sample_pairs(n3, n3, 3000, rng), ("d3", "d3", "axis", 0)))
        ov_pairs = _sample_pairs(n4, n4, 600, rng)
        ini_pairs = _sample_pairs(n3, n3, 300, rng)
        exhaustive = False
    elif tier == "quick":
        stages.append(("d3xd3 x 12 axis policies (exhaustive)", work_pairs, _pairs(n3, n3), ("d3", "d3", "axis", 0)))
        stages.append(("d3xd3 x 6 sampled of 180", work_pairs, _pairs(n3, n3), ("d3", "d3", "sample", 6)))
        stages.append(("d4xd4 sampled pairs x 4 sampled policies", work_pairs,
                       _sample_pairs(n4, n4, 40000, rng), ("d4", "d4", "sample", 4)))
        ov_pairs = _sample_pairs(n4, n4, 6000, rng)
        ini_pairs = _sample_pairs(n3, n3, 3000, rng)
        exhaustive = False
    else:
        stages.append(("d3xd3 x all 180 policies (exhaustive)", work_pairs, _pairs(n3, n3), ("d3", "d3", "all", 0)))
        stages.append(("d4xd4 x 12 axis policies (exhaustive)", work_pairs, _pairs(n4, n4), ("d4", "d4", "axis", 0)))
        stages.append(("d4xd4 sampled pairs x all 180", work_pairs,
                       _sample_pairs(n4, n4, 15000, rng), ("d4", "d4", "all", 0)))
        ov_pairs = _sample_pairs(n4, n4, 120000, rng)
        ini_pairs = _pairs(n3, n3)
        exhaustive = True
    stages.append(("key-permuted flat maps x all 180", work_pairs,
                   _pairs(len(p["perm_l"]), len(p["perm_r"])), ("perm_l", "perm_r", "all", 0)))
    stages.append(("curated x curated x %s" % ("12 axis policies" if tier == "smoke" else "all 180"), work_pairs,
                   _pairs(ncur, ncur), ("cur", "cur", "axis" if tier == "smoke" else "all", 0)))
    stage_info = []
    try:
        for name, fn, items, extra in stages:
            before = col.evaluations
            cpu = 0.0
            for r in pmap_chunks(fn, items, jobs=jobs, chunk=max(20, len(items) // 160 or 1),
                                 extra=(tier, seed) + tuple(extra)):
                col.merge(r)
                cpu += r["cpu_s"]
            stage_info.append({"stage": name, "pairs": len(items), "cases": col.evaluations - before, "cpu_s": round(cpu, 1)})
        for name, fn, items, extra in (
                ("rules/keys overrides: d4xd4 pairs", work_overrides, ov_pairs, ("d4", "d4")),
                ("rules/keys overrides: curated x curated", work_overrides, _pairs(ncur, ncur), ("cur", "cur")),
                ("INI [defaults] vs command line: d3xd3", work_ini, ini_pairs, ("d3", "d3"))):
            before = col.evaluations
            cpu = 0.0
            for r in pmap_chunks(fn, items, jobs=jobs, chunk=max(20, len(items) // 160 or 1), extra=(tier, seed) + extra):
                col.merge(r)
                cpu += r["cpu_s"]
            stage_info.append({"stage": name, "pairs": len(items), "cases": col.evaluations - before, "cpu_s": round(cpu, 1)})
    finally:
        _cleanup()
    bounds = {
        "d3": "rtc.gen.trees(max_nodes=3, max_depth=2, keys=(a,b), scalars=(null,true,1,'a'), sets) = %d documents" % n3,
        "d4": "rtc.gen.trees(max_nodes=4, max_depth=3, keys=(a,b), scalars=(null,1,'a'), sets) = %d documents" % n4,
        "perm": "flat Hashes over every ordered selection of keys (a,b,c): %d x %d" % (len(p["perm_l"]), len(p["perm_r"])),
        "curated": "%d hand-picked documents (two-record AoHs, equal sub-trees at two paths, mixed sequences, int/dotted keys, floats)" % ncur,
        "policies": "3x4x5x3 = 180; 'axis' = default + every single-option deviation (12)",
        "overrides": "one [rules] entry on any right-hand container reachable by Hash keys / AoH indices (every valid mode) "
                     "or on the root when both roots have one kind; [keys] entries naming every string key of an AoH and an absent key; "
                     "each under CLI policies {none, all-left, right/unique/deep/right}",
        "ini": "[defaults] section via a real INI file, command line silent or partly set",
        "stages": stage_info,
        "tier": tier, "seed": seed,
    }
    rule = ("for every enumerated (lhs, rhs, policy, overrides): merge_with raises only MergeException; it raises one iff every "
            "documented reading is a merge error; otherwise plain(merger.data) equals a documented reading "
            "(Hash key order disregarded, true != 1) and every deep-merged Hash keeps the left keys' relative order with "
            "new right keys before the right key that follows them")
    cpu = round(sum(st["cpu_s"] for st in stage_info), 1)
    return col.result(rule=rule, exhaustive=exhaustive, bounds=bounds, cpu_s=cpu,
                      note="cpu_s is the summed worker CPU time; on 16 idle cores the wall time is about cpu_s/16")


def replay(inp):
    """Re-run one witness input natively (fresh YAML loads)."""
    try:
        real = run_real(inp, fresh=True)
        res = judge(inp, real=real)
        if res["status"] in ("pass", "from-code"):
            return None
        key, what, minimal, r = classify(inp, res)
        return {"key": key, "what": what, "inputs": [inp], "observed": _jsonable(r["real"]),
                "expected": _jsonable(r["expected"]), "count": 1}
    finally:
        _cleanup()


def main(argv, mod):
    tier = argv[1] if len(argv) > 1 else "quick"
    if tier == "replay":
        print(json.dumps(mod.replay(json.loads(argv[2])), indent=1, default=repr))
        return
    seed = int(argv[2]) if len(argv) > 2 else 0
    jobs = int(argv[3]) if len(argv) > 3 else None
    print(json.dumps(mod.run(tier, seed, jobs), indent=1, default=repr))


if __name__ == "__main__":
    main(sys.argv, sys.modules[__name__])
