"""C05 — merging two documents yields the policy-defined result for every option mix.

Real:    Merger(log, lhs, MergerConfig(log, args[, rules=, keys=])).merge_with(rhs); plain(merger.data)
Oracle:  spec.merge.spec_outcomes (docstrings of the merge option enums, `yaml-merge --help`,
         the C05 statement, DESIGN Appendix C) — NOT merger.py.

Checked per case
  * an exception other than MergeException escaping merge_with           -> witness  C05/crash/...
  * MergeException where every admitted reading defines a document        -> witness  C05/merge-error-where-result-defined/...
  * a document where every admitted reading is a merge error               -> witness  C05/no-merge-error/...
  * a document different (as YAML data: key order of Hashes disregarded,
    `true` != `1`) from every admitted reading                             -> witness  C05/wrong-result/...
  * order clauses on every deep Hash merge the oracle performed:
    left keys keep their relative order; a new right-hand key stands before
    the right-hand key that follows it (when that one exists on the left)  -> witness  C05/key-order/...
  Cases whose oracle used a `from-code` clause and that disagree are counted out_of_scope
  (never a witness), except crashes.

Witness keys are computed by predicates over the failing run: exception type + innermost
yamlpath frame (crash); slug of the MergeException text (unexpected error); the oracle's clash
cell (missing error); for wrong results the shape class at the first differing Hash-key path
(left class <- right class), and the minimal set of non-default policies / overrides that is
needed to keep the case failing (found by re-running the case with each option reset).
"""
import copy
import itertools
import json
import os
import random
import re
import shutil
import sys
import traceback
from types import SimpleNamespace

from rtc import gen
from rtc.gen import SetT
from rtc.harness import Collector, pmap_chunks, stable_hash
from spec import merge as S

PROP = "C05"
OPTS = ("hashes", "arrays", "aoh", "sets")
ALL_POLICIES = [dict(zip(OPTS, p)) for p in itertools.product(S.HASH_MODES, S.ARRAY_MODES, S.AOH_MODES, S.SET_MODES)]
assert len(ALL_POLICIES) == 180
DEFAULT_POLICY = dict(S.BUILTIN_DEFAULTS)
# default + every single-option deviation (12 policies)
AXIS_POLICIES = [dict(DEFAULT_POLICY)] + [
    dict(DEFAULT_POLICY, **{o: m}) for o, modes in zip(OPTS, (S.HASH_MODES, S.ARRAY_MODES, S.AOH_MODES, S.SET_MODES))
    for m in modes if m != DEFAULT_POLICY[o]]
assert len(AXIS_POLICIES) == 12
TRUE_TOKEN = "T!"
TMP_ROOT = "/tmp/rtc_c05"


# --------------------------------------------------------------------------- running the real merger

_LOADED = {}


def loaded(text):
    """A fresh deep copy of the ruamel document for YAML `text` (parsed once per process)."""
    d = _LOADED.get(text)
    if d is None:
        d = gen.load(text)
        _LOADED[text] = d
    return copy.deepcopy(d)


def _innermost_frame(exc):
    frames = traceback.extract_tb(exc.__traceback__)
    mine = [f for f in frames if "/yamlpath/" in f.filename and "/rtc/" not in f.filename]
    f = mine[-1] if mine else frames[-1]
    return "%s:%s" % (os.path.basename(f.filename), f.name), f.lineno


def _exc_detail(exc):
    msg = str(exc)
    if isinstance(exc, AttributeError):
        m = re.search(r"has no attribute '(\w+)'", msg)
        return "attr-" + m.group(1) if m else "attr"
    msg = re.sub(r"'[^']*'", "T", msg)
    msg = re.sub(r"[^A-Za-z]+", "-", msg).strip("-").lower()
    return "-".join(msg.split("-")[:6])


def slug(msg, words=7):
    msg = re.sub(r"[^A-Za-z]+", "-", str(msg)).strip("-").lower()
    return "-".join(msg.split("-")[:words])


def path_text(p):
    """Right-hand path tuple -> YAML Path text for the [rules]/[keys] sections."""
    if not p:
        return "/"
    out = ""
    for seg in p:
        out += "[%d]" % seg if isinstance(seg, int) and not isinstance(seg, bool) else "/" + str(seg)
    return out


def make_args(case, ini_file=None, **more):
    kw = {}
    for o in OPTS:
        v = case["args"].get(o)
        if v is not None:
            kw[o] = v
    if ini_file:
        kw["config"] = ini_file
    kw.update(more)
    return SimpleNamespace(**kw)


def ini_path(defaults):
    """Write (once) an INI file with a [defaults] section; returns its path."""
    os.makedirs(TMP_ROOT, exist_ok=True)
    body = "[defaults]\n" + "".join("%s = %s\n" % (k, v) for k, v in sorted(defaults.items()))
    p = os.path.join(TMP_ROOT, stable_hash(body) + ".ini")
    if not os.path.exists(p):
        tmp = "%s.%d" % (p, os.getpid())
        with open(tmp, "w") as fh:
            fh.write(body)
        os.replace(tmp, p)
    return p


def run_real(case, fresh=False, extra_args=None):
    """-> ("ok", plain doc) | ("error", text) | ("crash", {type, at, line, detail, msg})"""
    from yamlpath.merger import Merger, MergerConfig
    from yamlpath.merger.exceptions import MergeException
    if fresh:
        lhs, rhs = gen.load(case["lhs"]), gen.load(case["rhs"])
    else:
        lhs, rhs = loaded(case["lhs"]), loaded(case["rhs"])
    log = gen.QuietLog()
    ini = ini_path(case["ini"]) if case.get("ini") else None
    kw = {}
    if case.get("rules"):
        kw["rules"] = dict(case["rules"])
    if case.get("keys"):
        kw["keys"] = dict(case["keys"])
    try:
        merger = Merger(log, lhs, MergerConfig(log, make_args(case, ini, **(extra_args or {})), **kw))
        merger.merge_with(rhs)
        return ("ok", gen.plain(merger.data))
    except MergeException as ex:
        return ("error", str(ex.user_message if hasattr(ex, "user_message") else ex))
    except (KeyboardInterrupt, MemoryError):
        raise
    except BaseException as ex:     # anything else escaping merge_with (incl. SystemExit)
        at, line = _innermost_frame(ex)
        return ("crash", {"type": type(ex).__name__, "at": at, "line": line,
                          "detail": _exc_detail(ex), "msg": str(ex)[:200]})


# --------------------------------------------------------------------------- the oracle side

def parse_path(text):
    """Inverse of path_text for the simple paths this harness writes."""
    if text == "/":
        return ()
    out = []
    for m in re.finditer(r"/([^/\[]+)|\[(\d+)\]", text):
        out.append(m.group(1) if m.group(1) is not None else int(m.group(2)))
    return tuple(out)


def spec_config(case):
    rules = {parse_path(k): v for k, v in (case.get("rules") or {}).items()}
    keys = {parse_path(k): v for k, v in (case.get("keys") or {}).items()}
    return S.SpecConfig.from_sources(cli=case["args"], ini_defaults=case.get("ini"), rules=rules, keys=keys)


def plain_of(text):
    return gen.plain(loaded(text))


def check_key_order(obs_keys, lkeys, rkeys):
    lset = set(lkeys)
    if [k for k in obs_keys if k in lset] != list(lkeys):
        return "left-keys-reordered"
    pos = {k: i for i, k in enumerate(obs_keys)}
    for i, k in enumerate(rkeys):
        if k in lset:
            continue
        nxt = next((k2 for k2 in rkeys[i + 1:] if k2 in lset), None)
        if nxt is not None and pos[k] > pos[nxt]:
            return "new-key-after-the-right-hand-key-that-follows-it"
    return None


def order_violation(obs_doc, trace):
    for ev in trace:
        if ev[0] != "hash-deep":
            continue
        node = obs_doc
        try:
            for seg in ev[1]:
                node = node[seg]
        except (KeyError, IndexError, TypeError):
            continue
        if not isinstance(node, dict):
            continue
        v = check_key_order(list(node.keys()), list(ev[2]), list(ev[3]))
        if v:
            return v
    return None


def judge(case, real=None, lt=None, rt=None, merge=None):
    """Compare one real run with the oracle.

    -> dict(status = pass | crash | unexpected-error | no-error | wrong-result | key-order | from-code,
            real, expected, cells, liberties, from_code, order)
    """
    real = real if real is not None else run_real(case)
    lt = plain_of(case["lhs"]) if lt is None else lt
    rt = plain_of(case["rhs"]) if rt is None else rt
    cfg = spec_config(case)
    outcomes = None
    tr = []
    try:
        first = ("ok", (merge or S.spec_merge)(lt, rt, cfg, tr))
    except S.SpecMergeError as e:
        first = ("error", e.cell)
    res = {"real": real, "expected": first, "liberties": (), "order": None,
           "cells": sorted(set(ev[1:] for ev in tr if ev[0] == "cell"), key=repr),
           "from_code": sorted(set(ev[1] for ev in tr if ev[0] == "from-code"))}

    def matches(out):
        if real[0] == "ok":
            return out[0] == "ok" and S.veq(real[1], out[1])
        if real[0] == "error":
            return out[0] == "error"
        return False

    hit = None
    if matches(first):
        hit = (frozenset(), first, tr)
    elif real[0] != "crash" and any(ev[0] == "liberty" for ev in tr):
        outcomes = S.spec_outcomes(lt, rt, cfg, merge)
        for o in outcomes:
            if matches(o[1]):
                hit = o
                break
    if hit is not None:
        res["liberties"] = tuple(sorted(hit[0]))
        res["expected"] = hit[1]
        if real[0] == "ok":
            v = order_violation(real[1], hit[2])
            if v:
                res["status"] = "key-order"
                res["order"] = v
                return res
        res["status"] = "pass"
        return res
    if outcomes is not None:
        fc = set(res["from_code"])
        for o in outcomes:
            fc.update(ev[1] for ev in o[2] if ev[0] == "from-code")
        res["from_code"] = sorted(fc)
        res["alternatives"] = [o[1] for o in outcomes[1:]]
    if real[0] == "crash":
        res["status"] = "crash"
    elif res["from_code"]:
        res["status"] = "from-code"
    elif real[0] == "error":
        res["status"] = "unexpected-error"
    elif first[0] == "error" and (outcomes is None or all(o[1][0] == "error" for o in outcomes)):
        res["status"] = "no-error"
    else:
        res["status"] = "wrong-result"
    return res


# --------------------------------------------------------------------------- classification of a failing case

def shape_class(v):
    k = S.kind(v)
    if v is None:
        return "null"
    if k == "scalar":
        return "scalar"
    if k == "map":
        return "hash" if v else "empty-hash"
    if k == "set":
        return "set"
    if not v:
        return "empty-seq"
    kinds = {S.kind(e) == "map" for e in v}
    if kinds == {True}:
        return "aoh"
    if kinds == {False}:
        return "array"
    return "mixed-seq"


def first_diff_site(a, b, path=()):
    """Longest Hash-key-only path at which the two documents still differ."""
    if isinstance(a, dict) and isinstance(b, dict) and not isinstance(a, SetT):
        if set(a.keys()) == set(b.keys()):
            for k in a:
                if not S.veq(a[k], b[k]):
                    return first_diff_site(a[k], b[k], path + (k,))
    return path


def _class_at(doc, path):
    for seg in path:
        if isinstance(doc, dict) and seg in doc:
            doc = doc[seg]
        else:
            return "absent"
    return shape_class(doc)


def _subst_true(v):
    if v is True:
        return TRUE_TOKEN
    if isinstance(v, dict):
        return {_subst_true(k): _subst_true(x) for k, x in v.items()}
    if isinstance(v, SetT):
        return SetT(tuple(_subst_true(x) for x in v))
    if isinstance(v, list):
        return [_subst_true(x) for x in v]
    return v


def _contains_true(v):
    if v is True:
        return True
    if isinstance(v, dict):
        return any(_contains_true(x) for x in v.values())
    if isinstance(v, (list, tuple)):
        return any(_contains_true(x) for x in v)
    return False


def classify(case, res, judge_fn=None, prop=PROP):
    """Stable witness key + description for a failing case (res = judge(case))."""
    judge_fn = judge_fn or judge
    status = res["status"]

    def still(c):
        return judge_fn(c)["status"] == status

    # 1. which non-default policies / overrides are needed to keep the failure?
    c = dict(case, args=dict(case["args"]))
    if c.get("ini"):
        # fold the INI defaults into the arguments when that keeps the failure
        c2 = dict(c, ini=None, args={o: c["args"].get(o) or c["ini"].get(o) for o in OPTS})
        if still(c2):
            c = c2
    for o in OPTS:
        if c["args"].get(o) not in (None, DEFAULT_POLICY[o]):
            c2 = dict(c, args=dict(c["args"], **{o: None}))
            if still(c2):
                c = c2
    for sect in ("rules", "keys"):
        if c.get(sect):
            for k in list(c[sect]):
                c2 = dict(c, **{sect: {kk: vv for kk, vv in c[sect].items() if kk != k}})
                if still(c2):
                    c = c2
    needed = ["%s=%s" % (o, c["args"][o]) for o in OPTS if c["args"].get(o) not in (None, DEFAULT_POLICY[o])]
    if c.get("ini"):
        needed.append("ini-defaults")
    lt, rt = plain_of(c["lhs"]), plain_of(c["rhs"])
    for sect in ("rules", "keys"):
        for k, v in sorted((c.get(sect) or {}).items()):
            try:
                cls = shape_class(S.get_at(rt, parse_path(k)))
            except (KeyError, IndexError, TypeError):
                cls = "absent"
            needed.append("%s:%s%s=%s" % (sect[:-1], cls, "@root" if k == "/" else "", v if sect == "rules" else "key"))
    pol = ",".join(needed) or "default-policies"
    r = judge_fn(c)
    real, exp = r["real"], r["expected"]

    # 2. does it only fail because Python's True == 1 ?
    conflated = False
    if status in ("wrong-result", "no-error", "unexpected-error") and (_contains_true(lt) or _contains_true(rt)):
        c3 = dict(c, lhs=gen.to_yaml(_subst_true(lt)), rhs=gen.to_yaml(_subst_true(rt)))
        conflated = judge_fn(c3)["status"] == "pass"

    tag = "true-equals-1/" if conflated else ""
    if status == "crash":
        key = "%s/crash/%s(%s)@%s" % (prop, real[1]["type"], real[1]["detail"], real[1]["at"])
        what = "%s escapes merge_with instead of a MergeException (%s line %s): %s" % (
            real[1]["type"], real[1]["at"], real[1]["line"], real[1]["msg"])
    elif status == "unexpected-error":
        key = "%s/merge-error-where-result-defined/%s%s/%s" % (prop, tag, slug(real[1]), pol)
        what = "MergeException although the documented policies define the merged document"
    elif status == "no-error":
        key = "%s/no-merge-error/%s%s/%s" % (prop, tag, exp[1], pol)
        what = "a structurally impossible merge (%s) produced a document instead of a merge error" % exp[1]
    elif status == "key-order":
        key = "%s/key-order/%s" % (prop, r["order"] or res["order"])
        what = "deep Hash merge: " + (r["order"] or res["order"])
    else:
        site = first_diff_site(real[1], exp[1]) if exp[0] == "ok" else ()
        where = "%s<-%s%s" % (_class_at(lt, site), _class_at(rt, site), "@root" if not site else "")
        named = [parse_path(k) for sect in ("rules", "keys") for k in (c.get(sect) or {})]
        if named:
            # is the differing node the one the override names (or below it), or another one?
            on = any(tuple(site[:len(n)]) == tuple(x for x in n if not isinstance(x, int)) or
                     tuple(site) == tuple(n[:len(site)]) for n in named)
            where += "(the-overridden-node)" if on else "(not-the-overridden-node)"
        key = "%s/wrong-result/%s%s/%s" % (prop, tag, where, pol)
        what = "merged document differs from every documented reading at a node of shape %s under %s" % (where, pol)
    if conflated:
        what += " (passes once `true` is replaced by a string: Python's True == 1 conflation)"
    return key, what, c, r


# --------------------------------------------------------------------------- input space

def flat_perm_maps(keys=("a", "b", "c"), value=1):
    out = [{}]
    for n in range(1, len(keys) + 1):
        for ks in itertools.permutations(keys, n):
            out.append({k: value for k in ks})
    return out


def curated_docs():
    """Hand-picked shapes beyond the enumerated bound (stated in `bounds`)."""
    return [
        {"a": {"c": [1]}, "b": {"c": [1]}},                   # equal sub-trees at two paths (rule matching)
        {"a": {"c": [2]}, "b": {"c": [2]}},
        {"a": {"c": {"x": 1}}, "b": {"c": {"x": 1}}},
        {"a": {"c": {"y": 2}}, "b": {"c": {"y": 2}}},
        [{"a": 1, "b": 1}, {"a": 2, "b": 2}],                  # AoH, two records
        [{"a": 2, "b": 3}, {"a": 3, "b": 4}],
        [{"a": 1, "b": {"x": 1}}],
        [{"a": 1, "b": {"y": 2}}],
        [{"b": 1, "a": 1}],
        [{"a": 1}, {"a": 1}],
        [{"a": 1, "b": 1}, {"a": 1, "b": 2}],
        [{"b": 1}, {"a": 1}],
        [{"a": 1}, 2],
        [2, {"a": 1}],
        {"a": [{"a": 1, "b": 1}, {"a": 2, "b": 2}]},
        {"a": [{"a": 2, "b": 3}, {"a": 3}]},
        {"a": [{"a": 1, "b": [1]}]},
        {"a": [{"a": 1, "b": [2]}]},
        {"a": [1, 1, 2], "b": SetT(("a", "b"))},
        {"a": [2, 2, 3], "b": SetT(("b", "c"))},
        {"a": [[1], [2]]},
        {"a": [[1], [3]]},
        {"a": SetT(()), "b": []},
        {"a": {}, "b": None},
        {1: "x", "x.y": {"a": 1}},
        {1: "y", "x.y": {"b": 2}, "a b": [1]},
        {"a": 1.5, "b": "1", "c": ""},
        {"a": 2.5, "b": 1, "c": None},
        [1, "1", 1.5, None, True],
        ["1", 2, None, False],
        SetT(("a", "b")),
        SetT(("b", "c")),
        {"a": {"a": {"a": 1}}},
        {"a": {"a": {"b": 2}}},
        {"b": 2, "a": {"b": 1, "a": 2}},
        {"a": {"c": 1, "a": 3, "b": 4}, "c": 1, "b": 3},
    ]


_POOLS = {}


def pools(tier):
    if tier in _POOLS:
        return _POOLS[tier]
    d3 = gen.trees(3, 2, keys=("a", "b"), scalars=gen.SCALARS_SMALL)
    d4 = gen.trees(4, 3, keys=("a", "b"), scalars=(None, 1, "a"))
    perm_l = flat_perm_maps(value=1)
    perm_r = flat_perm_maps(value=2)
    cur = curated_docs()
    p = {"d3": d3, "d4": d4, "perm_l": perm_l, "perm_r": perm_r, "cur": cur}
    texts = {}
    for name, docs in p.items():
        texts[name] = [gen.to_yaml(t) for t in docs]
    _POOLS[tier] = (p, texts)
    return _POOLS[tier]


def container_paths(doc, path=(), through_lists=True):
    """(path, class) of every non-root container of the right-hand document that a rule may name."""
    out = []
    if isinstance(doc, dict):
        for k, v in doc.items():
            if not isinstance(k, str) or not re.match(r"^[a-z]+$", k):
                continue
            if S.kind(v) != "scalar":
                out.append((path + (k,), shape_class(v)))
                out.extend(container_paths(v, path + (k,), through_lists))
    elif isinstance(doc, list) and not isinstance(doc, SetT) and through_lists:
        for i, v in enumerate(doc):
            if isinstance(v, dict):
                out.extend(container_paths(v, path + (i,), through_lists))
    return out


RULE_MODES = {"hash": S.HASH_MODES, "empty-hash": S.HASH_MODES, "array": S.ARRAY_MODES,
              "aoh": S.AOH_MODES, "mixed-seq": (), "empty-seq": (), "set": S.SET_MODES}


def override_variants(lt, rt):
    """Per-path [rules]/[keys] overrides for a pair: every single rule on a right-hand container
    (any valid mode), a root rule when both roots have the same kind, identity keys for AoHs."""
    out = []
    cands = container_paths(rt)
    if S.kind(lt) == S.kind(rt) and S.kind(rt) != "scalar":
        cands = [((), shape_class(rt))] + cands
    for p, cls in cands:
        for m in RULE_MODES.get(cls, ()):
            out.append({"rules": {path_text(p): m}})
        if cls == "aoh":
            node = S.get_at(rt, p)
            ks = []
            for rec in node:
                for k in rec:
                    if isinstance(k, str) and k not in ks:
                        ks.append(k)
            for k in ks + ["zz"]:
                out.append({"keys": {path_text(p): k}})
                out.append({"keys": {path_text(p): k}, "rules": {path_text(p): "deep"}})
    return out


def mk_case(ltext, rtext, pol, rules=None, keys=None, ini=None):
    c = {"lhs": ltext, "rhs": rtext, "args": dict(pol)}
    if rules:
        c["rules"] = rules
    if keys:
        c["keys"] = keys
    if ini:
        c["ini"] = ini
    return c


# --------------------------------------------------------------------------- workers

def _sig(case, res, lt, rt):
    return stable_hash([res["status"], res["expected"][0], res["real"][0], res["cells"], res["liberties"],
                        res["from_code"], shape_class(lt), shape_class(rt),
                        sorted((case.get("rules") or {}).values()), bool(case.get("keys")), bool(case.get("ini"))])


def eval_case(col, case, lt, rt, judge_fn=judge, classify_fn=classify, prop=PROP):
    res = judge_fn(case)
    st = res["status"]
    nontrivial = (res["real"][0] != "ok" or not S.veq(res["real"][1], lt)) or st != "pass"
    sample = None
    if len(col.samples) < col.max_samples and nontrivial and st == "pass" and (col.evaluations % 37 == 0):
        sample = {"input": case, "result": _jsonable(res["real"])}
    col.case(_sig(case, res, lt, rt) if nontrivial else None, sample)
    if st == "pass":
        return
    if st == "from-code":
        col.out_of_scope("from-code-clause-disagrees/" + "+".join(res["from_code"]))
        return
    key, what, minimal, r = classify_fn(case, res)
    col.witness(key, what, minimal, observed=_jsonable(r["real"]), expected=_jsonable(r["expected"]))


def _jsonable(v):
    if isinstance(v, SetT):
        return {"!!set": [_jsonable(x) for x in v]}
    if isinstance(v, dict):
        return {(k if isinstance(k, str) else repr(k)): _jsonable(x) for k, x in v.items()}
    if isinstance(v, (list, tuple)):
        return [_jsonable(x) for x in v]
    return v


def _policies_for(mode, li, ri, seed, k):
    if mode == "all":
        return ALL_POLICIES
    if mode == "axis":
        return AXIS_POLICIES
    rng = random.Random((seed * 1000003 + li * 7919 + ri) & 0xFFFFFFFF)
    return rng.sample(ALL_POLICIES, k)


def work_pairs(chunk, tier, seed, lname, rname, polmode, k):
    """chunk: list of (li, ri) into pools lname x rname."""
    p, texts = pools(tier)
    col = Collector()
    for li, ri in chunk:
        lt, rt = p[lname][li], p[rname][ri]
        for pol in _policies_for(polmode, li, ri, seed, k):
            eval_case(col, mk_case(texts[lname][li], texts[rname][ri], pol), lt, rt)
    return col.result(internal=True)


CONTRARY = {"hashes": "left", "arrays": "left", "aoh": "left", "sets": "left"}
CONTRARY2 = {"hashes": "right", "arrays": "unique", "aoh": "deep", "sets": "right"}


def work_overrides(chunk, tier, seed, lname, rname):
    p, texts = pools(tier)
    col = Collector()
    for li, ri in chunk:
        lt, rt = p[lname][li], p[rname][ri]
        for ov in override_variants(lt, rt):
            for pol in ({}, CONTRARY, CONTRARY2):
                eval_case(col, mk_case(texts[lname][li], texts[rname][ri], pol, ov.get("rules"), ov.get("keys")), lt, rt)
    return col.result(internal=True)


def work_ini(chunk, tier, seed, lname, rname):
    """[defaults] of an INI file: used when the command line is silent, overridden by it."""
    p, texts = pools(tier)
    col = Collector()
    for li, ri in chunk:
        lt, rt = p[lname][li], p[rname][ri]
        rng = random.Random((seed * 31 + li * 104729 + ri) & 0xFFFFFFFF)
        ini = rng.choice(ALL_POLICIES[1:])
        cli = rng.choice(ALL_POLICIES)
        part = {o: cli[o] for o in OPTS if rng.random() < 0.5}
        for args in ({}, part):
            eval_case(col, mk_case(texts[lname][li], texts[rname][ri], args, ini=dict(ini)), lt, rt)
    return col.result(internal=True)


# --------------------------------------------------------------------------- driver

def _pairs(n, m):
    return [(i, j) for i in range(n) for j in range(m)]


def _sample_pairs(n, m, count, rng):
    if count >= n * m:
        return _pairs(n, m)
    seen = set()
    while len(seen) < count:
        seen.add((rng.randrange(n), rng.randrange(m)))
    return sorted(seen)


def self_check(tier):
    """Generator sanity: template == plain(load(to_yaml(template))) for every pooled document."""
    p, texts = pools(tier)
    for name in p:
        for t, text in zip(p[name], texts[name]):
            back = gen.plain(gen.load(text))
            if not S.veq(back, t) or (isinstance(t, dict) and list(back.keys()) != list(t.keys())):
                raise AssertionError("generator/loader mismatch for %r: %r" % (text, back))


def run(tier="quick", seed=0, jobs=None):
    p, texts = pools(tier)
    self_check(tier)
    col = Collector()
    rng = random.Random(seed)
    n3, n4 = len(p["d3"]), len(p["d4"])
    ncur = len(p["cur"])
    stages = []
    if tier == "quick":
        stages.append(("d3xd3 x 12 axis policies (exhaustive)", work_pairs, _pairs(n3, n3), ("d3", "d3", "axis", 0)))
        stages.append(("d3xd3 x 6 sampled of 180", work_pairs, _pairs(n3, n3), ("d3", "d3", "sample", 6)))
        stages.append(("d4xd4 sampled pairs x 4 sampled policies", work_pairs,
                       _sample_pairs(n4, n4, 40000, rng), ("d4", "d4", "sample", 4)))
        ov_pairs = _sample_pairs(n4, n4, 6000, rng)
        ini_pairs = _sample_pairs(n3, n3, 3000, rng)
        exhaustive = False
    else:
        stages.append(("d3xd3 x all 180 policies (exhaustive)", work_pairs, _pairs(n3, n3), ("d3", "d3", "all", 0)))
        stages.append(("d4xd4 x 12 axis policies (exhaustive)", work_pairs, _pairs(n4, n4), ("d4", "d4", "axis", 0)))
        stages.append(("d4xd4 sampled pairs x all 180", work_pairs,
                       _sample_pairs(n4, n4, 15000, rng), ("d4", "d4", "all", 0)))
        ov_pairs = _sample_pairs(n4, n4, 120000, rng)
        ini_pairs = _pairs(n3, n3)
        exhaustive = True
    stages.append(("key-permuted flat maps x all 180", work_pairs,
                   _pairs(len(p["perm_l"]), len(p["perm_r"])), ("perm_l", "perm_r", "all", 0)))
    stages.append(("curated x curated x all 180", work_pairs, _pairs(ncur, ncur), ("cur", "cur", "all", 0)))
    stage_info = []
    try:
        for name, fn, items, extra in stages:
            before = col.evaluations
            for r in pmap_chunks(fn, items, jobs=jobs, chunk=max(20, len(items) // 160 or 1),
                                 extra=(tier, seed) + tuple(extra)):
                col.merge(r)
            stage_info.append({"stage": name, "pairs": len(items), "cases": col.evaluations - before})
        for name, fn, items, extra in (
                ("rules/keys overrides: d4xd4 pairs", work_overrides, ov_pairs, ("d4", "d4")),
                ("rules/keys overrides: curated x curated", work_overrides, _pairs(ncur, ncur), ("cur", "cur")),
                ("INI [defaults] vs command line: d3xd3", work_ini, ini_pairs, ("d3", "d3"))):
            before = col.evaluations
            for r in pmap_chunks(fn, items, jobs=jobs, chunk=max(20, len(items) // 160 or 1), extra=(tier, seed) + extra):
                col.merge(r)
            stage_info.append({"stage": name, "pairs": len(items), "cases": col.evaluations - before})
    finally:
        shutil.rmtree(TMP_ROOT, ignore_errors=True)
    bounds = {
        "d3": "rtc.gen.trees(max_nodes=3, max_depth=2, keys=(a,b), scalars=(null,true,1,'a'), sets) = %d documents" % n3,
        "d4": "rtc.gen.trees(max_nodes=4, max_depth=3, keys=(a,b), scalars=(null,1,'a'), sets) = %d documents" % n4,
        "perm": "flat Hashes over every ordered selection of keys (a,b,c): %d x %d" % (len(p["perm_l"]), len(p["perm_r"])),
        "curated": "%d hand-picked documents (two-record AoHs, equal sub-trees at two paths, mixed sequences, int/dotted keys, floats)" % ncur,
        "policies": "3x4x5x3 = 180; 'axis' = default + every single-option deviation (12)",
        "overrides": "one [rules] entry on any right-hand container reachable by Hash keys / AoH indices (every valid mode) "
                     "or on the root when both roots have one kind; [keys] entries naming every string key of an AoH and an absent key; "
                     "each under CLI policies {none, all-left, right/unique/deep/right}",
        "ini": "[defaults] section via a real INI file, command line silent or partly set",
        "stages": stage_info,
        "tier": tier, "seed": seed,
    }
    rule = ("for every enumerated (lhs, rhs, policy, overrides): merge_with raises only MergeException; it raises one iff every "
            "documented reading is a merge error; otherwise plain(merger.data) equals a documented reading "
            "(Hash key order disregarded, true != 1) and every deep-merged Hash keeps the left keys' relative order with "
            "new right keys before the right key that follows them")
    return col.result(rule=rule, exhaustive=exhaustive, bounds=bounds)


def replay(inp):
    """Re-run one witness input natively (fresh YAML loads)."""
    try:
        real = run_real(inp, fresh=True)
        res = judge(inp, real=real)
        if res["status"] in ("pass", "from-code"):
            return None
        key, what, minimal, r = classify(inp, res)
        return {"key": key, "what": what, "inputs": [inp], "observed": _jsonable(r["real"]),
                "expected": _jsonable(r["expected"]), "count": 1}
    finally:
        shutil.rmtree(TMP_ROOT, ignore_errors=True)


def main(argv, mod):
    tier = argv[1] if len(argv) > 1 else "quick"
    if tier == "replay":
        print(json.dumps(mod.replay(json.loads(argv[2])), indent=1, default=repr))
        return
    seed = int(argv[2]) if len(argv) > 2 else 0
    jobs = int(argv[3]) if len(argv) > 3 else None
    print(json.dumps(mod.run(tier, seed, jobs), indent=1, default=repr))


if __name__ == "__main__":
    main(sys.argv, sys.modules[__name__])
