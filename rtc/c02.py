"""C02 - every result locates its node: coordinates and reported path re-resolve.

Bounded stand-in.  For every result `nc` of

    Processor(logger, data).get_nodes(path, mustexist=True)

that designates a real document node (virtual results - slices, collectors,
name() - are skipped and counted), the contract taken from the property
statement is checked against the real code:

  (1) parent-ref   `nc.parent[nc.parentref] is nc.node`; for a set member
                   `nc.node in nc.parent` (and nc.parent is that set); the
                   document root has parent None.
  (2) ancestry     `nc.ancestry` walks from the document root: ancestry[0][0] is
                   the root, `a_i[ref_i] is a_(i+1)`, the last entry is
                   (parent, parentref); it is empty for the root.
  (3) requery      `get_nodes(str(nc.path), mustexist=True)` on the same
                   document - and the same path re-rendered in the other
                   notation (copy, set `.separator`) - returns that node at
                   that position and no other: exactly once, or, when the
                   reported path names the node by its anchor (&name), once per
                   place the anchored node occurs (every result is that node; a
                   container shared through aliases has one (parent, ref) position,
                   so the places themselves are not counted).
  (+) stability    the coordinates handed out with a result do not change
                   while the rest of the results are generated (a result's
                   path / ancestry objects are owned by that result).

All clauses are checked at the moment the result is yielded (the README's
`for nc in get_nodes(...)` pattern); stability is checked after the generator
is exhausted.

Virtual results (skipped, counted): the result of a slice `[a:b]` (also `[a:a]`),
of a collector, of name(); every result of a query that contains name(); what a
later segment makes of a slice/collector when its parent or node is a temporary
container that is not part of the document.  Results downstream of a slice that
claim document containers are checked (key suffix .../after-virtual).

A failing multi-segment query is attributed to its shortest prefix whose own
results already fail (later segments only inherit broken coordinates): the
witness input is that prefix.

Inputs: documents from rtc.gen.trees over the default key alphabet and over
keys drawn from the escapable punctuation set, hand-written anchor/alias/merge
documents, seeded random trees; x paths of 1 and 2 segments (3 sampled) of the
C01 fragment + keyword segments has_child/min/max/unique/distinct/parent/name,
inverted forms, rendered in dot and in forward-slash notation by rtc.pathgen.

Keys that begin with '&', contain '*' or a backslash, or are empty are outside
the property's character list: such documents are run, failures are counted
with out_of_scope and never become witnesses.

Witness key:  C02/<clause>[:<detail>]/<kind of the query's last segment = nc.path_segment>/
              <kind of the container at which it goes wrong>
              C02/<clause>/after-virtual                       (a later segment consumed a slice)
              C02/requery-miss:first-key-begins-with-slash/*/* (path text rendering, any segment)
              C02/requery-miss:path-text-does-not-parse-back-to-the-ancestry-refs/*/<container>
"""
import itertools
import json
import random
import sys

from rtc import gen, pathgen
from rtc.harness import Collector, pmap_chunks, stable_hash

# ---------------------------------------------------------------------------
# input space
# ---------------------------------------------------------------------------
KEYS_DEFAULT = ("a", "b", 1, "x.y")
SCALARS_CORE = (None, 1, "a")
SCALARS_BIG = (None, "a")       # 4-node trees of the thorough tier

# every character the path syntax defines an escape for (separators, brackets,
# parentheses, quotes, space, ^ $ %), in the middle, at the start and at the end
PUNCT_KEYS = (
    "x.y", "a/b", "k e", "a[b", "a]b", "p(q", "p)q", "q'r", 'q"r', "^a", "a$",
    "a%b", "/x", ".x", "x/", "x.", "[", "$", "%a", "a^b", "(p", "q)", "a.b/c",
)
OOS_KEYS = ("&a", "a*", "*", "a\\b", "")

ANCHOR_DOCS = (
    "{a: &x 1, b: *x}",
    "[&x a, *x, b]",
    "{k: &x {a: 1}, j: *x}",
    "[&x {a: 1}, *x]",
    "{base: &b {a: 1}, d: {<<: *b, c: 2}}",
    "{a: &x [1, 2], b: *x}",
    "{&k a: 1, b: *k}",
    "{a: {b: &x 1}, c: [*x, &y 2, *y]}",
    "[[&x 1, *x], {a: *x}]",
    "[{a: &x 1}, {b: 2}, {c: *x}, {a: *x}]",          # has_child(&x) passes an Array-of-Hashes through, element by element
)
ANCHOR_NAMES = ("x", "y", "b", "k")

KEYWORDS = (
    (False, "has_child", "a"), (True, "has_child", "a"), (False, "has_child", "b"),
    (True, "has_child", "zz"), (False, "has_child", "&x"), (True, "has_child", "&x"),
    (False, "max", "a"), (True, "max", "a"), (False, "min", "a"), (True, "min", "a"),
    (False, "max", ""), (True, "max", ""), (False, "min", ""), (True, "min", ""),
    (False, "unique", ""), (True, "unique", ""), (False, "unique", "a"), (True, "unique", "a"),
    (False, "distinct", ""), (False, "distinct", "a"),
    (False, "parent", ""), (False, "parent", "2"), (False, "parent", "0"),
    (False, "name", ""),
)


def oos_key(k):
    s = str(k)
    return s == "" or s.startswith("&") or "*" in s or "\\" in s


def _plain_param(k):
    return isinstance(k, str) and k.isalnum()


def vocab_for(alphabet, anchors=()):
    """Segment vocabulary instantiated over a document's key alphabet."""
    alphabet = tuple(alphabet)
    attrs = (".",) + tuple(k for k in alphabet if isinstance(k, str) and k != "")[:3]
    v = pathgen.vocabulary(
        keys=alphabet, idx=(-1, 0, 1, 2), slices=((0, 1), (0, 2), (1, 1), (-9, 2), (-9, -1)),      # incl. a start before the list
        attrs=attrs, terms=("a", "1"), ops=("=", "<", "=~"), inverted=(False, True),
        globs=("a*",), regex_terms=(".",))
    kws = list(KEYWORDS)
    for k in alphabet:
        if _plain_param(k) and k not in ("a", "b"):
            kws += [(False, "has_child", k), (True, "max", k), (False, "unique", k)]
    v += [("kw", inv, name, par) for inv, name, par in kws]
    v += [("anchor", a) for a in anchors]
    return v


def doc_keys(t, acc=None):
    acc = [] if acc is None else acc
    if isinstance(t, dict):
        for k, v in t.items():
            if k not in acc:
                acc.append(k)
            doc_keys(v, acc)
    elif isinstance(t, gen.SetT):
        pass
    elif isinstance(t, (list, tuple)):
        for v in t:
            doc_keys(v, acc)
    return acc


def has_oos_key(t):
    if isinstance(t, dict):
        return any(oos_key(k) or has_oos_key(v) for k, v in t.items())
    if isinstance(t, gen.SetT):
        return any(oos_key(m) for m in t)
    if isinstance(t, (list, tuple)):
        return any(has_oos_key(v) for v in t)
    return False


# ---------------------------------------------------------------------------
# the contract
# ---------------------------------------------------------------------------
def _types():
    from ruamel.yaml.comments import CommentedSet
    from yamlpath.wrappers import NodeCoords
    return CommentedSet, NodeCoords


def kind(x):
    CommentedSet, NodeCoords = _types()
    if x is None:
        return "none"
    if isinstance(x, NodeCoords):
        return "virtual"
    if isinstance(x, (CommentedSet, set, frozenset)):
        return "set"
    if isinstance(x, dict):
        return "map"
    if isinstance(x, list):
        return "virtual" if any(isinstance(e, NodeCoords) for e in x) else "seq"
    return "scalar"


def seg_kind(nc):
    seg = getattr(nc, "path_segment", None)
    if not seg:
        return "none"
    return _seg_kind(seg[0], seg[1])


def _seg_kind(typ, attrs):
    name = getattr(typ, "name", str(typ))
    if name == "KEYWORD_SEARCH":
        kw = getattr(attrs, "keyword", None)
        return "kw:" + str(kw).lower().strip("[]()") if kw is not None else "kw"
    if name == "INDEX" and ":" in str(attrs):
        return "SLICE"
    return name


class Doc:
    """A loaded document with its child positions and container identities."""

    def __init__(self, data):
        CommentedSet, _ = _types()
        self.root = data
        self.positions = []          # (container, ref, child), aliases walked once
        self.container_ids = set()
        seen, todo = set(), [data]
        while todo:
            c = todo.pop()
            if id(c) in seen:
                continue
            if isinstance(c, (CommentedSet, set)):
                seen.add(id(c))
                for m in c:
                    self.positions.append((c, m, m))
            elif isinstance(c, dict):
                seen.add(id(c))
                for k, v in c.items():
                    self.positions.append((c, k, v))
                    todo.append(v)
            elif isinstance(c, list):
                seen.add(id(c))
                for i, v in enumerate(c):
                    self.positions.append((c, i, v))
                    todo.append(v)
        self.container_ids = seen

    def holder_kind(self, c):
        """kind of the container that holds container `c` (by identity); 'none' for the root."""
        for pc, _, ch in self.positions:
            if ch is c:
                return kind(pc)
        return "none"

    def homes(self, nc):
        """containers other than nc.parent that hold nc.node (by identity) under a reference equal to nc.parentref"""
        found = [c for c, ref, ch in self.positions if ch is nc.node and c is not nc.parent and _same_ref(ref, nc.parentref)]
        # scalars are shared objects: prefer a container that hangs directly under the claimed parent
        under = [c for c in found if any(pc is nc.parent and pch is c for pc, _, pch in self.positions)]
        under.sort(key=lambda c: kind(c) != "set")      # a map/list handler would have handed out that very map/list
        return under + [c for c in found if not any(c is u for u in under)]

    def home_by_ancestry(self, nc):
        """parent[parentref] is the node only because an equal scalar is one shared object: the ancestry
        ends at another container that holds this object under this reference."""
        anc = nc.ancestry
        if not anc:
            return None
        try:
            tip = anc[-1][0][anc[-1][1]]
        except (KeyError, IndexError, TypeError):
            return None
        for cand in self.homes(nc):
            if cand is tip:
                return cand
        return None

    def is_merge_source(self, nc):
        m = getattr(nc.parent, "merge", None)
        try:
            return bool(m) and any(src is nc.node for _, src in m)
        except Exception:   # pragma: no cover
            return False


def query_traits(path_text):
    """(has_name, upstream_virtual) of a query, or None when it does not parse."""
    from yamlpath import YAMLPath
    from yamlpath.enums import PathSegmentTypes
    segs = list(YAMLPath(path_text).escaped)
    kinds = [_seg_kind(t, a) if t is not PathSegmentTypes.COLLECTOR else "COLLECTOR" for t, a in segs]
    return ("kw:name" in kinds, any(k in ("SLICE", "COLLECTOR") for k in kinds[:-1]))


def is_virtual(nc, doc, upstream_virtual):
    """Results that designate no single document node (statement: slices, collectors, name())."""
    CommentedSet, NodeCoords = _types()
    sk = seg_kind(nc)
    if sk in ("SLICE", "COLLECTOR", "kw:name"):
        return sk
    if isinstance(nc.node, NodeCoords):
        return "wrapped-nodecoords"
    if isinstance(nc.node, list) and any(isinstance(e, NodeCoords) for e in nc.node):
        return "list-of-nodecoords"
    if isinstance(nc.parent, list) and any(isinstance(e, NodeCoords) for e in nc.parent):
        return "child-of-virtual-list"
    if upstream_virtual:
        # what a later segment makes of a slice/collector: coordinates relative to a temporary list
        if isinstance(nc.parent, (dict, list, CommentedSet, set)) and id(nc.parent) not in doc.container_ids:
            return "child-of-temporary-container"
        if isinstance(nc.node, (dict, list, CommentedSet, set)) and id(nc.node) not in doc.container_ids:
            return "temporary-container"
    return None


def check_parent_ref(nc, doc):
    """-> None or (detail, observed, kind of the container the node really lives in / is claimed to live in)"""
    root = doc.root
    if nc.node is root and kind(root) in ("map", "seq", "set"):
        if nc.parent is not None:
            return "root-has-parent", "parent=%s parentref=%r" % (_short(nc.parent), nc.parentref), kind(nc.parent)
        return None
    if nc.parent is None and nc.node is root:      # scalar document: its only node is the root
        return None
    bad = _direct_parent_ref(nc, doc)
    if bad is None:
        return None
    homes = doc.homes(nc)
    if homes:
        # the node sits under that very reference in another container: the parent handed out is the wrong object
        return ("parent-is-not-the-container", "%s; the node is at [%r] of %s" % (bad[1], nc.parentref, _short(homes[0])),
                kind(homes[0]))
    return bad[0], bad[1], kind(nc.parent)


def _direct_parent_ref(nc, doc):
    CommentedSet, _ = _types()
    if nc.parent is None:
        return "no-parent", "parent=None parentref=%r node=%s" % (nc.parentref, _short(nc.node))
    p = nc.parent
    if isinstance(p, (CommentedSet, set)):
        try:
            ok = nc.node in p
        except TypeError as e:
            return "TypeError", repr(e)
        return None if ok else ("not-a-member", "node=%s parent(set)=%s" % (_short(nc.node), _short(p)))
    if not isinstance(p, (dict, list)):
        return "parent-not-a-container", "parent=%r" % (p,)
    try:
        got = p[nc.parentref]
    except (KeyError, IndexError, TypeError) as e:
        if doc.is_merge_source(nc):
            return "merge-key-source-has-no-ref", "parent=%s parentref=%r -> %s" % (_short(p), nc.parentref, type(e).__name__)
        return type(e).__name__, "parent=%s parentref=%r -> %r" % (_short(p), nc.parentref, e)
    if got is not nc.node:
        return "other-node", "parent[parentref]=%s node=%s" % (_short(got), _short(nc.node))
    return None


def check_ancestry(nc, doc, home=None):
    """-> None or (detail, observed, container kind)"""
    CommentedSet, _ = _types()
    root = doc.root
    anc = nc.ancestry
    if nc.parent is None and nc.node is root:
        if anc:
            return "nonempty-for-root", _anc_repr(anc), "none"
        return None
    tparent, tref = nc.parent, nc.parentref
    hk = kind(home) if home is not None else kind(nc.parent)
    if home is not None:
        tparent = home                    # the walk has to end at the container the node really lives in
        for cand in [home] + [h for h in doc.homes(nc) if h is not home]:   # equal scalars are shared objects
            try:
                if (not anc and cand is root and nc.parent is None) or \
                        (anc and anc[0][0] is root and anc[-1][0][anc[-1][1]] is cand):
                    return "stops-above-the-container", "%s, node lives in %s" % (_anc_repr(anc), _short(cand)), kind(cand)
            except (KeyError, IndexError, TypeError):
                pass
    if not anc:
        return "truncated", "ancestry=[] parent=%s parentref=%r" % (_short(nc.parent), nc.parentref), hk
    if anc[0][0] is not root:
        return "truncated", "does not start at the root: " + _anc_repr(anc), doc.holder_kind(anc[0][0])
    for i in range(len(anc) - 1):
        a, ref = anc[i]
        if isinstance(a, (CommentedSet, set)) or not isinstance(a, (dict, list)):
            return "broken-link", "entry %d is not an indexable container: %s" % (i, _anc_repr(anc)), kind(a)
        try:
            nxt = a[ref]
        except (KeyError, IndexError, TypeError) as e:
            return "broken-link", "entry %d: %s -> %s" % (i, _anc_repr(anc), type(e).__name__), kind(a)
        if nxt is not anc[i + 1][0]:
            return "broken-link", "entry %d[ref] is not entry %d: %s" % (i, i + 1, _anc_repr(anc)), kind(a)
    la, lref = anc[-1]
    if la is nc.parent and doc.is_merge_source(nc):
        if lref is nc.node or _same_ref(lref, nc.parentref):
            return None      # no key/index exists for a merged-in map; reported once, under parent-ref
    if la is not tparent or not _same_ref(lref, tref):
        return ("last-entry-not-parent", "%s vs parent=%s parentref=%r" % (_anc_repr(anc), _short(tparent), nc.parentref), hk)
    return None


def _same_ref(a, b):
    try:
        return bool(a == b)
    except Exception:   # pragma: no cover
        return False


def _anc_repr(anc):
    return "[" + ", ".join("(%s, %r)" % (_short(a), r) for a, r in anc) + "]"


def _short(x, n=60):
    s = repr(gen.plain(x)) if kind(x) in ("map", "seq", "set", "scalar", "none") else repr(x)
    return s if len(s) <= n else s[:n] + "..."


class Requery:
    """Per-document memo of get_nodes(text, mustexist=True): [(node, parent, parentref) | 'virtual'] or exception."""

    def __init__(self, doc, log):
        self.doc, self.log, self.memo = doc, log, {}

    def __call__(self, text):
        if text in self.memo:
            return self.memo[text]
        from yamlpath import Processor
        try:                                         # only the library runs inside this try
            got = list(Processor(self.log, self.doc.root).get_nodes(text, mustexist=True))
        except Exception as e:                       # including a crash on the library's own reported path
            out = ("exc", type(e).__name__, str(e)[:120])
        else:
            out = ("ok", [("virtual",) if is_virtual(r, self.doc, True) else (r.node, r.parent, r.parentref) for r in got])
        self.memo[text] = out
        return out


def renderings(nc):
    """(notation label, path text) for str(nc.path) and for the same path in the other notation."""
    from yamlpath import YAMLPath
    from yamlpath.enums import PathSeparators
    if nc.path is None:
        return [("as-reported", None)]
    try:
        out = [("as-reported", str(nc.path))]
    except Exception:
        # the reported path does not render (its own text does not parse): query the text it was built from
        return [("as-reported", str(getattr(nc.path, "original", "<unprintable>")))]
    p2 = YAMLPath(nc.path)
    other = PathSeparators.DOT if p2.separator is PathSeparators.FSLASH else PathSeparators.FSLASH
    p2.separator = other
    out.append(("re-rendered-" + ("dot" if other is PathSeparators.DOT else "fslash"), str(p2)))
    return out


_ANCHOR_MEMO = {}


def names_anchor(text):
    if text not in _ANCHOR_MEMO:
        from yamlpath import YAMLPath
        from yamlpath.enums import PathSegmentTypes
        if len(_ANCHOR_MEMO) > 50000:
            _ANCHOR_MEMO.clear()
        try:
            _ANCHOR_MEMO[text] = any(t is PathSegmentTypes.ANCHOR for t, _ in YAMLPath(text).escaped)
        except Exception:
            _ANCHOR_MEMO[text] = False
    return _ANCHOR_MEMO[text]


def first_key_begins_with_slash(nc, doc):
    """The reported path is built in dot notation but its text starts with '/': the first character of a
    top-level key, left unescaped, which makes the whole text read as forward-slash notation."""
    orig = getattr(nc.path, "original", "")
    if not orig.startswith("/"):
        return False
    return kind(doc.root) == "map" and any(isinstance(k, str) and k.startswith("/") for k in doc.root)


def parses_back(nc):
    """Do the key/index segments of the reported path, parsed again, spell the references of the ancestry?
    (True when not comparable: other segment kinds, or a different number of segments)"""
    from yamlpath import YAMLPath
    from yamlpath.enums import PathSegmentTypes
    try:
        segs = list(YAMLPath(str(nc.path)).escaped)
    except Exception:
        return False
    if any(t not in (PathSegmentTypes.KEY, PathSegmentTypes.INDEX) for t, _ in segs):
        return True
    refs = [r for _, r in nc.ancestry]
    if len(segs) != len(refs):
        return True          # a structural disagreement, not a rendering one: keyed by segment kind
    return all(str(a) == str(r) for (_, a), r in zip(segs, refs))


def check_requery(nc, requery, position_trusted):
    """-> list of (clause, detail, observed)"""
    fails = []
    for label, text in renderings(nc):
        if text is None:
            fails.append(("requery-miss", "no-path", "nc.path is None"))
            continue
        out = requery(text)
        if out[0] == "exc":
            detail = "unmatched" if out[1] == "UnmatchedYAMLPathException" else "raises-" + out[1]
            fails.append(("requery-miss", detail, "%s %r -> %s: %s" % (label, text, out[1], out[2])))
            continue
        res = out[1]

        def same(r):
            if r == ("virtual",):
                return False
            if r[0] is not nc.node:
                return False
            return (not position_trusted) or (r[1] is nc.parent and _same_ref(r[2], nc.parentref))
        hits = [r for r in res if same(r)]
        if not hits:
            fails.append(("requery-miss", "other-node" + _depth_note(nc, text), "%s %r -> %s, wanted %s" % (
                label, text, _res_repr(res), _res_repr([(nc.node, nc.parent, nc.parentref)]))))
            continue
        if names_anchor(text):
            # once per place the anchored node occurs: every result is that node (a shared container
            # reached through two aliases has one (parent, ref) position, so places are not counted)
            if any(r == ("virtual",) or r[0] is not nc.node for r in res):
                fails.append(("requery-extra", "anchor-path-other-node", "%s %r -> %s" % (label, text, _res_repr(res))))
        elif len(res) != 1:
            detail = "same-node-repeated" if len(hits) == len(res) else "other-nodes-too"
            fails.append(("requery-extra", detail, "%s %r -> %s" % (label, text, _res_repr(res))))
    return fails


def _depth_note(nc, text):
    """reported path and ancestry disagree about how deep the node sits (e.g. a segment that was not popped)"""
    from yamlpath import YAMLPath
    try:
        return "" if len(YAMLPath(text).escaped) == len(nc.ancestry) else "(path-depth-differs-from-ancestry-depth)"
    except Exception:
        return ""


def _res_repr(res):
    return "[" + ", ".join("virtual" if r == ("virtual",) else "%s@(%s)[%r]" % (_short(r[0], 30), _short(r[1], 40), r[2])
                           for r in res) + "]"


def _path_text(nc):
    if nc.path is None:
        return None
    try:
        return str(nc.path)
    except Exception as e:                          # a reported path that does not even render: a requery miss, not a crash
        return "<unprintable:%s>" % type(e).__name__


def snapshot_coords(nc):
    return (id(nc.node), id(nc.parent), repr(nc.parentref), _path_text(nc),
            tuple((id(a), repr(r)) for a, r in nc.ancestry))


def check_case(doc, path_text, log=None, requery=None):
    """Run one query and check every real result.

    Returns (failures, info): failures = [(key, what, observed, expected)],
    info = dict(n=results, virtual=count, exc=exception type or None, kinds=[...]).
    """
    from yamlpath import Processor
    from yamlpath.exceptions import YAMLPathException
    log = log or gen.quiet_logger()
    requery = requery or Requery(doc, log)
    failures, seen_keys = [], set()
    info = {"n": 0, "virtual": 0, "exc": None, "kinds": []}
    try:
        has_name, upstream_virtual = query_traits(path_text)
    except Exception as e:                      # unparsable query: C14/C15's business
        info["exc"] = "parse:" + type(e).__name__
        return failures, info

    def fail(nc, clause, detail, observed, expected, container, any_segment=False):
        if clause == "requery-miss" and first_key_begins_with_slash(nc, doc):
            key = "C02/requery-miss:first-key-begins-with-slash/*/*"
        elif upstream_virtual:
            # one root cause: a later segment took a slice/collector result for a document list
            key = "C02/%s/after-virtual" % clause
        else:
            key = "C02/%s%s/%s/%s" % (clause, ":" + detail if detail else "", "*" if any_segment else seg_kind(nc), container)
        if key in seen_keys:
            return
        seen_keys.add(key)
        failures.append((key, WHAT[clause], observed, expected))

    handed_out = []
    results = iter(Processor(log, doc.root).get_nodes(path_text, mustexist=True))
    while True:
        try:                                        # only the library runs inside this try
            nc = next(results)
        except StopIteration:
            break
        except YAMLPathException as e:
            info["exc"] = type(e).__name__
            break
        except Exception as e:                      # C15's business, not a coordinate failure
            info["exc"] = "crash:" + type(e).__name__
            break
        info["n"] += 1
        v = "downstream-of-name()" if has_name else is_virtual(nc, doc, upstream_virtual)
        if v:
            info["virtual"] += 1
            info["kinds"].append("virtual:" + v)
            continue
        info["kinds"].append(seg_kind(nc) + ">" + kind(nc.parent))
        handed_out.append((nc, snapshot_coords(nc)))
        pr = check_parent_ref(nc, doc)
        home = doc.homes(nc)[0] if pr and pr[0] == "parent-is-not-the-container" else None
        if pr is None and kind(nc.node) in ("scalar", "none") and nc.parent is not None:
            home = doc.home_by_ancestry(nc)
            if home is not None:
                pr = ("parent-is-not-the-container",
                      "parent=%s parentref=%r holds an equal (shared) scalar; the ancestry leads to %s" % (
                          _short(nc.parent), nc.parentref, _short(home)), kind(home))
        if pr:
            fail(nc, "parent-ref", pr[0], pr[1], "parent[parentref] is node (set: node in parent); root: parent None", pr[2])
        an = check_ancestry(nc, doc, home)
        if an:
            fail(nc, "ancestry", an[0], an[1],
                 "chain root=a0..an=parent, a_i[ref_i] is a_i+1, last entry == (parent, parentref)", an[2])
        hk = kind(home) if home is not None else kind(nc.parent)
        for clause, detail, obs in check_requery(nc, requery, position_trusted=pr is None):
            if clause == "requery-miss" and an is None and not parses_back(nc):
                # the chain is right, the text is not: rendering/escaping, whatever segment produced the result
                fail(nc, clause, "path-text-does-not-parse-back-to-the-ancestry-refs", obs,
                     "the reported path's segments are the ancestry's references", hk, any_segment=True)
            else:
                fail(nc, clause, detail, obs,
                     "exactly this node at this position, once (every result that node for &anchor paths)", hk)
    for nc, snap in handed_out:
        now = snapshot_coords(nc)
        if now != snap:
            field = next(n for n, a, b in zip(("node", "parent", "parentref", "path", "ancestry"), snap, now) if a != b)
            fail(nc, "mutated-after-yield", field,
                 "at yield: path=%r ancestry-len=%d; after the query finished: path=%r ancestry-len=%d" % (
                     snap[3], len(snap[4]), now[3], len(now[4])),
                 "a result's coordinates stay what they were when it was handed out", kind(nc.parent))
    return failures, info


WHAT = {
    "parent-ref": "result's parent[parentref] is not the returned node",
    "ancestry": "result's ancestry does not walk from the document root to (parent, parentref)",
    "requery-miss": "evaluating the reported path does not return the node",
    "requery-extra": "evaluating the reported path returns more than the node",
    "mutated-after-yield": "coordinates of an already returned result were changed by the rest of the query",
}


def check_minimal(doc, segs, sep, log=None, requery=None, memo=None):
    """check_case on render(segs, sep); a failure is attributed to the shortest prefix of the
    query whose own results already fail (a later segment only inherits broken coordinates).

    Returns (failures, info of the full query, culprit segs, culprit text)."""
    memo = {} if memo is None else memo

    def run(ss):
        text = pathgen.render(ss, sep)
        if text not in memo:
            memo[text] = check_case(doc, text, log, requery)
        return text, memo[text]
    text, (failures, info) = run(segs)
    if failures and len(segs) > 1:
        for k in range(1, len(segs)):
            ptext, (pf, _) = run(segs[:k])
            if pf:
                return pf, info, segs[:k], ptext
    return failures, info, segs, text


# ---------------------------------------------------------------------------
# driving
# ---------------------------------------------------------------------------
def doc_shape(data, depth=0):
    k = kind(data)
    if k == "map":
        return "M(" + ",".join(doc_shape(v, depth + 1) for v in data.values()) + ")"
    if k == "seq":
        return "S(" + ",".join(doc_shape(v, depth + 1) for v in data) + ")"
    if k == "set":
        return "T%d" % len(data)
    return "n" if data is None else "s"


def path_shape(segs):
    out = []
    for s in segs:
        if s[0] == "kw":
            out.append(("!" if s[1] else "") + s[2] + ("(p)" if s[3] else "()"))
        elif s[0] == "search":
            out.append(("!" if s[1] else "") + "search" + ("." if s[2] == "." else "@") + s[3])
        elif s[0] == "key":
            out.append("key-int" if str(s[1]).lstrip("-").isdigit() else "key")
        else:
            out.append(s[0])
    return "/".join(out)


_VOCABS = {}


def _vocab(alphabet, anchors):
    k = (tuple(alphabet), tuple(anchors))
    if k not in _VOCABS:
        _VOCABS[k] = vocab_for(alphabet, anchors)
    return _VOCABS[k]


def _paths_for(item):
    """item = dict(yaml, alphabet, anchors, mode, n, seed) -> iterable of segment lists"""
    v = _vocab(item["alphabet"], item.get("anchors", ()))
    mode = item["mode"]
    if mode == "all2":
        for s in v:
            yield [s]
        for p in itertools.product(v, repeat=2):
            yield list(p)
    elif mode == "sample":
        rng = random.Random(item["seed"])
        for s in v:
            yield [s]
        for _ in range(item["n"]):
            yield [rng.choice(v) for _ in range(rng.choice((2, 2, 2, 3)))]
    else:
        raise ValueError(mode)


def _inp(text, segs, sep, ptext, key=None):
    d = {"yaml": text, "path": ptext, "segs": [list(s) for s in segs], "sep": sep}
    if key:
        d["key"] = key
    return d


def _work(chunk):
    col = Collector()
    log = gen.quiet_logger()
    for item in chunk:
        text = item["yaml"]
        data = gen.load(text)
        oos = item.get("oos", False)
        if data is None:
            col.case()
            continue
        doc = Doc(data)
        requery = Requery(doc, log)
        memo = {}
        shape = doc_shape(data)
        before = repr(gen.plain(data))
        reported = set()
        for segs in _paths_for(item):
            pshape = path_shape(segs)
            for sep in (".", "/"):
                failures, info, csegs, ctext = check_minimal(doc, segs, sep, log, requery, memo)
                inherited = len(csegs) < len(segs)
                if failures and (ctext, sep) not in reported:
                    # confirm on a fresh load: only that counts (and is what replay() does)
                    fresh, _ = check_case(Doc(gen.load(text)), ctext)
                    fresh_keys = {f[0] for f in fresh}
                    for f in failures:
                        if f[0] not in fresh_keys:
                            col.out_of_scope("not-reproduced-on-fresh-load:" + f[0])
                    failures = fresh
                nontrivial = info["n"] > 0 or (info["exc"] not in (None, "UnmatchedYAMLPathException"))
                sig = None
                if nontrivial:
                    sig = stable_hash([shape, pshape, sep, info["n"], info["virtual"], info["exc"],
                                       sorted(set(info["kinds"])), sorted(f[0] for f in failures), inherited])
                col.case(sig, {"yaml": text, "path": pathgen.render(segs, sep), "results": info["n"],
                               "virtual": info["virtual"], "exception": info["exc"]}
                         if nontrivial and info["n"] - info["virtual"] > 0 else None)
                if info["virtual"]:
                    col.out_of_scope("virtual-result-skipped")
                if inherited and failures:
                    col.out_of_scope("downstream-of-a-failing-prefix(reported-at-the-prefix)")
                if (ctext, sep) in reported:
                    continue
                reported.add((ctext, sep))
                for key, what, observed, expected in failures:
                    if oos:
                        col.out_of_scope("key-outside-escapable-set:" + key)
                    else:
                        col.witness(key, what, _inp(text, csegs, sep, ctext, key), observed, expected)
        if repr(gen.plain(data)) != before:
            col.out_of_scope("document-changed-by-queries(C09)")
    return col.result(internal=True)


QUICK_SMALL_PATHS, QUICK_BIG_DOCS, QUICK_BIG_PATHS = 500, 400, 120
THOROUGH_N5_DOCS, THOROUGH_RANDOM_DOCS, QUICK_RANDOM_DOCS = 4000, 12000, 1200


def _items(tier, seed):
    quick = tier == "quick"
    rng = random.Random(seed)
    items = []

    def add(t, mode, n=0, anchors=(), yaml=None, alphabet=None):
        text = yaml if yaml is not None else gen.to_yaml(t)
        if alphabet is None:
            alphabet = list(doc_keys(t))
            for extra in ("a", "zz"):
                if extra not in alphabet:
                    alphabet.append(extra)
        items.append({"yaml": text, "alphabet": tuple(alphabet), "anchors": tuple(anchors), "mode": mode,
                      "n": n, "seed": rng.randrange(1 << 30), "oos": (t is not None and has_oos_key(t))})

    # A. structure-exhaustive core over the default alphabet
    core_small = gen.trees(3, 2, keys=KEYS_DEFAULT, scalars=SCALARS_CORE)
    core_big = gen.trees(4, 3, keys=KEYS_DEFAULT, scalars=SCALARS_CORE)
    small_set = {gen.to_yaml(t) for t in core_small}
    tiny_set = {gen.to_yaml(t) for t in gen.trees(2, 1, keys=KEYS_DEFAULT, scalars=SCALARS_CORE)}
    big_rest = [t for t in core_big if gen.to_yaml(t) not in small_set]
    if quick:
        for t in core_small:
            if gen.to_yaml(t) in tiny_set:
                add(t, "all2", alphabet=KEYS_DEFAULT)
            else:
                add(t, "sample", n=QUICK_SMALL_PATHS, alphabet=KEYS_DEFAULT)
        for t in rng.sample(big_rest, QUICK_BIG_DOCS):
            add(t, "sample", n=QUICK_BIG_PATHS, alphabet=KEYS_DEFAULT)
    else:
        for t in core_small:
            add(t, "all2", alphabet=KEYS_DEFAULT)
        for t in gen.trees(4, 3, keys=KEYS_DEFAULT, scalars=SCALARS_BIG):
            if gen.size(t) == 4:
                add(t, "all2", alphabet=KEYS_DEFAULT)
        for t in rng.sample(gen.trees(5, 4, keys=("a", "b", "x.y"), scalars=(None, 1, "a")), THOROUGH_N5_DOCS):
            add(t, "sample", n=300, alphabet=KEYS_DEFAULT)
    # B. keys from the escapable punctuation set
    punct = gen.trees(3, 2, keys=PUNCT_KEYS, scalars=(1,), sets=False)
    punct = [t for t in punct if isinstance(t, (dict, list)) and doc_keys(t)]
    for t in punct:
        add(t, "all2" if not quick and len(doc_keys(t)) <= 1 else "sample", n=150 if quick else 500)
    deep = [{k: {k2: 1}} for k in PUNCT_KEYS for k2 in PUNCT_KEYS[:6]] + \
           [[{k: 1}, {k: "a", "a": 2}] for k in PUNCT_KEYS] + [{k: [{k: 1}]} for k in PUNCT_KEYS] + \
           [{"r": gen.SetT((k, "m"))} for k in PUNCT_KEYS] + \
           [[None, {"a": 1}, {"a": 2}, None, {"a": 1}], {"r": [None, {"a": 1, "b": 2}, {"a": 2}]}]     # Arrays-of-Hashes with null members
    for t in deep:
        add(t, "all2" if not quick else "sample", n=150)
    # C. anchors / aliases / one merge key
    for y in ANCHOR_DOCS:
        add(None, "all2", yaml=y, alphabet=("a", "b", "c", "k", "zz"), anchors=ANCHOR_NAMES)
    # D. keys outside the property's character list: observed, never a witness
    for t in [{k: 1} for k in OOS_KEYS] + [{"r": {k: {"a": 1}}} for k in OOS_KEYS] + [[{k: 1}] for k in OOS_KEYS]:
        add(t, "sample", n=60)
    # E. seeded random trees
    pool = KEYS_DEFAULT + ("c", 2) + PUNCT_KEYS
    for _ in range(QUICK_RANDOM_DOCS if quick else THOROUGH_RANDOM_DOCS):
        ks = tuple(rng.sample(pool, 6))
        t = gen.random_tree(rng, max_nodes=14, max_depth=5, keys=ks, scalars=gen.SCALARS_FULL)
        if not isinstance(t, (dict, list)):
            continue
        add(t, "sample", n=60 if quick else 150)
    return items


def bounds(tier):
    quick = tier == "quick"
    return {
        "core_docs": ("trees(N<=2,D<=1) x all 1+2-segment paths; trees(N<=3,D<=2) x all 1-segment + %d sampled 2-3-segment paths; "
                      "%d sampled trees(N<=4,D<=3) x %d sampled paths" % (QUICK_SMALL_PATHS, QUICK_BIG_DOCS, QUICK_BIG_PATHS)) if quick else
                     ("all trees(N<=3,D<=2) and all 4-node trees(D<=3, scalars null/a) x all 1+2-segment paths; %d sampled trees(N<=5,D<=4, keys a b x.y) x 300 sampled "
                      "2-3-segment paths" % THOROUGH_N5_DOCS),
        "core_keys": list(map(str, KEYS_DEFAULT)), "core_scalars": [repr(s) for s in SCALARS_CORE],
        "punctuation_keys": list(PUNCT_KEYS),
        "punctuation_docs": "trees(N<=3,D<=2, keys=PUNCT, no sets) + 2-level/AoH/seq-in-map/set shapes per key; "
                            + ("150 sampled paths each" if quick else
                               "all 1+2-segment paths (one-key documents, shaped documents), 500 sampled paths (two-key documents)"),
        "anchor_docs": list(ANCHOR_DOCS),
        "out_of_scope_keys": list(OOS_KEYS),
        "random_docs": (QUICK_RANDOM_DOCS if quick else THOROUGH_RANDOM_DOCS), "random_doc_nodes": 14, "random_paths_per_doc": 60 if quick else 150,
        "path_vocabulary": "KEY over the document's keys + zz; INDEX -1..2; SLICE 0:1 0:2 1:1; SEARCH (=,<,=~) x inverted x "
                           "attr(., 3 keys) x terms(a,1); * ; ** ; a* ; keywords " + ", ".join(
                               "[%s%s(%s)]" % ("!" if i else "", n, p) for i, n, p in KEYWORDS) + "; ANCHOR on the anchor docs",
        "max_segments": "2 exhaustive, 3 sampled", "notations": ["dot", "fslash"],
    }


RULE = ("nontrivial = the query returned >=1 result or raised something other than 'unmatched'; distinct = hash of "
        "(document shape with scalars abstracted, path segment-kind sequence, notation, #results, #virtual, exception, "
        "set of (producing segment kind > parent kind), failing clause keys)")


def run(tier="quick", seed=0, jobs=None):
    items = _items(tier, seed)
    # heavy items first would be nicer; a shuffle spreads them evenly enough
    random.Random(seed).shuffle(items)
    col = Collector()
    for part in pmap_chunks(_work, items, jobs=jobs, chunk=8 if tier == "quick" else 16):
        col.merge(part)
    return col.result(rule=RULE, exhaustive=(tier != "quick"), bounds=bounds(tier), tier=tier, seed=seed,
                      documents=len(items))


def replay(inp):
    """Re-run one (document, path) on the current tree; the witness dict if it still fails, else None.

    inp: {"yaml": text, "path": text} (+ "segs"/"sep" as produced by run(): the query is then re-rendered
    from the segments and a failure is attributed to its shortest failing prefix, exactly as in run())."""
    data = gen.load(inp["yaml"])
    if data is None:
        return None
    doc = Doc(data)
    if inp.get("segs"):
        segs = [tuple(s) for s in inp["segs"]]
        failures, _, csegs, ctext = check_minimal(doc, segs, inp.get("sep", "."))
    else:
        ctext = inp["path"]
        failures, _ = check_case(doc, ctext)
    if not failures:
        return None
    want = inp.get("key")
    pick = next((f for f in failures if f[0] == want), failures[0])
    return {"key": pick[0], "what": pick[1], "inputs": [inp], "observed": pick[2], "expected": pick[3], "count": 1,
            "culprit_path": ctext, "all_keys": [f[0] for f in failures]}


if __name__ == "__main__":
    a = sys.argv[1:]
    if a and a[0] == "replay":
        print(json.dumps(replay(json.loads(a[1])), indent=1, default=repr))
    else:
        tier = a[0] if a else "quick"
        seed = int(a[1]) if len(a) > 1 else 0
        jobs = int(a[2]) if len(a) > 2 else None
        print(json.dumps(run(tier, seed, jobs), indent=1, default=repr))
