"""C16 -- the command-line tools deliver the library's answers and honest exit codes.

Bounded stand-in.  The six console entry points (`yamlpath.commands.yaml_get /
yaml_set / yaml_merge / yaml_diff / yaml_validate / yaml_paths`) are driven
IN-PROCESS through their real `main()` (argparse, validateargs, loader, printer,
writer): `sys.argv`, `sys.stdin` (and the alias `yamlpath.common.parsers.stdin`,
which the loader binds at import time -- in a real process both are the same
object), `sys.stdout`, `sys.stderr` are patched and `SystemExit` is caught for the
exit status.  An exception that escapes `main()` is what a shell would see as a
traceback with status 1; it is recorded as status "EXC".

C16 is about DELIVERY: the library (`Processor.get_nodes / set_value /
delete_nodes`, `Merger.merge_with`, `Differ`, `yaml_paths.search_for_paths`) applied
to a separately loaded copy of the same text is the reference for WHAT the answer
is (those answers are C01/C03-C07's business); the contract here is the property
statement plus the `--help` texts / README:

  get       one stdout line per matched node in query order, JSON for Array/Hash
            results; exit 0 <=> something matched
  set       exit 0 => the file (or, for `-`, stdout) reloads to the data the
            library change produces; library refuses => exit != 0
  merge     stdout / --output / --overwrite holds the library merge, in the
            requested format (-D yaml|json; auto = known extension of the output
            file, else the type of the first document); library refuses => != 0
  diff      exit 0 <=> the two documents are data-equal (own, type-strict
            comparison), exit 1 otherwise, and the printed report is the Differ's
            non-SAME entries
  validate  exit 0 <=> every document of every file loads (README: 2 otherwise)
  paths     prints exactly the search results, in order
  all       a document delivered as a file, as `-`, or implicitly on a non-TTY
            stdin gives the same status and output; dot and forward-slash
            notation of the same path give the same answer; YAML (block, flow) and
            JSON inputs

Clauses where only the code defines the behaviour are marked `from-code`; a
disagreement there never produces a witness.

When the *library reference itself* raises something that is not a
YAMLPathException / MergeException on an input (known C04/C05/C06/C15 defects) the
case is counted out_of_scope("library-raises-...") -- that is the other property's
witness, not a delivery failure.
"""
import io
import datetime
import json
import os
import random
import shutil
import sys
import traceback
from argparse import Namespace

from rtc import gen, pathgen
from rtc.harness import Collector, pmap_chunks, stable_hash

MODULE = "c16"
TOOLS = ("get", "set", "merge", "diff", "validate", "paths", "args")


# --------------------------------------------------------------------------
# in-process runner
# --------------------------------------------------------------------------
class _TtyIn(io.StringIO):
    """stdin of an interactive session: nothing waiting, isatty() is true."""
    def isatty(self):
        return True


def _mods():
    from yamlpath.commands import (yaml_get, yaml_set, yaml_merge, yaml_diff,
                                   yaml_validate, yaml_paths)
    return {"get": yaml_get, "set": yaml_set, "merge": yaml_merge, "diff": yaml_diff,
            "validate": yaml_validate, "paths": yaml_paths}


def innermost_repo_frame(tb):
    """`file:function` of the innermost frame that lives in the yamlpath package."""
    import yamlpath
    root = os.path.dirname(os.path.abspath(yamlpath.__file__))
    best = None
    for fr in traceback.extract_tb(tb):
        fn = os.path.abspath(fr.filename)
        if fn.startswith(root):
            best = "%s:%s" % (os.path.relpath(fn, root), fr.name)
    return best or "outside-yamlpath"


def run_cli(tool, argv, stdin_text=None):
    """Run `<tool> argv...`; returns dict(code, out, err, exc).  stdin_text=None means a TTY."""
    import yamlpath.common.parsers as parsers_mod
    mod = _mods()[tool]
    saved = (sys.argv, sys.stdin, sys.stdout, sys.stderr, parsers_mod.stdin)
    out, err = io.StringIO(), io.StringIO()
    sin = io.StringIO(stdin_text) if stdin_text is not None else _TtyIn("")
    sys.argv = ["yaml-" + tool] + [str(a) for a in argv]
    sys.stdin = sin
    parsers_mod.stdin = sin
    sys.stdout, sys.stderr = out, err
    code, exc = 0, None
    try:
        mod.main()
    except SystemExit as ex:
        code = ex.code if ex.code is not None else 0
        if not isinstance(code, int):
            code = 1
    except Exception as ex:  # what a shell sees as a traceback, status 1
        code = "EXC"
        exc = "%s@%s" % (type(ex).__name__, innermost_repo_frame(ex.__traceback__))
    finally:
        sys.argv, sys.stdin, sys.stdout, sys.stderr, parsers_mod.stdin = saved
    return {"code": code, "out": out.getvalue(), "err": err.getvalue(), "exc": exc}


# --------------------------------------------------------------------------
# documents
# --------------------------------------------------------------------------
def _is_leaf(t):
    return not isinstance(t, (dict, list)) or isinstance(t, gen.SetT) or len(t) == 0


def to_block(t, ind=0):
    """Block-style YAML of a template (own renderer; empty containers and sets inline)."""
    pad = "  " * ind
    if _is_leaf(t):
        return pad + gen.to_yaml(t) + "\n"
    lines = []
    if isinstance(t, dict):
        for k, v in t.items():
            if _is_leaf(v):
                lines.append("%s%s: %s\n" % (pad, gen.scalar_yaml(k), gen.to_yaml(v)))
            else:
                lines.append("%s%s:\n%s" % (pad, gen.scalar_yaml(k), to_block(v, ind + 1)))
    else:
        for v in t:
            if _is_leaf(v):
                lines.append("%s- %s\n" % (pad, gen.to_yaml(v)))
            else:
                lines.append("%s-\n%s" % (pad, to_block(v, ind + 1)))
    return "".join(lines)


def jsonable(t):
    if isinstance(t, gen.SetT):
        return False
    if isinstance(t, dict):
        return all(isinstance(k, str) for k in t) and all(jsonable(v) for v in t.values())
    if isinstance(t, list):
        return all(jsonable(v) for v in t)
    return True


def renderings(t, fmts=("block", "flow", "json")):
    """[(fmt, text)] -- distinct texts only."""
    out, seen = [], set()
    for f in fmts:
        if f == "block":
            text = to_block(t)
        elif f == "flow":
            text = gen.to_yaml(t) + "\n"
        else:
            if not jsonable(t):
                continue
            text = json.dumps(t)
        if text not in seen:
            seen.add(text)
            out.append((f, text))
    return out


def shape(t, depth=2):
    if isinstance(t, gen.SetT):
        return "set%d" % len(t)
    if isinstance(t, dict):
        if depth == 0:
            return "map"
        return "map{%s}" % ",".join("%s:%s" % (type(k).__name__[0], shape(v, depth - 1)) for k, v in t.items())
    if isinstance(t, list):
        if depth == 0:
            return "seq"
        return "seq[%s]" % ",".join(shape(v, depth - 1) for v in t)
    return type(t).__name__


CRAFTED = [
    {"a": {"b": 1, "a": "x"}, "b": [1, "a", {"a": 1}]},
    {"a": "line1\nline2", "b": "two words", "x.y": "z"},
    [{"a": 1, "b": "a"}, {"a": 2, "b": "b"}, {"b": 1}],
    {"a": [[1, 2], ["a"]], "b": {"a": {"a": None}}},
    {"a": "", "b": "1", 1: "one"},
    {"a": gen.SetT(("a", "b")), "b": True},
    {"a": 1.5, "b": -3, "x.y": [None, None]},
]

# texts that are not produced by the template renderers (anchors, styles)
RAW_DOCS = [
    ("anchors", "a: &x 1\nb: *x\nc: [*x, 2]\n"),
    ("anchormap", "a: &m {a: 1}\nb: *m\n"),
    ("folded", "a: >\n  folded\n  text\nb: |\n  lit\n  eral\n"),
    ("quoted", "a: 'single'\nb: \"double\"\n'x.y': plain\n"),
    ("comment", "# head\na: 1  # tail\nb:\n  - 1\n  # mid\n  - a\n"),
    ("utf8", "a: \u00e9t\u00e9\nb: [\u00fc]\n"),
]


# bare dates and timestamps, matched as leaves (yaml-get only)
DATE_DOC = "a: 2001-12-14\nb: [2001-12-14T21:59:43Z, 2002-01-01]\nc: {a: 2001-12-14 21:59:43.10 -5}\n"
DATE_PATHS = [[("key", "a")], [("key", "b"), ("idx", 0)], [("key", "b"), ("idx", 1)], [("key", "c"), ("key", "a")],
              [("key", "b"), ("all",)], [("trav",)]]


def doc_templates(tier, rng):
    if tier == "quick":
        ts = gen.trees(3, 2)
    else:
        ts = gen.trees(4, 2)
    ts = list(ts) + CRAFTED
    for _ in range(40 if tier == "quick" else 400):
        ts.append(gen.random_tree(rng, max_nodes=9, max_depth=3))
    return ts


# --------------------------------------------------------------------------
# data comparison (type-strict, mapping order ignored)
# --------------------------------------------------------------------------
def canon(x):
    if isinstance(x, gen.SetT):
        return ("set", tuple(sorted(repr(canon(m)) for m in x)))
    if isinstance(x, dict):
        return ("map", tuple(sorted((repr(canon(k)), canon(v)) for k, v in x.items())))
    if isinstance(x, (list, tuple)):
        return ("seq", tuple(canon(v) for v in x))
    if x is None:
        return ("null",)
    if isinstance(x, bool):
        return ("bool", x)
    if isinstance(x, int):
        return ("int", x)
    if isinstance(x, float):
        return ("float", x)
    if isinstance(x, str):
        return ("str", x)
    return ("other", type(x).__name__, str(x))


def json_norm(x):
    """What a plain datum becomes when it has to be written as JSON: keys become
    strings the way json.dumps writes them; a set becomes {member: null} (from-code)."""
    if isinstance(x, gen.SetT):
        return {json_key(m): None for m in x}
    if isinstance(x, dict):
        return {json_key(k): json_norm(v) for k, v in x.items()}
    if isinstance(x, (list, tuple)):
        return [json_norm(v) for v in x]
    return x


def json_key(k):
    if isinstance(k, str):
        return k
    if k is None:
        return "null"
    if isinstance(k, bool):
        return "true" if k else "false"
    return str(k)


def first_diff(a, b):
    """Stable class of the first difference between two plain data."""
    if isinstance(a, bool) != isinstance(b, bool) and isinstance(a, (bool, int)) and isinstance(b, (bool, int)) \
            and not isinstance(a, float) and a == b:
        return "bool-vs-int"
    if type(a) is not type(b):
        return "%s-vs-%s" % (_tn(a), _tn(b))
    if isinstance(a, gen.SetT):
        return "set-members" if canon(a) != canon(b) else None
    if isinstance(a, dict):
        if set(map(repr, a)) != set(map(repr, b)):
            return "map-keys"
        for k in a:
            d = first_diff(a[k], b[k])
            if d:
                return d
        return None
    if isinstance(a, list):
        if len(a) != len(b):
            common = all(first_diff(x, y) is None for x, y in zip(a, b))
            return "seq-length(%s)" % ("common-prefix-equal" if common else "and-elements")
        for x, y in zip(a, b):
            d = first_diff(x, y)
            if d:
                return d
        return None
    return None if a == b else "%s-value" % _tn(a)


def _emptyish(x):
    return x is None or (isinstance(x, (dict, list, tuple)) and len(x) == 0)


def diff_class(a, b):
    """Class of the first difference, coarse enough to follow the Differ's root causes."""
    if _tn(a) != _tn(b):
        if isinstance(a, (bool, int)) and isinstance(b, (bool, int)) and a == b:
            return "bool-vs-int"
        if _emptyish(a) and _emptyish(b):
            return "kind-change-between-empty-or-null-values"
        return "%s-vs-%s" % (_tn(a), _tn(b))
    if isinstance(a, gen.SetT):
        return "set-members"
    if isinstance(a, dict):
        if set(map(repr, a)) != set(map(repr, b)):
            return "map-keys"
        for k in a:
            if canon(a[k]) != canon(b[k]):
                return diff_class(a[k], b[k])
        return "map-order-only"
    if isinstance(a, list):
        if len(a) != len(b):
            if len(b) == 0:
                return "sequence-vs-empty-sequence"
            return "seq-length"
        for x, y in zip(a, b):
            if canon(x) != canon(y):
                return diff_class(x, y)
    return "%s-value" % _tn(a)


def _equal_up_to_number_type(a, b):
    """Type-strict equality, except that an int and a float of equal value count as the same number (never a bool)."""
    num = lambda x: isinstance(x, (int, float)) and not isinstance(x, bool)
    if num(a) and num(b):
        return a == b
    if isinstance(a, gen.SetT) or isinstance(b, gen.SetT):
        return canon(a) == canon(b)
    if isinstance(a, dict) and isinstance(b, dict):
        return set(map(repr, a)) == set(map(repr, b)) and all(_equal_up_to_number_type(a[k], b[k]) for k in a)
    if isinstance(a, list) and isinstance(b, list):
        return len(a) == len(b) and all(_equal_up_to_number_type(x, y) for x, y in zip(a, b))
    return canon(a) == canon(b)


def _tn(x):
    if isinstance(x, gen.SetT):
        return "set"
    if isinstance(x, dict):
        return "map"
    if isinstance(x, list):
        return "seq"
    return "null" if x is None else type(x).__name__


def _load_error_class(text):
    log = gen.QuietLog()
    from yamlpath.common import Parsers
    Parsers.get_yaml_data(Parsers.get_yaml_editor(), log, text, literal=True)
    msg = log.msgs[0][1] if log.msgs else "unknown"
    for needle, cls in (("Duplicate YAML Anchor", "duplicate-anchor"), ("Duplicate Hash key", "duplicate-key"),
                        ("parsing error", "parse-error"), ("syntax error", "syntax-error"),
                        ("composition error", "composition-error"), ("construction error", "construction-error")):
        if needle in msg:
            return cls
    return "other"


def try_load(text):
    """(data, ok) with yamlpath's own round-trip loader, own editor instance."""
    from yamlpath.common import Parsers
    return Parsers.get_yaml_data(Parsers.get_yaml_editor(), gen.QuietLog(), text, literal=True)


def must_load(text):
    data, ok = try_load(text)
    if not ok:
        raise ValueError("generator produced unloadable YAML: %r" % (text,))
    return data


class Ctx:
    """Per-worker scratch directory + collector."""
    def __init__(self, col, wd):
        self.col, self.wd, self.n = col, wd, 0

    def path(self, name):
        return os.path.join(self.wd, name)

    def write(self, name, text):
        p = self.path(name)
        with open(p, "w", encoding="utf-8") as fh:
            fh.write(text)
        return p

    def clean(self):
        for n in os.listdir(self.wd):
            os.remove(os.path.join(self.wd, n))


def _uncaught(ctx, tool, case, res, expected):
    ctx.col.witness("C16/yaml-%s/uncaught-%s" % (tool, res["exc"]),
                    "main() let an exception escape (traceback, status 1) although the library reference answered",
                    case, observed=res["exc"], expected=expected)


# --------------------------------------------------------------------------
# yaml-get
# --------------------------------------------------------------------------
GET_PATHS = [
    [("key", "a")], [("key", "b")], [("key", 1)], [("key", "x.y")], [("key", "zz")],
    [("key", "a"), ("key", "b")], [("key", "a"), ("key", "a")], [("key", "b"), ("key", "a"), ("key", "a")],
    [("key", "a"), ("idx", 0)], [("key", "b"), ("idx", 2)], [("idx", 0)], [("idx", 1)], [("idx", -1)],
    [("idx", 0), ("key", "a")], [("idx", 0), ("idx", 0)], [("slice", 0, 2)], [("key", "b"), ("slice", 1, 3)],
    [("all",)], [("trav",)], [("key", "a"), ("all",)], [("all",), ("key", "a")], [("trav",), ("key", "a")],
    [("search", False, ".", "=", "a")], [("search", False, ".", "=", "1")], [("search", True, ".", "=", "a")],
    [("search", False, "a", "=", "1")], [("search", False, ".", "^", "a")], [("search", False, ".", "=~", "^.$")],
    [("search", False, "b", ">", "0")], [("glob", "a*")], [("glob", "*")],
    [("coll", "", [("key", "a")]), ("coll", "+", [("key", "b")])],
    [("coll", "", [("all",)]), ("coll", "-", [("key", "a")])],
    [("kw", False, "has_child", "a")], [("all",), ("kw", False, "name", "")], [("key", "a"), ("kw", False, "parent", "")],
]


def lib_get(text, query):
    """Reference: ("ok", [values]) | ("nomatch", msg) | ("unloadable",) | ("liberr", cls)."""
    from yamlpath import Processor, YAMLPath
    from yamlpath.exceptions import YAMLPathException
    from yamlpath.wrappers import NodeCoords
    data, ok = try_load(text)
    if not ok:
        return ("unloadable",)
    try:
        proc = Processor(gen.QuietLog(), data)
        vals = [NodeCoords.unwrap_node_coords(nc) for nc in proc.get_nodes(YAMLPath(query), mustexist=True)]
    except YAMLPathException as ex:
        return ("nomatch", str(ex))
    except RecursionError:
        return ("liberr", "RecursionError")
    except Exception as ex:
        return ("liberr", "%s@%s" % (type(ex).__name__, innermost_repo_frame(ex.__traceback__)))
    return ("ok", vals)


def get_line_ok(node, line):
    """Does `line` present `node`?  -> (ok, kind)"""
    from ruamel.yaml.comments import CommentedSet
    if isinstance(node, (dict, list, CommentedSet)):
        try:
            got = json.loads(line)
        except ValueError:
            return False, "container-not-json"
        return canon(got) == canon(json_norm(gen.plain(node))), "container"
    if node is None:
        return line == "\x00", "null"            # from-code: null is printed as NUL
    if isinstance(node, bool) or type(node).__name__ == "ScalarBoolean":
        return line.lower() == ("true" if node else "false"), "bool"   # from-code spelling
    if isinstance(node, str):
        return line == str(node).replace("\n", "\\n"), "str"        # from-code: newline escape
    if type(node).__name__ == "AnchoredDate":
        return line == node.date().isoformat(), "date"      # a bare date is printed as the date it is
    if isinstance(node, datetime.datetime):
        # a timestamp: an ISO 8601 line naming the same instant (ruamel keeps the UTC-normalised naive value)
        try:
            got = datetime.datetime.fromisoformat(line)
        except ValueError:
            return False, "timestamp"
        if got.tzinfo is not None:
            got = got.astimezone(datetime.timezone.utc).replace(tzinfo=None)
        return got == node.replace(tzinfo=None), "timestamp"
    if isinstance(node, float):
        try:
            return float(line) == float(node), "float"
        except ValueError:
            return False, "float"
    return line == str(node), ("int" if isinstance(node, int) else "other-scalar")


def check_get(ctx, case):
    col = ctx.col
    text, segs = case["doc"], case["segs"]
    segs = _unjson_segs(segs)
    q_dot = pathgen.render(segs, ".")
    q_sl = pathgen.render(segs, "/")
    ref = lib_get(text, q_dot)
    if ref[0] == "liberr":
        col.out_of_scope("get/library-raises-" + ref[1])
        col.case()
        return
    fname = ctx.write("doc." + ("json" if case["fmt"] == "json" else "yaml"), text)
    runs = [
        ("file", run_cli("get", ["-p", q_dot, fname])),
        ("dash", run_cli("get", ["-p", q_dot, "-"], text)),
        ("implicit", run_cli("get", ["--query=" + q_dot], text)),
        ("fslash", run_cli("get", ["-p", q_sl, fname])),
        ("fslash-t", run_cli("get", ["-t", "fslash", "-p", q_sl, fname])),
    ]
    base = runs[0][1]
    nlines = base["out"].count("\n")
    col.case(("get", case["shape"], case["fmt"], str([s[0] for s in segs]), ref[0], base["code"], min(nlines, 3)),
             sample={"tool": "get", "doc": text, "query": q_dot, "exit": base["code"], "stdout": base["out"][:80]}
             if ref[0] == "ok" and nlines > 1 else None)
    # --- contract on the file run
    if base["code"] == "EXC":
        _uncaught(ctx, "get", case, base, "library: " + ref[0])
    elif ref[0] == "ok" and ref[1]:
        if base["code"] != 0:
            col.witness("C16/yaml-get/nonzero-exit-although-matched", "library matched nodes, tool exits non-zero",
                        case, observed={"exit": base["code"], "err": base["err"][:200]}, expected="exit 0")
        else:
            lines = base["out"].split("\n")
            if lines and lines[-1] == "":
                lines.pop()
            if len(lines) != len(ref[1]):
                col.witness("C16/yaml-get/line-count", "not one stdout line per matched node", case,
                            observed=lines, expected="%d lines" % len(ref[1]))
            else:
                for node, line in zip(ref[1], lines):
                    ok, kind = get_line_ok(node, line)
                    if not ok:
                        col.witness("C16/yaml-get/line-content-" + kind,
                                    "printed line is not the matched node (in query order)", case,
                                    observed=lines, expected=repr(gen.plain(node) if not isinstance(node, list) else node)[:200])
                        break
    else:  # nothing matched / invalid path / unloadable
        if base["code"] == 0:
            cls = ("nomatch" if ref[0] == "ok" else ref[0]) + ("/null-document" if _is_null_doc(text) else "")
            col.witness("C16/yaml-get/zero-exit-although-" + cls,
                        "nothing matched but the tool exits 0", case,
                        observed={"exit": 0, "out": base["out"][:200]}, expected="exit != 0")
        elif [ln for ln in base["out"].split("\n") if ln and not ln.startswith("Please try --help")]:
            col.witness("C16/yaml-get/result-lines-on-failure", "result lines printed although nothing matched", case,
                        observed=base["out"][:200], expected="no result lines")
    # --- same outcome for every delivery / notation
    for name, r in runs[1:]:
        if (r["code"], r["out"]) != (base["code"], base["out"]):
            col.witness("C16/yaml-get/%s-differs-from-file-dot" % name,
                        "delivery/notation changes the outcome", case,
                        observed={"variant": name, "exit": r["code"], "out": r["out"][:200], "exc": r["exc"]},
                        expected={"exit": base["code"], "out": base["out"][:200]})
    ctx.clean()


def _is_null_doc(text):
    data, ok = try_load(text)
    return ok and data is None


def _unjson_segs(segs):
    def fix(s):
        s = list(s)
        if s[0] == "coll":
            return ("coll", s[1], [fix(x) for x in s[2]])
        return tuple(s)
    return [fix(s) for s in segs]


# --------------------------------------------------------------------------
# yaml-set
# --------------------------------------------------------------------------
SET_PATHS = [
    [("key", "a")], [("key", "b")], [("key", "zz")], [("key", "a"), ("key", "b")], [("key", "a"), ("key", "zz")],
    [("key", "a"), ("idx", 0)], [("idx", 0)], [("idx", 1)], [("idx", -1)], [("idx", 5)], [("all",)],
    [("key", "a"), ("all",)], [("search", False, ".", "=", "a")], [("key", "x.y")], [("idx", 0), ("key", "a")],
]
SET_OPS = [
    {"kind": "value", "value": "z", "mustexist": False},
    {"kind": "value", "value": "7", "mustexist": False},
    {"kind": "value", "value": "z", "mustexist": True},
    {"kind": "value", "value": "", "mustexist": False},          # --value= : the empty string is a value
    {"kind": "null", "mustexist": False},
    {"kind": "delete"},
]


def lib_set(text, query, op):
    """Reference: ("ok", plain) | ("refused", msg) | ("oos", why) | ("liberr", cls)."""
    from yamlpath import Processor, YAMLPath
    from yamlpath.enums import YAMLValueFormats
    from yamlpath.exceptions import YAMLPathException
    data, ok = try_load(text)
    if not ok:
        return ("refused", "unloadable")
    if data is None:
        return ("oos", "null-document")     # the tool builds a new document here (from-code)
    proc = Processor(gen.QuietLog(), data)
    try:
        if op["kind"] == "delete":
            # --delete "implies --mustexist": an unmatched path is a refusal
            deleted = list(proc.delete_nodes(YAMLPath(query)))
            if not deleted:
                return ("refused", "delete matched nothing")
        else:
            value = None if op["kind"] == "null" else op["value"]
            proc.set_value(YAMLPath(query), value, value_format=YAMLValueFormats.DEFAULT,
                           mustexist=bool(op.get("mustexist")))
    except YAMLPathException as ex:
        return ("refused", str(ex))
    except RecursionError:
        return ("liberr", "RecursionError")
    except Exception as ex:
        return ("liberr", "%s@%s" % (type(ex).__name__, innermost_repo_frame(ex.__traceback__)))
    return ("ok", gen.plain(proc.data))


def set_argv(query, op):
    argv = ["-g", query]
    if op["kind"] == "delete":
        argv.append("--delete")
    elif op["kind"] == "null":
        argv.append("--null")
    else:
        argv += ["--value=" + op["value"]]
    if op.get("mustexist"):
        argv.append("--mustexist")
    return argv


def _judge_set_result(ctx, case, where, text_after, expected, wrote_json_hint):
    """Compare the written text with the library result; returns the plain reloaded datum (or a marker)."""
    col = ctx.col
    data, ok = try_load(text_after)
    if not ok:
        col.witness("C16/yaml-set/output-does-not-reload/" + _load_error_class(text_after),
                    "the document left behind does not load", case,
                    observed={"where": where, "text": text_after[:200]}, expected=repr(expected)[:200])
        return "UNLOADABLE"
    got = gen.plain(data)
    if canon(got) != canon(expected):
        if canon(got) == canon(json_norm(expected)):
            # flow-style YAML input is written back as JSON: non-string keys / sets do not survive
            col.witness("C16/yaml-set/flow-yaml-rewritten-as-json-alters-non-json-data",
                        "a flow-style YAML document is written back as JSON; data that JSON cannot hold "
                        "(non-string keys, sets) is altered",
                        case, observed={"where": where, "text": text_after[:200]}, expected=repr(expected)[:200])
        else:
            col.witness("C16/yaml-set/result-differs-from-library-result/%s(%s)" % (case["op"]["kind"], first_diff(got, expected)),
                        "the document left behind is not what the library change produces", case,
                        observed={"where": where, "text": text_after[:200]}, expected=repr(expected)[:200])
    return got


def check_set(ctx, case):
    col = ctx.col
    text, op = case["doc"], case["op"]
    segs = _unjson_segs(case["segs"])
    q = pathgen.render(segs, case.get("sep", "."))
    ref = lib_set(text, q, op)
    if ref[0] in ("liberr", "oos"):
        col.out_of_scope("set/" + ("library-raises-" if ref[0] == "liberr" else "") + ref[1])
        col.case()
        return
    fname = ctx.write("doc." + ("json" if case["fmt"] == "json" else "yaml"), text)
    argv = set_argv(q, op)
    rf = run_cli("set", argv + [fname])
    with open(fname, encoding="utf-8") as fh:
        after = fh.read()
    rs = run_cli("set", argv + ["-"], text)
    col.case(("set", case["shape"], case["fmt"], op["kind"], bool(op.get("mustexist")), str([s[0] for s in segs]),
              ref[0], rf["code"]),
             sample={"tool": "set", "doc": text, "argv": argv, "exit": rf["code"], "file_after": after[:80]}
             if ref[0] == "ok" and after != text else None)
    for where, r in (("file", rf), ("stdin", rs)):
        if r["code"] == "EXC":
            _uncaught(ctx, "set", case, r, "library: " + ref[0])
    if ref[0] == "ok":
        results = {}
        for where, r, produced in (("file", rf, after), ("stdin", rs, rs["out"])):
            if r["code"] == "EXC":
                continue
            if r["code"] != 0:
                col.witness("C16/yaml-set/nonzero-exit-although-library-succeeds/%s" % op["kind"],
                            "the library applies the change, the tool refuses", case,
                            observed={"where": where, "exit": r["code"], "err": r["err"][:200]}, expected="exit 0")
                continue
            results[where] = _judge_set_result(ctx, case, where, produced, ref[1], case["fmt"] != "block")
        if len(results) == 2 and canon(results["file"]) != canon(results["stdin"]):
            col.witness("C16/yaml-set/stdin-differs-from-file", "delivery changes the resulting document", case,
                        observed=repr(results["stdin"])[:200], expected=repr(results["file"])[:200])
    else:
        for where, r in (("file", rf), ("stdin", rs)):
            if r["code"] == 0:
                col.witness("C16/yaml-set/zero-exit-although-library-refuses/%s" % op["kind"],
                            "the library refuses the change (%s), the tool reports success" % ref[1][:60], case,
                            observed={"where": where, "exit": 0, "after": (after if where == "file" else r["out"])[:200]},
                            expected="exit != 0")
    ctx.clean()


# --------------------------------------------------------------------------
# yaml-merge
# --------------------------------------------------------------------------
MERGE_OPTS = [
    {}, {"arrays": "left"}, {"arrays": "right"}, {"arrays": "unique"}, {"hashes": "left"}, {"hashes": "right"},
    {"format": "json"}, {"format": "yaml"}, {"dest": "output", "ext": ".yaml"}, {"dest": "output", "ext": ".json"},
    {"dest": "output", "ext": ".out"}, {"dest": "overwrite", "ext": ".yaml", "format": "json"},
]


def lib_merge(ltext, rtext, opts):
    from yamlpath.merger import Merger, MergerConfig
    from yamlpath.merger.exceptions import MergeException
    from yamlpath.exceptions import YAMLPathException
    ldata, lok = try_load(ltext)
    rdata, rok = try_load(rtext)
    if not (lok and rok):
        return ("refused", "unloadable")
    log = gen.QuietLog()
    ns = Namespace(config=None, anchors=None, arrays=opts.get("arrays"), sets=None, hashes=opts.get("hashes"),
                   aoh=None, mergeat="/", document_format="auto", multi_doc_mode="condense_all",
                   preserve_lhs_comments=False)
    try:
        merger = Merger(log, ldata, MergerConfig(log, ns))
        merger.merge_with(rdata)
        return ("ok", gen.plain(merger.data))
    except (MergeException, YAMLPathException) as ex:
        return ("refused", str(ex))
    except SystemExit:
        return ("refused", "critical")
    except RecursionError:
        return ("liberr", "RecursionError")
    except Exception as ex:
        return ("liberr", "%s@%s" % (type(ex).__name__, innermost_repo_frame(ex.__traceback__)))


def _root_is_flow(text):
    return text.lstrip()[:1] in ("{", "[")


def wanted_format(opts, ltext):
    """--help of -D: forced, else known extension of OUTPUT|OVERWRITE, else the type of the first document."""
    if opts.get("format") in ("json", "yaml"):
        return opts["format"]
    if opts.get("dest") in ("output", "overwrite"):
        if opts["ext"] == ".json":
            return "json"
        if opts["ext"] in (".yaml", ".yml"):
            return "yaml"
    t = ltext.strip()
    if t[:1] in ("{", "["):
        # a non-empty container that is strict JSON is "a JSON document"; `{}` / `[]` / flow YAML
        # are not decided by the docs (from-code: flow root => JSON)
        try:
            return "json" if len(json.loads(t)) > 0 else None
        except ValueError:
            return None
    if t[:2] == "!!" or not (":" in t or t.startswith("-")):
        return None            # scalar / tagged root: the docs do not say what "type" it has
    return "yaml"


def merge_argv(opts):
    argv = []
    if opts.get("arrays"):
        argv += ["-A", opts["arrays"]]
    if opts.get("hashes"):
        argv += ["--hashes=" + opts["hashes"]]
    if opts.get("format"):
        argv += ["-D", opts["format"]]
    return argv


def check_merge(ctx, case):
    col = ctx.col
    ltext, rtext, opts = case["lhs"], case["rhs"], case["opts"]
    ref = lib_merge(ltext, rtext, opts)
    if ref[0] == "liberr":
        col.out_of_scope("merge/library-raises-" + ref[1])
        col.case()
        return
    lf = ctx.write("lhs.yaml", ltext)
    rf = ctx.write("rhs.yaml", rtext)
    argv = merge_argv(opts)
    dest = opts.get("dest", "stdout")
    target = None
    pre = None
    if dest == "output":
        target = ctx.path("merged" + opts["ext"])
        argv += ["-o", target]
    elif dest == "overwrite":
        target = ctx.write("merged" + opts["ext"], "old: content\n")
        pre = "old: content\n"
        argv += ["--overwrite=" + target]
    deliveries = [("files", argv + [lf, rf], None)]
    if dest == "stdout":
        deliveries += [("lhs-dash", argv + ["-", rf], ltext), ("rhs-dash", argv + [lf, "-"], rtext)]
    want = wanted_format(opts, ltext)
    outs = {}
    for name, av, sin in deliveries:
        r = run_cli("merge", av, sin)
        produced = r["out"]
        if target is not None:
            produced = None
            if os.path.exists(target):
                with open(target, encoding="utf-8") as fh:
                    produced = fh.read()
        outs[name] = (r, produced)
    r0, produced0 = outs["files"]
    col.case(("merge", case["shape"], json.dumps(opts, sort_keys=True), ref[0], r0["code"], want),
             sample={"tool": "merge", "lhs": ltext, "rhs": rtext, "argv": argv, "exit": r0["code"],
                     "produced": (produced0 or "")[:80]} if ref[0] == "ok" and opts else None)
    for name, (r, produced) in outs.items():
        if r["code"] == "EXC":
            _uncaught(ctx, "merge", case, r, "library: " + ref[0])
            continue
        if ref[0] == "refused":
            if r["code"] == 0:
                col.witness("C16/yaml-merge/zero-exit-although-library-refuses", "library raises, tool reports success",
                            case, observed={"delivery": name, "out": (produced or "")[:200]}, expected="exit != 0: " + ref[1][:80])
            continue
        if r["code"] != 0:
            col.witness("C16/yaml-merge/nonzero-exit-although-library-merges", "library merges, tool refuses", case,
                        observed={"delivery": name, "exit": r["code"], "err": r["err"][:200]}, expected="exit 0")
            continue
        if produced is None:
            col.witness("C16/yaml-merge/no-output-file", "exit 0 but the requested file was not written", case,
                        observed=None, expected=target)
            continue
        if dest == "overwrite" and produced == pre:
            col.witness("C16/yaml-merge/overwrite-file-not-replaced", "exit 0 but --overwrite target keeps its old content",
                        case, observed=produced[:100], expected="merged document")
            continue
        # format + content
        is_json = True
        try:
            jdata = json.loads(produced)
        except ValueError:
            is_json = False
        expected = ref[1]
        if want == "json":
            if not is_json:
                col.witness("C16/yaml-merge/json-requested-output-not-json/%s" % _want_src(opts),
                            "requested JSON, output does not parse as JSON", case, observed=produced[:200], expected="JSON")
                continue
            if canon(jdata) != canon(json_norm(expected)):
                col.witness("C16/yaml-merge/json-output-differs-from-library-merge(%s)" % first_diff(jdata, json_norm(expected)),
                            "output is not the library merge", case, observed=produced[:200], expected=repr(json_norm(expected))[:200])
            continue
        data, ok = try_load(produced)
        if not ok:
            col.witness("C16/yaml-merge/output-does-not-load", "output does not load", case, observed=produced[:200],
                        expected=repr(expected)[:200])
            continue
        got = gen.plain(data)
        if want == "yaml" and is_json and isinstance(jdata, (dict, list)) and len(jdata) > 0:
            col.witness("C16/yaml-merge/yaml-requested-output-is-json/%s" % _want_src(opts),
                        "requested YAML, output is a JSON document", case, observed=produced[:200], expected="block YAML")
        ok_data = canon(got) == canon(expected) or (is_json and want is None and canon(got) == canon(json_norm(expected)))
        if not ok_data:
            col.witness("C16/yaml-merge/output-differs-from-library-merge(%s)" % first_diff(got, expected),
                        "output is not the library merge", case, observed=produced[:200], expected=repr(expected)[:200])
    # deliveries agree
    for name, (r, produced) in outs.items():
        if name != "files" and (r["code"], produced) != (r0["code"], produced0):
            col.witness("C16/yaml-merge/%s-differs-from-files" % name, "stdin delivery changes the outcome", case,
                        observed={"exit": r["code"], "out": (produced or "")[:200]},
                        expected={"exit": r0["code"], "out": (produced0 or "")[:200]})
    ctx.clean()


def _want_src(opts):
    if opts.get("format"):
        return "forced"
    if opts.get("dest") in ("output", "overwrite") and opts.get("ext") in (".json", ".yaml", ".yml"):
        return "by-extension"
    return "by-first-document"


# --------------------------------------------------------------------------
# yaml-diff
# --------------------------------------------------------------------------
def lib_diff(ltext, rtext):
    from yamlpath.differ import Differ, DifferConfig
    from yamlpath.differ.enums import DiffActions
    ldata, lok = try_load(ltext)
    rdata, rok = try_load(rtext)
    if not (lok and rok):
        return ("unloadable",)
    log = gen.QuietLog()
    try:
        differ = Differ(DifferConfig(log, Namespace(config=None, arrays=None, aoh=None)), log, ldata,
                        ignore_eyaml_values=True)
        differ.compare_to(rdata)
        entries = [e for e in differ.get_report() if e.action is not DiffActions.SAME]
        return ("ok", [str(e) for e in entries], [getattr(e.action, "name", str(e.action)) for e in entries], gen.plain(ldata), gen.plain(rdata))
    except RecursionError:
        return ("liberr", "RecursionError")
    except Exception as ex:
        return ("liberr", "%s@%s" % (type(ex).__name__, innermost_repo_frame(ex.__traceback__)))


def _nonempty_lines(text):
    return [ln for ln in text.split("\n") if ln.strip() != ""]


def check_diff(ctx, case):
    col = ctx.col
    ltext, rtext = case["lhs"], case["rhs"]
    ref = lib_diff(ltext, rtext)
    lf = ctx.write("lhs.yaml", ltext)
    rf = ctx.write("rhs.yaml", rtext)
    runs = [("files", run_cli("diff", [lf, rf])),
            ("lhs-dash", run_cli("diff", ["-", rf], ltext)),
            ("rhs-dash", run_cli("diff", [lf, "-"], rtext))]
    base = runs[0][1]
    if ref[0] == "liberr":
        col.out_of_scope("diff/library-raises-" + ref[1])
        col.case()
        ctx.clean()
        return
    if ref[0] == "unloadable":
        col.case(("diff", "unloadable", base["code"]))
        for name, r in runs:
            if r["code"] == 0:
                col.witness("C16/yaml-diff/zero-exit-on-unloadable-input", "an input does not load, exit 0", case,
                            observed={"delivery": name}, expected="exit != 0")
        ctx.clean()
        return
    _, ref_lines, actions, lplain, rplain = ref
    equal = canon(lplain) == canon(rplain)
    col.case(("diff", case["shape"], equal, tuple(sorted(set(actions))), base["code"]),
             sample={"tool": "diff", "lhs": ltext, "rhs": rtext, "exit": base["code"], "stdout": base["out"][:80]}
             if not equal and len(actions) > 1 else None)
    if base["code"] == "EXC":
        _uncaught(ctx, "diff", case, base, "library report with %d entries" % len(ref_lines))
    else:
        # delivery of the library's report
        if (base["code"] != 0) != bool(ref_lines) or base["code"] not in (0, 1):
            col.witness("C16/yaml-diff/exit-disagrees-with-differ-report", "exit status is not 'report has differences'",
                        case, observed=base["code"], expected=1 if ref_lines else 0)
        want_lines = _nonempty_lines("\n".join(ref_lines))
        if _nonempty_lines(base["out"]) != want_lines:
            col.witness("C16/yaml-diff/printed-report-differs-from-differ-entries", "stdout is not the Differ's entries",
                        case, observed=base["out"][:300], expected=want_lines[:20])
        # the statement: exit 0 <=> data-equal.  Only when the delivery above is faithful -- otherwise the
        # delivery witness already names the root cause.
        faithful = (base["code"] != 0) == bool(ref_lines)
        if faithful and equal and base["code"] != 0:
            col.witness("C16/yaml-diff/data-equal-but-exit-nonzero/differ-reports-%s" % "+".join(sorted(set(actions)) or ["nothing"]),
                        "two data-equal documents, exit != 0 (inherited from the Differ's report)", case,
                        observed={"exit": base["code"], "out": base["out"][:200]}, expected="exit 0")
        if faithful and not equal and base["code"] == 0 and _equal_up_to_number_type(lplain, rplain):
            # 0 against 0.0: equal numbers of different YAML types -- "data-equal" in the statement does not say; the
            # Differ compares numbers by value (from-code)
            col.out_of_scope("yaml-diff/equal-numbers-of-different-type-compare-equal(from-code)")
        elif faithful and not equal and base["code"] == 0:
            col.witness("C16/yaml-diff/data-differ-but-exit-zero/%s" % diff_class(lplain, rplain),
                        "two different documents, exit 0 and no report (inherited from the Differ's report)", case,
                        observed={"exit": 0, "out": base["out"][:200]}, expected="exit 1 and entries")
    # --quiet suppresses the report, not the verdict
    rq = run_cli("diff", ["-q", lf, rf])
    if base["code"] != "EXC" and (rq["code"] != base["code"] or rq["out"].strip() != ""):
        col.witness("C16/yaml-diff/quiet-changes-the-exit-status-or-prints", "--quiet must only silence the report", case,
                    observed={"exit": rq["code"], "out": rq["out"][:200], "exc": rq["exc"]},
                    expected={"exit": base["code"], "out": ""})
    for name, r in runs[1:]:
        if (r["code"], r["out"]) != (base["code"], base["out"]):
            col.witness("C16/yaml-diff/%s-differs-from-files" % name, "stdin delivery changes the outcome", case,
                        observed={"exit": r["code"], "out": r["out"][:200], "exc": r["exc"]},
                        expected={"exit": base["code"], "out": base["out"][:200]})
    ctx.clean()


# --------------------------------------------------------------------------
# yaml-validate
# --------------------------------------------------------------------------
VALID_DOCS = ["a: 1\nb: [1, 2]\n", "[1, {a: null}]\n", '{"a": [1, "x"]}', "plain scalar\n", "- a\n- b:\n    c: 1\n"]
INVALID_DOCS = ["{a: 1\n", "a: [1, 2\n", "a: b: c\n", "a: 1\na: 2\n", "a: \"unterminated\n", "- a\nb: 1\n", "a: *undefined\n"]
# file kinds: name -> list of documents (None = the file does not exist)
VALIDATE_FILES = {
    "v1": [VALID_DOCS[0]], "v2": [VALID_DOCS[1], VALID_DOCS[0]], "vj": [VALID_DOCS[2]], "vs": [VALID_DOCS[3]],
    "empty": [],
    "i0": [INVALID_DOCS[0]], "i1": [INVALID_DOCS[2]], "idup": [INVALID_DOCS[3]], "iq": [INVALID_DOCS[4]],
    "ialias": [INVALID_DOCS[6]], "iseq": [INVALID_DOCS[5]],
    "vi": [VALID_DOCS[0], INVALID_DOCS[1]], "iv": [INVALID_DOCS[0], VALID_DOCS[0]], "vvi": [VALID_DOCS[4], VALID_DOCS[1], INVALID_DOCS[3]],
    "missing": None,
}


def stream_text(docs):
    return "".join(("---\n" if i or len(docs) > 1 else "") + d + ("" if d.endswith("\n") else "\n") for i, d in enumerate(docs))


def _sanity_validity():
    """The constructed validity is cross-checked once with ruamel's plain safe loader."""
    from ruamel.yaml import YAML
    import warnings
    for name, docs in VALIDATE_FILES.items():
        if docs is None:
            continue
        want = all(d in VALID_DOCS for d in docs)
        try:
            with warnings.catch_warnings():
                warnings.simplefilter("error")
                list(YAML(typ="safe", pure=True).load_all(stream_text(docs)))
            got = True
        except Exception:
            got = False
        if got != want:
            raise AssertionError("validity of %s mis-constructed: safe loader says %s" % (name, got))


def check_validate(ctx, case):
    col = ctx.col
    kinds = case["files"]
    dash = case.get("dash")      # index delivered as "-", or None
    argv, all_valid, sin = [], True, None
    for i, k in enumerate(kinds):
        docs = VALIDATE_FILES[k]
        if docs is None:
            all_valid = False
            argv.append(ctx.path("missing%d.yaml" % i))
            continue
        if not all(d in VALID_DOCS for d in docs):
            all_valid = False
        text = stream_text(docs)
        if dash == i:
            argv.append("-")
            sin = text
        else:
            argv.append(ctx.write("f%d.yaml" % i, text))
    if case.get("quiet"):
        argv.insert(0, "-q")
    r = run_cli("validate", argv, sin)
    col.case(("validate", tuple(kinds), dash, r["code"]),
             sample={"tool": "validate", "files": kinds, "dash": dash, "exit": r["code"], "stdout": r["out"][:100]}
             if len(kinds) == 2 and not all_valid else None)
    if r["code"] == "EXC":
        _uncaught(ctx, "validate", case, r, "exit %s" % (0 if all_valid else 2))
    elif all_valid and r["code"] != 0:
        col.witness("C16/yaml-validate/nonzero-exit-although-all-load", "every document loads, exit != 0", case,
                    observed={"exit": r["code"], "out": r["out"][:200]}, expected=0)
    elif not all_valid and r["code"] == 0:
        cls = "missing-file" if any(VALIDATE_FILES[k] is None for k in kinds) and all(
            VALIDATE_FILES[k] is None or all(d in VALID_DOCS for d in VALIDATE_FILES[k]) for k in kinds) else "invalid-document"
        col.witness("C16/yaml-validate/zero-exit-although-%s" % cls, "some document does not load, exit 0", case,
                    observed={"exit": 0, "out": r["out"][:200]}, expected=2)
    elif not all_valid and r["code"] != 2:
        col.witness("C16/yaml-validate/failure-exit-is-not-2", "README: exit-state 2 on validation failure", case,
                    observed=r["code"], expected=2)
    ctx.clean()


# --------------------------------------------------------------------------
# yaml-paths
# --------------------------------------------------------------------------
PATHS_EXPR = ["=a", "=1", "^a", "$a", "%a", "!=a", "=~/^[ab]$/", ">0", "=b", "=x.y", "=zz"]
PATHS_OPTS = [[], ["-F"], ["-F", "-k"], ["-F", "-K"], ["-F", "-t", "fslash"], ["-F", "--pathsep=fslash", "--keynames"],
              ["-F", "-c", "=1"], ["-F", "-m", "-K"]]


def lib_paths(text, expr, opts):
    from yamlpath.commands import yaml_paths
    from yamlpath.path import SearchTerms
    from yamlpath.enums import PathSearchMethods, PathSeparators
    from yamlpath.eyaml import EYAMLProcessor
    data, ok = try_load(text)
    if not ok:
        return ("unloadable",)
    log = gen.QuietLog()

    def terms(e):
        inv = e.startswith("!")
        e = e[1:] if inv else e
        for sym, meth in (("=~", PathSearchMethods.REGEX), (">=", PathSearchMethods.GREATER_THAN_OR_EQUAL),
                          ("<=", PathSearchMethods.LESS_THAN_OR_EQUAL), ("=", PathSearchMethods.EQUALS),
                          ("^", PathSearchMethods.STARTS_WITH), ("$", PathSearchMethods.ENDS_WITH),
                          ("%", PathSearchMethods.CONTAINS), (">", PathSearchMethods.GREATER_THAN),
                          ("<", PathSearchMethods.LESS_THAN)):
            if e.startswith(sym):
                t = e[len(sym):]
                if meth is PathSearchMethods.REGEX:
                    t = t[1:-1]
                return SearchTerms(inv, meth, "*", t)
        raise ValueError(e)

    sep = PathSeparators.FSLASH if ("fslash" in opts or "--pathsep=fslash" in opts) else PathSeparators.DOT
    kw = dict(search_values="-K" not in opts, search_keys=("-k" in opts or "-K" in opts or "--keynames" in opts),
              search_anchors=False, include_key_aliases=True, include_value_aliases=False, decrypt_eyaml=False,
              expand_children="-m" in opts)

    def search(e):
        from yamlpath.common import Anchors
        anchors = {}
        Anchors.scan_for_anchors(data, anchors)
        return [str(p) for p in yaml_paths.search_for_paths(log, EYAMLProcessor(log, data), data, terms(e), sep,
                                                             all_anchors=anchors, **kw)]
    try:
        res = list(dict.fromkeys(search(expr)))
        if "-c" in opts:
            drop = set(search(opts[opts.index("-c") + 1]))
            res = [p for p in res if p not in drop]
    except RecursionError:
        return ("liberr", "RecursionError")
    except Exception as ex:
        return ("liberr", "%s@%s" % (type(ex).__name__, innermost_repo_frame(ex.__traceback__)))
    return ("ok", res)


def check_paths(ctx, case):
    col = ctx.col
    text, expr, opts = case["doc"], case["expr"], case["opts"]
    ref = lib_paths(text, expr, opts)
    if ref[0] == "liberr":
        col.out_of_scope("paths/library-raises-" + ref[1])
        col.case()
        return
    fname = ctx.write("doc.yaml", text)
    runs = [("file", run_cli("paths", opts + ["-s", expr, fname]), fname),
            ("dash", run_cli("paths", opts + ["--search=" + expr, "-"], text), "STDIN"),
            ("implicit", run_cli("paths", opts + ["-s", expr], text), "STDIN")]
    base = runs[0][1]
    col.case(("paths", case["shape"], expr[:2], tuple(opts), ref[0], base["code"], min(len(ref[1]) if ref[0] == "ok" else 0, 3)),
             sample={"tool": "paths", "doc": text, "argv": opts + ["-s", expr], "stdout": base["out"][:80]}
             if ref[0] == "ok" and len(ref[1]) > 1 else None)
    def result_lines(r, label):
        lines = r["out"].split("\n")
        if lines and lines[-1] == "":
            lines.pop()
        if "-F" not in opts:
            prefix = "%s/0: " % label           # from-code decorator: <file>/<document index>:
            lines = [ln[len(prefix):] if ln.startswith(prefix) else ln for ln in lines]
        return lines

    name, r, label = runs[0]
    base_lines = result_lines(r, label)
    if r["code"] == "EXC":
        _uncaught(ctx, "paths", case, r, "library: " + ref[0])
    elif ref[0] == "unloadable":
        if r["code"] == 0:
            col.witness("C16/yaml-paths/zero-exit-on-unloadable-input", "input does not load, exit 0", case,
                        observed={"delivery": name}, expected="exit != 0")
    elif r["code"] != 0:
        col.witness("C16/yaml-paths/nonzero-exit-on-valid-search", "valid document and expression, exit != 0", case,
                    observed={"exit": r["code"], "err": r["err"][:200]}, expected=0)
    elif base_lines != ref[1]:
        col.witness("C16/yaml-paths/printed-paths-differ-from-search-results",
                    "stdout is not exactly the search results", case, observed=base_lines[:20], expected=ref[1][:20])
    for name, r2, label in runs[1:]:
        if (r2["code"], result_lines(r2, label)) != (r["code"], base_lines):
            col.witness("C16/yaml-paths/%s-differs-from-file" % name, "stdin delivery changes the outcome", case,
                        observed={"exit": r2["code"], "lines": result_lines(r2, label)[:20], "exc": r2["exc"]},
                        expected={"exit": r["code"], "lines": base_lines[:20]})
    ctx.clean()


# --------------------------------------------------------------------------
# documented argument errors  =>  exit != 0 (and nothing delivered)
# --------------------------------------------------------------------------
def arg_cases():
    return [
        {"tool": "get", "argv": ["-p", "a"], "stdin": None, "why": "no file, TTY stdin"},
        {"tool": "get", "argv": ["-p", "a", "-S"], "stdin": "a: 1\n", "why": "--nostdin and no file"},
        {"tool": "get", "argv": ["-p", "a", "-r", "@D/nokey", "@F"], "stdin": None, "why": "unreadable private key"},
        {"tool": "get", "argv": ["-p", "a", "-u", "@F", "@F"], "stdin": None, "why": "public key without private key"},
        {"tool": "get", "argv": ["@F"], "stdin": None, "why": "missing required --query"},
        {"tool": "get", "argv": ["-p", "a", "@D/missing.yaml"], "stdin": None, "why": "missing file"},
        {"tool": "set", "argv": ["-g", "a", "@F"], "stdin": None, "why": "no input option"},
        {"tool": "set", "argv": ["-g", "a", "-a", "1"], "stdin": None, "why": "no file, TTY stdin"},
        {"tool": "set", "argv": ["-g", "a", "-i", "-"], "stdin": "a: 1\n", "why": "document and value both from stdin"},
        {"tool": "set", "argv": ["-g", "a", "-a", "1", "-b", "-"], "stdin": "a: 1\n", "why": "--backup with stdin"},
        {"tool": "set", "argv": ["-g", "a", "-a", "1", "-s", "a", "@F"], "stdin": None, "why": "--saveto equals --change"},
        {"tool": "set", "argv": ["-g", "a", "-a", "1", "-H", "x", "@F"], "stdin": None, "why": "--anchor without --aliasof"},
        {"tool": "set", "argv": ["-g", "a", "-R", "4", "-M", "x", "@F"], "stdin": None, "why": "--random-from too short"},
        {"tool": "set", "argv": ["-g", "a", "-a", "1", "-N", "@F"], "stdin": None, "why": "mutually exclusive inputs"},
        {"tool": "merge", "argv": [], "stdin": None, "why": "no file, TTY stdin"},
        {"tool": "merge", "argv": ["-", "-"], "stdin": "a: 1\n", "why": "two - pseudo-files"},
        {"tool": "merge", "argv": ["-c", "@D/noconfig.ini", "@F"], "stdin": None, "why": "unreadable config"},
        {"tool": "merge", "argv": ["-o", "@F", "@F"], "stdin": None, "why": "existing --output"},
        {"tool": "merge", "argv": ["-b", "@F"], "stdin": None, "why": "--backup without --overwrite"},
        {"tool": "merge", "argv": ["-o", "@D/x.yaml", "-w", "@D/y.yaml", "@F"], "stdin": None, "why": "--output with --overwrite"},
        {"tool": "merge", "argv": ["-A", "bogus", "@F"], "stdin": None, "why": "bad choice"},
        {"tool": "diff", "argv": ["-", "-"], "stdin": "a: 1\n", "why": "two - pseudo-files"},
        {"tool": "diff", "argv": ["@F"], "stdin": None, "why": "one file only"},
        {"tool": "diff", "argv": ["-q", "-s", "@F", "@F"], "stdin": None, "why": "--quiet with --same"},
        {"tool": "diff", "argv": ["-c", "@D/noconfig.ini", "@F", "@F"], "stdin": None, "why": "unreadable config"},
        {"tool": "diff", "argv": ["@F", "@D/missing.yaml"], "stdin": None, "why": "missing file"},
        {"tool": "diff", "argv": ["@M", "@F"], "stdin": None, "why": "multi-document source without index"},
        {"tool": "diff", "argv": ["-L", "5", "@M", "@F"], "stdin": None, "why": "document index too high"},
        {"tool": "diff", "argv": ["-L", "-5", "@M", "@F"], "stdin": None, "why": "document index before the first document"},
        {"tool": "diff", "argv": ["-R", "-3", "@F", "@M"], "stdin": None, "why": "document index before the first document"},
        {"tool": "validate", "argv": [], "stdin": None, "why": "no file, TTY stdin"},
        {"tool": "validate", "argv": ["-S"], "stdin": "a: 1\n", "why": "--nostdin and no file"},
        {"tool": "validate", "argv": ["-", "-"], "stdin": "a: 1\n", "why": "two - pseudo-files"},
        {"tool": "paths", "argv": ["-s", "=a"], "stdin": None, "why": "no file, TTY stdin"},
        {"tool": "paths", "argv": ["-s", "=a", "-", "-"], "stdin": "a: 1\n", "why": "two - pseudo-files"},
        {"tool": "paths", "argv": ["@F"], "stdin": None, "why": "missing required --search"},
        {"tool": "paths", "argv": ["-s", "a", "@F"], "stdin": None, "why": "expression without operator"},
        {"tool": "paths", "argv": ["-s", "=", "@F"], "stdin": None, "why": "expression with operator only"},
        {"tool": "paths", "argv": ["-s", "=a", "-r", "@D/nokey", "-u", "@D/nokey", "@F"], "stdin": None, "why": "unreadable keys"},
    ]


def check_args(ctx, case):
    col = ctx.col
    f = ctx.write("ok.yaml", "a: 1\nb: [1]\n")
    m = ctx.write("multi.yaml", "---\na: 1\n---\na: 2\n")
    before = sorted(os.listdir(ctx.wd))
    argv = [a.replace("@F", f).replace("@M", m).replace("@D", ctx.wd) for a in case["argv"]]
    saved_err = sys.stderr
    r = run_cli(case["tool"], argv, case["stdin"])
    assert sys.stderr is saved_err
    col.case(("args", case["tool"], case["why"], r["code"]))
    if r["code"] == "EXC":
        _uncaught(ctx, case["tool"], case, r, "exit != 0 with a message")
    elif r["code"] == 0:
        col.witness("C16/yaml-%s/bad-arguments-exit-zero/%s" % (case["tool"], case["why"].replace(" ", "-")),
                    "a documented argument error ends with exit 0", case, observed={"out": r["out"][:200]}, expected="exit != 0")
    if sorted(os.listdir(ctx.wd)) != before:
        col.witness("C16/yaml-%s/bad-arguments-created-files" % case["tool"], "argument error but files appeared", case,
                    observed=sorted(os.listdir(ctx.wd)), expected=before)
    ctx.clean()


CHECKS = {"get": check_get, "set": check_set, "merge": check_merge, "diff": check_diff, "validate": check_validate,
          "paths": check_paths, "args": check_args}


# --------------------------------------------------------------------------
# case enumeration
# --------------------------------------------------------------------------
def build_cases(tier, seed):
    rng = random.Random(seed)
    temps = doc_templates(tier, rng)
    quick = tier == "quick"
    cases = []
    # --- get: every doc (block; flow+json for a third) x every path
    for i, t in enumerate(temps):
        rs = renderings(t) if i % 3 == 0 else renderings(t, ("block",))
        for fmt, text in rs:
            for j, segs in enumerate(GET_PATHS):
                if quick and (i + j) % 2:
                    continue
                cases.append({"tool": "get", "doc": text, "fmt": fmt, "shape": shape(t), "segs": segs})
    for name, text in RAW_DOCS:
        for segs in GET_PATHS:
            cases.append({"tool": "get", "doc": text, "fmt": "block", "shape": "raw-" + name, "segs": segs})
    for segs in DATE_PATHS:
        cases.append({"tool": "get", "doc": DATE_DOC, "fmt": "block", "shape": "raw-dates", "segs": segs})
    for bad in INVALID_DOCS[:4]:
        cases.append({"tool": "get", "doc": bad, "fmt": "block", "shape": "invalid", "segs": [("key", "a")]})
    # --- set: container-rooted docs x paths x ops
    conts = [t for t in temps if isinstance(t, (dict, list)) and not isinstance(t, gen.SetT)]
    for i, t in enumerate(conts):
        rs = renderings(t) if i % 4 == 0 else renderings(t, ("block",))
        for fmt, text in rs:
            for j, segs in enumerate(SET_PATHS):
                for k, op in enumerate(SET_OPS):
                    if (i + j + k) % 3 and (quick or (i + j + k) % 3 == 1):
                        continue
                    cases.append({"tool": "set", "doc": text, "fmt": fmt, "shape": shape(t), "segs": segs, "op": op,
                                  "sep": "/" if (i + j) % 5 == 0 else "."})
    for name, text in RAW_DOCS:
        for segs in SET_PATHS[:6]:
            for op in SET_OPS:
                cases.append({"tool": "set", "doc": text, "fmt": "block", "shape": "raw-" + name, "segs": segs, "op": op})
    # --- merge / diff: pairs of small documents
    small = gen.trees(3, 2, keys=("a", "b"), scalars=(None, True, 1, "a"))
    small = [t for t in small if t is not None] + CRAFTED[:4]
    # falsy scalar documents: 0, false and 0.0 are data, not "no document" (and differ from null and from each other's kind)
    falsy = [0, False, 0.0, None]
    if quick:
        pool = falsy + [t for i, t in enumerate(small) if i % 2 == 0 or isinstance(t, (dict, list))][:70]
    else:
        pool = falsy + (small if len(small) <= 300 else random.Random(seed + 2).sample(small, 300))
    rngp = random.Random(seed + 1)
    for li, lt in enumerate(pool):
        for ri, rt in enumerate(pool):
            lfmt = ("block", "flow", "json")[(li + ri) % 3]
            rfmt = ("block", "flow", "json")[(li + 2 * ri) % 3]
            ltext = dict(renderings(lt)).get(lfmt) or to_block(lt)
            rtext = dict(renderings(rt)).get(rfmt) or to_block(rt)
            sh = shape(lt, 1) + "<-" + shape(rt, 1)
            cases.append({"tool": "diff", "lhs": ltext, "rhs": rtext, "shape": sh})
            if isinstance(lt, gen.SetT) or isinstance(rt, gen.SetT) or lt is None or rt is None:
                continue
            opts = MERGE_OPTS[0] if (li + ri) % 2 else MERGE_OPTS[rngp.randrange(len(MERGE_OPTS))]
            cases.append({"tool": "merge", "lhs": ltext, "rhs": rtext, "shape": sh, "opts": opts})
    for bad in INVALID_DOCS[:3]:
        cases.append({"tool": "diff", "lhs": bad, "rhs": "a: 1\n", "shape": "invalid"})
        cases.append({"tool": "merge", "lhs": "a: 1\n", "rhs": bad, "shape": "invalid", "opts": {}})
    # --- validate: all sequences of <= 2 (quick) / 3 file kinds, each position optionally "-"
    kinds = list(VALIDATE_FILES)
    import itertools
    for n in (1, 2) if quick else (1, 2, 3):
        combos = itertools.product(kinds, repeat=n)
        for c in combos:
            if n == 3 and rng.random() > 0.35:
                continue
            cases.append({"tool": "validate", "files": list(c), "dash": None})
            for d in range(n):
                if VALIDATE_FILES[c[d]] is not None:
                    cases.append({"tool": "validate", "files": list(c), "dash": d})
            if n == 1:
                cases.append({"tool": "validate", "files": list(c), "dash": None, "quiet": True})
    # --- paths
    for i, t in enumerate(temps):
        if not isinstance(t, (dict, list)) or isinstance(t, gen.SetT):
            continue
        text = to_block(t) if i % 3 else gen.to_yaml(t) + "\n"
        for j, expr in enumerate(PATHS_EXPR):
            for k, opts in enumerate(PATHS_OPTS):
                if (i + j + k) % (4 if quick else 3):
                    continue
                cases.append({"tool": "paths", "doc": text, "shape": shape(t), "expr": expr, "opts": opts})
    for name, text in RAW_DOCS:
        for expr in PATHS_EXPR[:6]:
            for opts in PATHS_OPTS[:4]:
                cases.append({"tool": "paths", "doc": text, "shape": "raw-" + name, "expr": expr, "opts": opts})
    cases += [dict(c, check="args") for c in arg_cases()]
    return cases


# --------------------------------------------------------------------------
# workers / API
# --------------------------------------------------------------------------
def _workdir():
    wd = os.path.join("/tmp", MODULE, str(os.getpid()))
    os.makedirs(wd, exist_ok=True)
    return wd


def _work(chunk):
    wd = _workdir()
    col = Collector(max_samples=2)
    ctx = Ctx(col, wd)
    try:
        for case in chunk:
            ctx.clean()
            CHECKS[case.get("check", case["tool"])](ctx, case)
    finally:
        shutil.rmtree(wd, ignore_errors=True)
    return col.result(internal=True)


def run(tier="quick", seed=0, jobs=None):
    _sanity_validity()
    cases = build_cases(tier, seed)
    only = os.environ.get("VERIF_C16_TOOLS")       # development aid: "get,diff" restricts the run (reported in bounds)
    if only:
        cases = [c for c in cases if c.get("check", c["tool"]) in only.split(",")]
    rng = random.Random(seed)
    rng.shuffle(cases)           # spread the slow tools over the workers
    total = Collector(max_samples=8)
    for part in pmap_chunks(_work, cases, jobs=jobs, chunk=max(50, len(cases) // 160)):
        total.merge(part)
    per_tool = {}
    for c in cases:
        k = c.get("check", c["tool"])
        per_tool[k] = per_tool.get(k, 0) + 1
    try:
        os.rmdir(os.path.join("/tmp", MODULE))
    except OSError:
        pass
    return total.result(
        rule=("in-process main() of yaml-get/-set/-merge/-diff/-validate/-paths vs the library on a separately loaded "
              "copy of the same text; documents = rtc.gen trees (%s) + crafted + raw (anchors, block scalars, comments, "
              "utf-8) + %d random; block/flow/JSON renderings; file, '-', implicit-stdin delivery; dot and '/' notation"
              % ("<=3 nodes depth<=2" if tier == "quick" else "<=4 nodes depth<=2", 40 if tier == "quick" else 400)),
        exhaustive=False,
        bounds={"tier": tier, "seed": seed, "restricted_to": only, "cases_per_tool": per_tool, "get_paths": len(GET_PATHS),
                "set_paths": len(SET_PATHS), "set_ops": len(SET_OPS), "merge_option_sets": len(MERGE_OPTS),
                "paths_expressions": len(PATHS_EXPR), "paths_option_sets": len(PATHS_OPTS),
                "validate_file_kinds": len(VALIDATE_FILES), "arg_error_cases": len(arg_cases()),
                "cli_runs_per_case": {"get": 5, "set": 2, "merge": "1-3", "diff": 3, "validate": 1, "paths": 3}},
    )


def replay(inp):
    """Re-run one case; the first witness it still produces, else None."""
    wd = _workdir()
    col = Collector()
    ctx = Ctx(col, wd)
    try:
        CHECKS[inp.get("check", inp["tool"])](ctx, inp)
    finally:
        shutil.rmtree(wd, ignore_errors=True)
    ws = list(col.witnesses.values())
    return ws[0] if ws else None


if __name__ == "__main__":
    tier = sys.argv[1] if len(sys.argv) > 1 else "quick"
    seed = int(sys.argv[2]) if len(sys.argv) > 2 else 0
    jobs = int(sys.argv[3]) if len(sys.argv) > 3 else None
    print(json.dumps(run(tier, seed, jobs), indent=1, default=repr))
